#!/venv/bin/python
"""Run the repository's pinned test command (guard OFF) and compare the set of
passing tests with /root/.vp/BASELINE.json.  Exit 0 iff every stable_pass test
still passes.  Usage: tools/baseline.py [repo_dir]"""
import json, os, subprocess, sys, tempfile
import xml.etree.ElementTree as ET

repo = sys.argv[1] if len(sys.argv) > 1 else '/repo'
base = json.load(open('/root/.vp/BASELINE.json'))
want = set(base['stable_pass'])
with tempfile.TemporaryDirectory() as td:
    xml = os.path.join(td, 'j.xml')
    env = dict(os.environ)
    env.pop('ASTROPY_REGIONS_VERIF', None)
    subprocess.run(['/venv/bin/python', '-m', 'pytest', '-ra', '-q', '-p', 'no:cacheprovider', '--timeout=900',
                    '--continue-on-collection-errors', f'--junitxml={xml}'], cwd=repo, env=env,
                   capture_output=True, text=True)
    passed = set()
    for tc in ET.parse(xml).getroot().iter('testcase'):
        if not any(ch.tag in ('failure', 'error', 'skipped') for ch in tc):
            passed.add(f"{tc.get('classname')}::{tc.get('name')}")
missing = sorted(want - passed)
print(f'baseline stable_pass={len(want)} passed_now={len(passed)} missing={len(missing)}')
for m in missing[:20]:
    print('  MISSING', m)
sys.exit(1 if missing else 0)
