#!/bin/sh
# usage: tools/new_worktree.sh <name>   -> /tmp/wt_<name> (scratch worktree of /repo HEAD with the built kernels copied in)
set -e
d=/tmp/wt_$1
git -C /repo worktree remove --force "$d" 2>/dev/null || true
rm -rf "$d"
git -C /repo worktree add -q "$d" HEAD
cp /repo/regions/_geometry/*.so /repo/regions/_geometry/*.c "$d/regions/_geometry/" 2>/dev/null || true
mkdir -p /tmp/mut_$1
echo "$d"
