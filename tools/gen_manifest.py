#!/venv/bin/python
"""Regenerate MANIFEST.json from the property drivers that exist."""
import os, sys, json, importlib
V = os.path.dirname(os.path.dirname(os.path.abspath(__file__)))
sys.path.insert(0, V)
os.environ.setdefault('VERIF_REPO', '/repo')
props = [json.loads(l) for l in open(os.path.join(V, 'properties.jsonl'))]
checks, na = [], []
NA_REASONS = {}
for p in props:
    pid = p['id']
    path = os.path.join(V, 'mc', 'props', pid.lower() + '.py')
    if not os.path.exists(path):
        na.append({'property_id': pid, 'reason': NA_REASONS.get(pid, 'check not built yet in this revision (planned: bounded exhaustive enumeration, see DESIGN.md section 3)')})
        continue
    src = open(path).read()
    ns = {}
    # read the metadata constants without importing regions
    import ast
    tree = ast.parse(src)
    for node in tree.body:
        if isinstance(node, ast.Assign) and len(node.targets) == 1 and isinstance(node.targets[0], ast.Name):
            name = node.targets[0].id
            if name in ('ID', 'LEVEL', 'TECHNIQUE', 'LEVEL_TEXT', 'LEVEL_NOTE', 'ENGINE', 'DESIGN_REF'):
                try:
                    ns[name] = ast.literal_eval(node.value)
                except Exception:
                    pass
    level = ns.get('LEVEL', 'model_checking')
    checks.append({
        'property_id': pid,
        'quick_cmd': f'./check {pid} --tier quick',
        'thorough_cmd': f'./check {pid} --tier thorough',
        'evidence_file': f'/verif/evidence/{pid}.json',
        'replay_cmd_template': f'./check {pid} --replay {{path}}',
        'engine': ns.get('ENGINE', 'E2-lattice'),
        'level_claimed': {
            'category': level,
            'text': ns.get('LEVEL_TEXT', 'bounded exhaustive exploration of the declared finite space on the real code, every case compared with an independent reference model'),
            'design_ref': ns.get('DESIGN_REF', f'DESIGN.md section 3 ({pid})'),
        },
        'level_note': ns.get('LEVEL_NOTE', 'holds on every point of the declared lattice/bound only; numpy, astropy (units, coordinates, wcs, table, io.fits) and matplotlib are trusted; compiled kernels are checked as built'),
        'technique': ns.get('TECHNIQUE', 'bounded exhaustive enumeration (explicit-state / lattice) on the implementation with a reference-model oracle'),
    })

TEXTS = {
 'C01': ('bounded-exhaustive lattice enumeration on the implementation (shape x size x angle x unit x centre x include x query container) with an exact-by-construction reference membership',
         'every contains()/`in` answer of the real code on the full declared product equals the reference membership outside an explicit guard band; shape/scalar-ness of the answer checked for 9 container forms',
         'holds on the lattice only (sizes 2^-10..2^20, 11 angles x 5 units); positions within 1e-9 relative of the boundary are excepted as the property states; pnpoly kernel as built'),
 'C02': ('bounded-exhaustive lattice enumeration on the implementation with a per-sub-sample reference membership',
         'every pixel of every centre/subpixel mask (n=1..12, 51 grid phases incl. far centres) lies in the interval implied by the sure/unsure reference samples; unsupported combinations must raise NotImplementedError',
         'lattice of sizes <= 40 px; sample positions within the guard band widen the accepted interval; kernels as built'),
 'C03': ('bounded-exhaustive lattice enumeration on the implementation with an independent Green-theorem area oracle',
         'every pixel of every exact mask (and of direct kernel calls) compared with an independently computed overlap area; sums vs analytic area; convergence bound for subpixel masks',
         'oracle self-validated against closed forms to 8e-15; 232 ellipse configurations at special alignments are genuine kernel defects listed as known findings (Cython cannot be rebuilt here)'),
 'C04': ('bounded-exhaustive lattice enumeration on the implementation (1/8-pixel centre lattice x sizes x angles) with independent true extents',
         'integer box equals floor/ceil of the independently computed true extent, is minimal per side, encloses all reference members, equals the mask box in every mode; annulus = outer box, compound = union',
         'rounding-boundary allowance of 1e-9 where trigonometry is involved'),
 'C05': ('exhaustive small-scope enumeration on the implementation (all box positions x box/image shapes x weights x dtypes x fills x copy x data mask) with a nested-list placement model',
         'to_image/cutout/multiply/get_values/overlap slices equal the dictionary model of placing the mask at (ixmin, iymin); inputs bit-identical afterwards',
         'result dtypes and view-vs-copy for copy=False are not demanded; weight-0 pixels of multiply may be 0 or the fill value'),
 'C06': ('bounded-exhaustive lattice enumeration on the implementation (region class x WCS family x position x include)',
         'pixel->sky->pixel and sky->pixel->sky return the corresponding class with geometry to 1e-6 relative and identical meta/visual; sky membership equals pixel-image membership and the reference membership',
         'astropy.wcs / astropy.coordinates trusted; configurations outside a projection domain are skipped'),
 'C07': ('bounded-exhaustive lattice enumeration on the implementation with an independent spherical-offset route through wcs.world_to_pixel',
         'sky points at the angular semi-axes (astropy directional offsets) land on the boundary of the pixel image; centre, lengths and angle agree with finite-difference scale/north, independent of the helper shared by both conversion directions',
         'tolerance 1e-6 + 2 theta^2 bounds the projection non-linearity; astropy trusted'),
 'C08': ('bounded-exhaustive enumeration on the implementation: all ordered pairs x operators x include flags, all expression trees to depth 2 (3 thinned), annulus lattices',
         'membership = boolean algebra of reference operand membership; centre mask = operator on reference masks in the union box; commutes with conversion and rotation; annulus area/membership',
         'operator form shares region1.meta by design (modelled); guard band as C01'),
 'C09': ('bounded-exhaustive lattice enumeration on the implementation plus fresh-interpreter runs per hash seed',
         'serialize->parse returns one region of the same class/frame within half a unit of the precision, same text/tags/include; parse->serialize->parse fixed point; determinism across PYTHONHASHSEED 0..3; inexpressible members skipped without altering output',
         'ellipse full axes within one unit (semi-axes are written); label and brace-containing text are outside DS9-expressible metadata'),
 'C10': ('explicit-state search over line programs (all sequences to depth 3, BFS over reference-interpreter states to closure) plus the full per-line grammar product, each executed on the real parser',
         'parsed regions equal the reference reading of the DS9 conventions for every generated line and program; state (frame, global properties, composite) never leaks',
         'supported subset as named in the property; tolerance 1e-9 (conventions errors are >= 1e-4)'),
 'C11': ('bounded-exhaustive lattice enumeration on the implementation plus a generated CRTF line grammar',
         'round trip within half a unit of fmt in the written unit incl. frame change, include/type/label/meta preserved, fixed point; CASA reading rules for global/inline keys, coord=, signs, ann, ellipse axes, box forms, units required',
         'astropy frame transformations trusted; labelcolor and text containing = are outside the demanded vocabulary'),
 'C12': ('bounded-exhaustive enumeration on the implementation: all lists <= 3 + windows x include x component patterns x media, hand-built tables',
         'same classes, exact geometry, exclude flag, components kept or fresh and distinct, fixed point, skipping does not alter other rows; other accepted notations read by reference row arithmetic',
         'polygon zero padding for mixed vertex counts is a known finding'),
 'C13': ('explicit-state search on the implementation: closure of the state graph of 56 operations over a fingerprinted pool, all ordered pairs (triples over I/O operations), fresh interpreters per hash seed',
         'no operation changes any input or module-level table (bit-exact fingerprint); every result equals the initial-state result, the repeated result and the fresh-interpreter result',
         'fingerprint covers public attributes + the module tables named in the anchors; astropy/matplotlib caches excluded'),
 'C14': ('exhaustive fault/environment enumeration on the real writers with filesystem snapshots',
         'existing destination without overwrite -> OSError and byte-identical; any failing write leaves the destination untouched; every successful write reads back through every identification route as parse(serialize)',
         'faults are those named in the property (difficult list members, bad options, unknown formats); I/O errors mid-write are out of scope'),
 'C15': ('bounded-exhaustive lattice enumeration on the implementation with oracle-rotated queries and exact dyadic translations',
         'rotation preserves class/meta/area and membership (queries rotated by the oracle), rotating back restores parameters, original untouched; integer translation shifts the box exactly and leaves masks bit-identical',
         'queries near the boundary (relative 1e-9 lever-arm band) excluded'),
 'C16': ('explicit-state search on the implementation (mutation sequences on copies/originals, list mutators) plus a complete single-field perturbation matrix',
         'equality equals the field-wise model for every perturbation kind, is reflexive/symmetric/never raises; copies equal and share no mutable state under all mutation sequences to depth 2/3; copy(**changes) changes exactly the named field',
         'field equality of Quantity/SkyCoord values delegated to astropy'),
 'C17': ('explicit-state search on the implementation: BFS to closure over assignments/deletes per class, dict and list mutators',
         'every catalogue value outside the documented domain is rejected with ValueError/TypeError/KeyError at construction and on assignment and leaves the object bit-identical; accepted values read back unchanged; closure => any interleaving length',
         'annulus ordering on assignment is a known finding (6 classes)'),
 'C18': ('bounded-exhaustive lattice enumeration on the implementation with an own path flattener and non-zero winding number',
         'patch interior equals region membership away from the boundary, annulus hole is a hole (opposite orientation), point/text/line positions, caller kwargs override stored visuals',
         'guard band 0.5 % of the size for Bezier/flattening error'),
 'C19': ('exhaustive enumeration on the implementation: all boxes with corners in [-4,6], all ordered pairs, all triples over a smaller range, all image shapes, 1/8-pixel float lattice',
         'union/intersection/equality/shape/centre/extent/from_float/overlap slices equal the integer pixel-set model on every enumerated input',
         'corner magnitudes beyond the stated ranges only through a fixed catalogue of numpy types and magnitudes'),
 'C20': ('exhaustive enumeration on the implementation: all 64 x/y shape pairs x dtypes x 47 index expressions x rotations x WCS x origin x mode',
         'construction/broadcast, indexing, iteration, length, +/-, separation, rotation (isometry, composition, fixed centre), copies and sky round trips equal a numpy-free nested-list reference model',
         'astropy.wcs trusted for the reference pix2world values'),
}

for c in checks:
    t = TEXTS.get(c['property_id'])
    if t:
        c['technique'] = t[0]
        c['level_claimed']['text'] = t[1]
        c['level_note'] = t[2] + '; numpy, astropy and matplotlib are trusted; compiled kernels are checked as built'

man = {
    'version': 1,
    'setup_cmd': 'true',
    'hooks': {
        'guard': 'ASTROPY_REGIONS_VERIF',
        'enable': 'no source hooks are needed: checks import regions from /repo working tree; the guard variable is set by the runner but nothing in /repo reads it',
        'baseline_off_cmd': 'cd /repo && /venv/bin/python -m pytest -ra -q -p no:cacheprovider --timeout=900 --continue-on-collection-errors',
        'source_commits': [],
        'add_only': True,
    },
    'engines': [
        {'name': 'E1-explorer', 'path': 'mc/explorer.py', 'serves_properties': ['C10', 'C13', 'C14', 'C16', 'C17'],
         'kind_free_text': 'explicit-state breadth-first search over operation histories replayed on fresh real objects, canonical fingerprints, closure or depth bound'},
        {'name': 'E2-lattice', 'path': 'mc/lattice.py', 'serves_properties': ['C01', 'C02', 'C03', 'C04', 'C05', 'C06', 'C07', 'C08', 'C09', 'C10', 'C11', 'C12', 'C15', 'C18', 'C19', 'C20'],
         'kind_free_text': 'bounded-exhaustive enumeration of a declared finite lattice of configurations, each executed on the real code and compared with a reference model'},
        {'name': 'E3-faults', 'path': 'mc/props/c14.py', 'serves_properties': ['C14', 'C09', 'C13'],
         'kind_free_text': 'exhaustive enumeration of destination state x overwrite x failing-element position x entry point; PYTHONHASHSEED as an enumerated environment axis'},
    ],
    'checks': checks,
    'not_applicable': na,
    'notes': 'Technique family: model checking by bounded exhaustive enumeration on the implementation (no sampling, no solver verdicts). VERIF_SEED only selects among pre-vetted lattice phases. See DESIGN.md.',
}
json.dump(man, open(os.path.join(V, 'MANIFEST.json'), 'w'), indent=1)
print(f'checks={len(checks)} not_applicable={len(na)}')
