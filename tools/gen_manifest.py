#!/venv/bin/python
"""Regenerate MANIFEST.json from the property drivers that exist."""
import os, sys, json, importlib
V = os.path.dirname(os.path.dirname(os.path.abspath(__file__)))
sys.path.insert(0, V)
os.environ.setdefault('VERIF_REPO', '/repo')
props = [json.loads(l) for l in open(os.path.join(V, 'properties.jsonl'))]
checks, na = [], []
NA_REASONS = {}
for p in props:
    pid = p['id']
    path = os.path.join(V, 'mc', 'props', pid.lower() + '.py')
    if not os.path.exists(path):
        na.append({'property_id': pid, 'reason': NA_REASONS.get(pid, 'check not built yet in this revision (planned: bounded exhaustive enumeration, see DESIGN.md section 3)')})
        continue
    src = open(path).read()
    ns = {}
    # read the metadata constants without importing regions
    import ast
    tree = ast.parse(src)
    for node in tree.body:
        if isinstance(node, ast.Assign) and len(node.targets) == 1 and isinstance(node.targets[0], ast.Name):
            name = node.targets[0].id
            if name in ('ID', 'LEVEL', 'TECHNIQUE', 'LEVEL_TEXT', 'LEVEL_NOTE', 'ENGINE', 'DESIGN_REF'):
                try:
                    ns[name] = ast.literal_eval(node.value)
                except Exception:
                    pass
    level = ns.get('LEVEL', 'model_checking')
    checks.append({
        'property_id': pid,
        'quick_cmd': f'./check {pid} --tier quick',
        'thorough_cmd': f'./check {pid} --tier thorough',
        'evidence_file': f'/verif/evidence/{pid}.json',
        'replay_cmd_template': f'./check {pid} --replay {{path}}',
        'engine': ns.get('ENGINE', 'E2-lattice'),
        'level_claimed': {
            'category': level,
            'text': ns.get('LEVEL_TEXT', 'bounded exhaustive exploration of the declared finite space on the real code, every case compared with an independent reference model'),
            'design_ref': ns.get('DESIGN_REF', f'DESIGN.md section 3 ({pid})'),
        },
        'level_note': ns.get('LEVEL_NOTE', 'holds on every point of the declared lattice/bound only; numpy, astropy (units, coordinates, wcs, table, io.fits) and matplotlib are trusted; compiled kernels are checked as built'),
        'technique': ns.get('TECHNIQUE', 'bounded exhaustive enumeration (explicit-state / lattice) on the implementation with a reference-model oracle'),
    })
man = {
    'version': 1,
    'setup_cmd': 'true',
    'hooks': {
        'guard': 'ASTROPY_REGIONS_VERIF',
        'enable': 'no source hooks are needed: checks import regions from /repo working tree; the guard variable is set by the runner but nothing in /repo reads it',
        'baseline_off_cmd': 'cd /repo && /venv/bin/python -m pytest -ra -q -p no:cacheprovider --timeout=900 --continue-on-collection-errors',
        'source_commits': [],
        'add_only': True,
    },
    'engines': [
        {'name': 'E1-explorer', 'path': 'mc/explorer.py', 'serves_properties': ['C10', 'C13', 'C14', 'C16', 'C17'],
         'kind_free_text': 'explicit-state breadth-first search over operation histories replayed on fresh real objects, canonical fingerprints, closure or depth bound'},
        {'name': 'E2-lattice', 'path': 'mc/lattice.py', 'serves_properties': ['C01', 'C02', 'C03', 'C04', 'C05', 'C06', 'C07', 'C08', 'C09', 'C10', 'C11', 'C12', 'C15', 'C18', 'C19', 'C20'],
         'kind_free_text': 'bounded-exhaustive enumeration of a declared finite lattice of configurations, each executed on the real code and compared with a reference model'},
        {'name': 'E3-faults', 'path': 'mc/props/c14.py', 'serves_properties': ['C14', 'C09', 'C13'],
         'kind_free_text': 'exhaustive enumeration of destination state x overwrite x failing-element position x entry point; PYTHONHASHSEED as an enumerated environment axis'},
    ],
    'checks': checks,
    'not_applicable': na,
    'notes': 'Technique family: model checking by bounded exhaustive enumeration on the implementation (no sampling, no solver verdicts). VERIF_SEED only selects among pre-vetted lattice phases. See DESIGN.md.',
}
json.dump(man, open(os.path.join(V, 'MANIFEST.json'), 'w'), indent=1)
print(f'checks={len(checks)} not_applicable={len(na)}')
