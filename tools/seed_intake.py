#!/venv/bin/python
"""Validate an independently produced property-breaking change and file it under /verif/seeded/.

usage: tools/seed_intake.py SRC_DIR NAME [--props C01 C13 ...] [--tier quick]

SRC_DIR holds patch.diff, demo.py, meta.json (as written by the mutation sub-agent).  The change is kept only if,
on a scratch copy of /repo HEAD: the patch applies, the repository's baseline tests still all pass, the demo exits
non-zero with the change and zero without it.  Then the listed checks (default: the property named in meta.json)
are run against the mutated copy and the verdicts are recorded in seeded/NAME/meta.json.
"""
import argparse, json, os, shutil, subprocess, sys, tempfile, time

V = os.path.dirname(os.path.dirname(os.path.abspath(__file__)))
ap = argparse.ArgumentParser()
ap.add_argument('src')
ap.add_argument('name')
ap.add_argument('--props', nargs='*')
ap.add_argument('--tier', default='quick')
ap.add_argument('--force', action='store_true', help='file it even if validation fails (marked invalid)')
a = ap.parse_args()

meta = json.load(open(os.path.join(a.src, 'meta.json')))
props = a.props or [meta['property']]
d = tempfile.mkdtemp(prefix='seed.', dir='/dev/shm')
dst = os.path.join(d, 'repo')
rec = {'validated_at': time.strftime('%Y-%m-%dT%H:%M:%S'), 'repo_head': subprocess.run(['git', '-C', '/repo', 'rev-parse', '--short', 'HEAD'], capture_output=True, text=True).stdout.strip()}
try:
    subprocess.run(['cp', '-a', '/repo', dst], check=True)
    subprocess.run(['git', '-C', dst, 'checkout', '-q', '--', '.'], check=True)
    patch = os.path.abspath(os.path.join(a.src, 'patch.diff'))
    demo = os.path.abspath(os.path.join(a.src, 'demo.py'))
    # demo on the unmodified copy
    env = dict(os.environ, PYTHONPATH=dst, MPLBACKEND='Agg')
    p0 = subprocess.run(['/venv/bin/python', demo], cwd=dst, env=env, capture_output=True, text=True, timeout=1800)
    rec['demo_rc_without_change'] = p0.returncode
    p = subprocess.run(['git', '-C', dst, 'apply', '--whitespace=nowarn', patch], capture_output=True, text=True)
    rec['patch_applies'] = p.returncode == 0
    if p.returncode:
        rec['patch_error'] = p.stderr[-400:]
    else:
        p1 = subprocess.run(['/venv/bin/python', demo], cwd=dst, env=env, capture_output=True, text=True, timeout=1800)
        rec['demo_rc_with_change'] = p1.returncode
        rec['demo_output_with_change'] = (p1.stdout + p1.stderr)[-600:]
        t = subprocess.run([os.path.join(V, 'tools', 'baseline.py'), dst], capture_output=True, text=True)
        rec['baseline_tests_pass'] = t.returncode == 0
        rec['baseline_summary'] = t.stdout.strip().splitlines()[0] if t.stdout.strip() else ''
        rec['checks'] = {}
        for pid in props:
            e = dict(os.environ, VERIF_REPO=dst)
            c = subprocess.run([os.path.join(V, 'check'), pid, '--tier', a.tier], cwd=V, env=e, capture_output=True, text=True)
            last = [l for l in c.stdout.splitlines() if l.startswith(pid + ' tier=')]
            viol = [l for l in c.stdout.splitlines() if l.startswith('VIOLATION')]
            kinds = last[0].split('kinds=')[1] if last and 'kinds=' in last[0] else ''
            rec['checks'][pid] = {'rc': c.returncode, 'violation_lines': len(viol), 'kinds': kinds, 'tier': a.tier,
                                  'detected': c.returncode == 1 and len(viol) > 0}
            if c.returncode not in (0, 1):
                rec['checks'][pid]['stderr'] = c.stderr[-800:]
    valid = bool(rec.get('patch_applies') and rec.get('baseline_tests_pass') and rec.get('demo_rc_with_change', 0) != 0
                 and rec.get('demo_rc_without_change', 1) == 0)
    rec['valid'] = valid
    print(json.dumps(rec, indent=1))
    if valid or a.force:
        out = os.path.join(V, 'seeded', a.name)
        os.makedirs(out, exist_ok=True)
        shutil.copy(patch, os.path.join(out, 'patch.diff'))
        shutil.copy(demo, os.path.join(out, 'demo.py'))
        meta['what_i_ran'] = rec
        meta['breaks_property'] = meta.get('property')
        json.dump(meta, open(os.path.join(out, 'meta.json'), 'w'), indent=1)
        print('filed under', out)
    else:
        print('NOT KEPT (validation failed)')
finally:
    shutil.rmtree(d, ignore_errors=True)
