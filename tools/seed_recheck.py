#!/venv/bin/python
"""Re-run the check of its own property against every filed change (seeded/*), on a scratch copy of /repo HEAD.

usage: tools/seed_recheck.py [--part K/N] [NAME ...]

Does not repeat the validation of the change itself (tests, demo): only whether the patch still applies to HEAD and
whether the check still reports it.  Writes seeded/<name>/recheck.json.
"""
import argparse, glob, json, os, shutil, subprocess, sys, tempfile, time

V = os.path.dirname(os.path.dirname(os.path.abspath(__file__)))
ap = argparse.ArgumentParser()
ap.add_argument('names', nargs='*')
ap.add_argument('--part', default='0/1')
a = ap.parse_args()
k, n = (int(x) for x in a.part.split('/'))
names = a.names or sorted(os.path.basename(os.path.dirname(p)) for p in glob.glob(os.path.join(V, 'seeded', '*', 'patch.diff')))
names = names[k::n]
head = subprocess.run(['git', '-C', '/repo', 'rev-parse', '--short', 'HEAD'], capture_output=True, text=True).stdout.strip()
for name in names:
    d = os.path.join(V, 'seeded', name)
    meta = json.load(open(os.path.join(d, 'meta.json')))
    pid = meta['property']
    tmp = tempfile.mkdtemp(prefix='rechk.', dir='/dev/shm')
    dst = os.path.join(tmp, 'repo')
    rec = {'rechecked_at': time.strftime('%Y-%m-%dT%H:%M:%S'), 'repo_head': head, 'property': pid}
    try:
        subprocess.run(['cp', '-a', '/repo', dst], check=True)
        subprocess.run(['git', '-C', dst, 'checkout', '-q', '--', '.'], check=True)
        p = subprocess.run(['git', '-C', dst, 'apply', '--whitespace=nowarn', os.path.join(d, 'patch.diff')], capture_output=True, text=True)
        rec['patch_applies'] = p.returncode == 0
        if p.returncode == 0:
            e = dict(os.environ, VERIF_REPO=dst)
            c = subprocess.run([os.path.join(V, 'check'), pid, '--tier', 'quick'], cwd=V, env=e, capture_output=True, text=True)
            last = [ln for ln in c.stdout.splitlines() if ln.startswith(pid + ' tier=')]
            viol = [ln for ln in c.stdout.splitlines() if ln.startswith('VIOLATION')]
            rec.update({'rc': c.returncode, 'violation_lines': len(viol), 'kinds': last[0].split('kinds=')[1] if last and 'kinds=' in last[0] else '',
                        'detected': c.returncode == 1 and len(viol) > 0})
        else:
            rec['patch_error'] = p.stderr[-300:]
    finally:
        shutil.rmtree(tmp, ignore_errors=True)
    json.dump(rec, open(os.path.join(d, 'recheck.json'), 'w'), indent=1)
    print(name, json.dumps({k: rec.get(k) for k in ('patch_applies', 'detected', 'rc')}), flush=True)
