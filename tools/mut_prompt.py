import sys
pid=sys.argv[1]
prop=open(f'/tmp/prop_{pid}.txt').read()
print(f"""You are a careful adversarial software engineer. The Python library astropy/regions is checked out for you in a private scratch git worktree at /tmp/wt_{pid} (a worktree of /repo's HEAD; the compiled kernels regions/_geometry/*.so are already copied in; Cython is NOT available so you cannot change compiled code — change Python sources only). Work ONLY inside /tmp/wt_{pid} and /tmp/mut_{pid}. Do not read or touch /verif, do not touch /repo itself.

Here is a semantic property that the library is supposed to satisfy:

---
{prop}
---

Your job: produce TWO independent, realistic changes (mutations) to the library's Python source, each of which BREAKS this property while (a) the package still imports and (b) the repository's existing test suite still passes exactly as before. Make them the kind of slip a maintainer could plausibly commit (an off-by-one, a swapped argument, a stale cache, a dropped copy, a condition that is right for the common case only, two sites that each look fine alone...), and — importantly — make each one need something SPECIFIC to manifest: a particular unusual input or combination of parameters, a multi-step sequence of operations, a particular position of an element in a list, a fault at a particular point, state carried over from an earlier call, etc. Do NOT submit changes that ordinary use would expose at once (e.g. breaking the default path for every input), and do not submit two variants of the same idea: use two different mechanisms / code sites.

How to check the test suite (must still pass — 1010 tests pass on the unmodified tree, 8 fail/err for unrelated reasons): run
  cd /tmp/wt_{pid} && /venv/bin/python -m pytest -q -p no:cacheprovider --timeout=900 --continue-on-collection-errors 2>&1 | tail -5
and compare with the unmodified tree (expected: '6 failed, 1010 passed, 15 skipped, 2 errors'). Every shell command prints a harmless conda warning line first.

For each mutation k in {{1, 2}} create the directory /tmp/mut_{pid}/m<k>/ containing:
  - patch.diff : output of `git -C /tmp/wt_{pid} diff` for that mutation alone (apply each mutation starting from a clean worktree: `git -C /tmp/wt_{pid} checkout -- .` between them);
  - demo.py : a small self-contained program (run as `/venv/bin/python demo.py` with the current directory being the root of a checkout, so that `import regions` picks up that checkout) that exits with status 0 and prints PASS when the property holds for the scenario it exercises, and exits with status 1 and prints FAIL when it does not. It must exit 1 on the mutated tree and exit 0 on the unmodified tree — verify both yourself (never use `git stash` — the stash is shared between worktrees; save your diff to a file, `git checkout -- .` to get the clean tree, `git apply` the file to get the change back; run it from /tmp/wt_{pid});
  - meta.json : {{"property": "{pid}", "summary": "...one sentence what was changed...", "needs_to_manifest": "...what specific input/sequence/state is needed...", "files": [...], "tests_pass": true, "demo_fails_with_change": true, "demo_passes_without": true}}.
Leave the worktree clean (`git -C /tmp/wt_{pid} checkout -- .`) when you finish. Reply with a short summary of the two mutations (files, idea, what it needs to manifest) and confirm the three verifications for each.""")
