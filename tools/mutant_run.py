#!/venv/bin/python
"""Apply a patch to a scratch copy of /repo, optionally run the repository's baseline tests on it,
run the given checks against it (VERIF_REPO), print a one-line verdict per check, delete the copy.

usage: tools/mutant_run.py PATCH [--tests] [--tier quick] [--demo FILE.py] C01 C02 ...
"""
import argparse, os, shutil, subprocess, sys, tempfile, json

ap = argparse.ArgumentParser()
ap.add_argument('patch')
ap.add_argument('props', nargs='*')
ap.add_argument('--tests', action='store_true')
ap.add_argument('--tier', default='quick')
ap.add_argument('--demo')
ap.add_argument('--keep', action='store_true')
a = ap.parse_args()
V = os.path.dirname(os.path.dirname(os.path.abspath(__file__)))
d = tempfile.mkdtemp(prefix='mut.', dir='/dev/shm')
dst = os.path.join(d, 'repo')
rc_all = {}
try:
    subprocess.run(['cp', '-a', '/repo', dst], check=True)
    subprocess.run(['git', '-C', dst, 'checkout', '-q', '--', '.'], check=True)
    p = subprocess.run(['git', '-C', dst, 'apply', '--whitespace=nowarn', os.path.abspath(a.patch)], capture_output=True, text=True)
    if p.returncode:
        print('PATCH-FAILED', p.stderr.strip()[:500]); sys.exit(3)
    if a.tests:
        p = subprocess.run([os.path.join(V, 'tools', 'baseline.py'), dst], capture_output=True, text=True)
        print('TESTS', 'pass' if p.returncode == 0 else 'FAIL', p.stdout.strip().splitlines()[0] if p.stdout.strip() else '')
    if a.demo:
        env = dict(os.environ, PYTHONPATH=dst)
        p1 = subprocess.run(['/venv/bin/python', os.path.abspath(a.demo)], cwd=dst, env=env, capture_output=True, text=True)
        env0 = dict(os.environ, PYTHONPATH='/repo')
        p0 = subprocess.run(['/venv/bin/python', os.path.abspath(a.demo)], cwd='/repo', env=env0, capture_output=True, text=True)
        print(f'DEMO mutated_rc={p1.returncode} original_rc={p0.returncode}')
    for pid in a.props:
        env = dict(os.environ, VERIF_REPO=dst, VERIF_TIER=a.tier)
        p = subprocess.run([os.path.join(V, 'check'), pid, '--tier', a.tier], cwd=V, env=env, capture_output=True, text=True)
        viol = [l for l in p.stdout.splitlines() if l.startswith('VIOLATION')]
        last = [l for l in p.stdout.splitlines() if l.startswith(pid + ' tier=')]
        kinds = last[0].split('kinds=')[1] if last and 'kinds=' in last[0] else ''
        print(f'{pid} rc={p.returncode} violations_lines={len(viol)} {kinds}')
        if p.returncode not in (0, 1):
            print(p.stderr[-1500:])
        rc_all[pid] = p.returncode
finally:
    if not a.keep:
        shutil.rmtree(d, ignore_errors=True)
    else:
        print('kept', dst)
