#!/bin/sh
# usage: tools/sweep.sh thorough | seeds "1 2 3 7"
# One line per check: id, tier/seed, exit code, number of VIOLATION lines, number of NONDETERMINISTIC lines, the summary line.
mode=${1:-thorough}
ALL="C13 C01 C04 C07 C06 C02 C03 C05 C08 C09 C10 C11 C12 C14 C15 C16 C17 C18 C19 C20"
out=$(mktemp /dev/shm/sweep.XXXXXX)
if [ "$mode" = thorough ]; then
  for p in $ALL; do
    ./check $p --tier thorough > $out 2>&1; rc=$?
    echo "$p thorough rc=$rc viol_lines=$(grep -c '^VIOLATION' $out) nondet=$(grep -ci 'nondetermin' $out) $(grep "^$p tier=" $out | tail -1)"
    grep -E '^VIOLATION|kind=' $out | head -6
  done
else
  for s in $2; do
    for p in $ALL; do
      VERIF_SEED=$s ./check $p --tier quick > $out 2>&1; rc=$?
      echo "$p seed=$s rc=$rc viol_lines=$(grep -c '^VIOLATION' $out) nondet=$(grep -ci 'nondetermin' $out) $(grep "^$p tier=" $out | tail -1)"
      grep -E '^VIOLATION|kind=' $out | head -6
    done
  done
fi
rm -f $out
echo SWEEPDONE
