#!/venv/bin/python
"""Regenerate seeded/INDEX.md from seeded/*/meta.json."""
import json, os, glob
V = os.path.dirname(os.path.dirname(os.path.abspath(__file__)))
rows = []
notes = json.load(open(os.path.join(V, 'seeded', 'NOTES.json'))) if os.path.exists(os.path.join(V, 'seeded', 'NOTES.json')) else {}
fpass = {}
for fn in sorted(glob.glob(os.path.join(V, 'seeded', 'FIRST_PASS_R*.json'))):
    fpass.update(json.load(open(fn))['first_pass'])
for d in sorted(glob.glob(os.path.join(V, 'seeded', '*', 'meta.json'))):
    m = json.load(open(d))
    name = os.path.basename(os.path.dirname(d))
    ran = m.get('what_i_ran', {})
    det = [f"{p} ({c['kinds'] or 'rc=' + str(c['rc'])})" for p, c in ran.get('checks', {}).items() if c.get('detected')]
    miss = [p for p, c in ran.get('checks', {}).items() if not c.get('detected')]
    rows.append((name, m.get('property'), m.get('summary', '').replace('\n', ' '), m.get('needs_to_manifest', '').replace('\n', ' '),
                 '; '.join(det) or '—', ', '.join(miss) or '—', (('first attempt (before any strengthening): ' + ('caught. ' if fpass[name] else 'missed. ')) if name in fpass else '') + notes.get(name, ''),
                 ran.get('baseline_tests_pass'), ran.get('repo_head')))
with open(os.path.join(V, 'seeded', 'INDEX.md'), 'w') as fh:
    fh.write('# Independently produced property-breaking changes\n\n'
             'Each directory holds `patch.diff` (against /repo HEAD at the time), `demo.py` (exits 1 with the change, 0 without) and `meta.json`\n'
             '(the author\'s description plus `what_i_ran`: validation on a scratch copy and the verdict of every check run against it).\n'
             'Authors were sub-agents that saw only the property text and a scratch worktree. None of these changes is ever committed to /repo.\n\n')
    fh.write('| change | property | what was changed | needs to manifest | detected by (violation kinds) | run but silent | strengthened after a first miss |\n|---|---|---|---|---|---|---|\n')
    for r in rows:
        fh.write(f'| {r[0]} | {r[1]} | {r[2][:260]} | {r[3][:260]} | {r[4][:300]} | {r[5]} | {r[6]} |\n')
print(len(rows), 'entries')
