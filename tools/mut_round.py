#!/venv/bin/python
"""Prepare a round of independent property-breaking changes.

usage: tools/mut_round.py ROUND [IDS...]      (e.g. tools/mut_round.py 4 C01 C02)

For every property: creates the scratch worktree /tmp/wt<ROUND>_<ID> of /repo HEAD (with the compiled kernels copied
in), the output directory /tmp/mut<ROUND>_<ID>, and the prompt /tmp/mut<ROUND>_prompt_<ID>.txt.  The prompt contains
ONLY the text of the property (from properties.jsonl) and one-sentence summaries of the changes other authors already
produced for it (their own words, from seeded/*/meta.json) -- nothing about the checks.
"""
import glob, json, os, subprocess, sys

V = os.path.dirname(os.path.dirname(os.path.abspath(__file__)))
rnd = sys.argv[1]
ids = sys.argv[2:]
props = {}
for line in open(os.path.join(V, 'properties.jsonl')):
    d = json.loads(line)
    props[d['id']] = d
ids = ids or sorted(props)

FOCUS = {
    '10': None,
    '9': ('the checker that will judge your change has already met every idea in the list below and varies far more than they name: '
          'dtypes and storage types of every argument, objects used-then-edited-then-used-again, process-wide state, distorted and '
          'oblong-pixel WCS, letter case and white space of every text form, pathlib vs string paths, values beyond 2^52, and it '
          'compares every public spelling of an operation with every other.  A change survives only if it is SUBTLE: prefer '
          '(a) numerical slips that stay below a loose tolerance except in one regime (very elongated shapes, angles near but not at a '
          'quarter turn, radii near half-integers, centres with a large integer part, latitudes near a pole, separations near 180 '
          'degrees), (b) a wrong answer for exactly one CLASS x MODE x FLAG combination out of the many that share a code path, '
          '(c) state that leaks only through a THIRD object (a copy of a copy, a region taken out of a Regions list, the operand of a '
          'compound, a mask of a mask), (d) the second, third or LAST call of a sequence differing from the first, (e) read-side '
          'leniency: an input form that used to be accepted and is now silently read as something else, and (f) anything the property '
          'text promises that none of the used ideas below has ever attacked - re-read the statement clause by clause and find the clause '
          'with the fewest ideas against it'),
    '8': ('the checker that will judge your change is thorough: besides everything in the list of used ideas below it compares files '
          'with serialised text, reads what it writes through every extension, varies units / flags / dtypes / memory layouts / '
          'frames / header encodings / axis orders, uses results before judging them, edits parsed objects and parses again, and looks '
          'at NaN, zero, equal, tiny, huge and boundary values.  Look for what can STILL slip through: a method or property of the '
          'anchored classes that appears in none of the used ideas, an interaction of THREE things (e.g. a flag, a unit and a '
          'history), behaviour that differs between the first and a later element of a list or between a list of one and a list of '
          'several, a documented default that is silently changed, a warning that is no longer issued or an exception of another '
          'class, a result that is right in value but wrong in type / shape / dtype / frame / unit, and the less used of two '
          'equivalent public spellings (method vs operator, keyword vs positional, class method vs instance method)'),
    '7': ('the checker that will judge your change already varies units, include flags (False and 0), zero / equal / tiny / huge / '
          'negative values, narrow integer types, memory layouts, construction by re-assignment, WCS header encodings and axis orders, '
          'region frames, caller-held arguments, call histories and text with unusual characters.  So think about what is LEFT: '
          'public methods and keyword arguments of the anchored classes that the earlier ideas never touched, the second of two code '
          'paths that must agree (a convenience wrapper vs the method it wraps, a method vs the operator that calls it, the Regions '
          'list method vs the single-region method), behaviour at the LIMITS of the quantified domain stated in the property (largest '
          'precision, longest list, deepest nesting, smallest and largest scale), and two-step sequences in which the first step is '
          'itself legal and correct'),
    '6': ('many obvious sites are used up (see the list below), so read the code paths of the anchors line by line and pick slips '
          'that survive a checker which already varies units, include flags (False and 0), zero / equal / tiny / huge values, '
          'construction by re-assignment, header encodings, caller-held arguments and call histories: e.g. a wrong branch taken only '
          'for one CLASS among several that share code, a default that differs between two entry points, an off-by-one at the LAST '
          'element, a rounding or comparison that is right except at an exact boundary, a keyword passed positionally, an early '
          'return that skips a later step, a loop variable reused after the loop, an exception path that leaves partial results'),
    '5': ('look for slips in code that the earlier ideas listed below have NOT touched (helper functions, rarely used keyword arguments, '
          'less common region classes, error and warning paths, the interplay of two classes or two modules), and for slips that show '
          'only for particular VALUES that are legal but easy to forget: zero, negative, equal, empty, one-element, very large or very '
          'small, integer instead of float, another unit, a second call with other arguments, the last element instead of the first'),
    '4': ('prefer slips that show only for an unusual-but-legal VALUE, a COMBINATION of two options or parameters, an ORDER of '
          'elements, or an interaction between two public methods (e.g. what one method leaves behind for another), and slips at a '
          'code site nobody has touched yet (look at the less travelled methods and branches named in the anchors)'),
}

FOCUS['10'] = FOCUS['9']
FOCUS['11'] = FOCUS['9']
FOCUS['12'] = FOCUS['9']


def prop_text(d):
    a = d['anchors']
    mech = '; '.join(f"{m['name']} ({m['where']})" for m in a.get('mechanism', []))
    return (f"{d['id']} — {d['title']}\n\nStatement: {d['statement']}\n\nQuantified over: {d['quantifier']['text']}\n\n"
            f"Why the existing tests cannot settle it: {d['why_tests_cant']}\n\nCode anchors: files {a.get('files')}; mechanisms: {mech}")


for pid in ids:
    wt, out = f'/tmp/wt{rnd}_{pid}', f'/tmp/mut{rnd}_{pid}'
    if not os.path.isdir(wt):
        subprocess.run(['git', '-C', '/repo', 'worktree', 'add', '--detach', '-q', wt, 'HEAD'], check=True)
        for so in glob.glob('/repo/regions/_geometry/*.so'):
            subprocess.run(['cp', so, os.path.join(wt, 'regions', '_geometry')], check=True)
        if os.path.exists('/repo/regions/version.py') and not os.path.exists(os.path.join(wt, 'regions', 'version.py')):
            subprocess.run(['cp', '/repo/regions/version.py', os.path.join(wt, 'regions')], check=True)
    os.makedirs(out, exist_ok=True)
    used = []
    for m in sorted(glob.glob(os.path.join(V, 'seeded', f'{pid}-*', 'meta.json'))):
        s = json.load(open(m)).get('summary', '').replace('\n', ' ')
        if s:
            used.append('- ' + s[:330])
    text = f"""You are a careful adversarial software engineer. The Python library astropy/regions is checked out for you in a private scratch git worktree at {wt} (a worktree of /repo's HEAD; the compiled kernels regions/_geometry/*.so are already copied in; Cython is NOT available so you cannot change compiled code — change Python sources only). Work ONLY inside {wt} and {out}. Do not read or touch /verif, do not touch /repo itself.

Here is a semantic property that the library is supposed to satisfy:

---
{prop_text(props[pid])}
---

Your job: produce TWO independent, realistic changes (mutations) to the library's Python source, each of which BREAKS this property while (a) the package still imports and (b) the repository's existing test suite still passes exactly as before. Make them the kind of slip a maintainer could plausibly commit (an off-by-one, a swapped argument, a condition that is right for the common case only, two sites that each look fine alone, a refactoring that is almost equivalent...), and — importantly — make each one need something SPECIFIC to manifest. Do NOT submit changes that ordinary use would expose at once (e.g. breaking the default path for every input), and do not submit two variants of the same idea: use two different mechanisms / code sites. In this round, {FOCUS.get(rnd, FOCUS['4'])}.

How to check the test suite (must still pass — 1010 tests pass on the unmodified tree, 8 fail/err for unrelated reasons): run
  cd {wt} && /venv/bin/python -m pytest -q -p no:cacheprovider --timeout=900 --continue-on-collection-errors 2>&1 | tail -5
and compare with the unmodified tree (expected: '6 failed, 1010 passed, 15 skipped, 2 errors'). Every shell command prints a harmless conda warning line first.

For each mutation k in {{1, 2}} create the directory {out}/m<k>/ containing:
  - patch.diff : output of `git -C {wt} diff` for that mutation alone (apply each mutation starting from a clean worktree: `git -C {wt} checkout -- .` between them);
  - demo.py : a small self-contained program (run as `/venv/bin/python demo.py` with the current directory being the root of a checkout; put `import os, sys; sys.path.insert(0, os.getcwd())` first so that `import regions` picks up that checkout) that exits with status 0 and prints PASS when the property holds for the scenario it exercises, and exits with status 1 and prints FAIL when it does not. It must exit 1 on the mutated tree and exit 0 on the unmodified tree — verify both yourself (never use `git stash` — the stash is shared between worktrees; save your diff to a file, `git checkout -- .` to get the clean tree, `git apply` the file to get the change back; run it from {wt});
  - meta.json : {{"property": "{pid}", "summary": "...one sentence what was changed...", "needs_to_manifest": "...what specific input/sequence/state is needed...", "files": [...], "tests_pass": true, "demo_fails_with_change": true, "demo_passes_without": true}}.
Write meta.json LAST for each mutation (its presence means the mutation is complete). Leave the worktree clean (`git -C {wt} checkout -- .`) when you finish. Reply with a short summary of the two mutations (files, idea, what it needs to manifest) and confirm the three verifications for each.

Ideas that have ALREADY been used for this property by others — do not repeat them or close variants; find a genuinely different mechanism and code site:
""" + '\n'.join(used) + '\n'
    open(f'/tmp/mut{rnd}_prompt_{pid}.txt', 'w').write(text)
    print(pid, wt, out, len(used), 'used ideas')
