"""known_findings.json matcher (read-only at run time).

An entry suppresses a violation only when *every* field listed under
``match`` equals the corresponding field of the violation (dotted paths into
the violation dict, e.g. ``case.cls``).  Entries name the specific input /
call site that fails, so a different violation of the same property is still
reported.  ``fixed`` entries are documentation only and suppress nothing.
"""
import os
import json

_PATH = os.path.join(os.path.dirname(os.path.dirname(os.path.abspath(__file__))),
                     'known_findings.json')
_cache = None


def load():
    global _cache
    if _cache is None:
        try:
            with open(_PATH) as fh:
                data = json.load(fh)
        except FileNotFoundError:
            data = {'findings': [], 'fixed': []}
        _cache = data
    return _cache


def _get(d, path):
    cur = d
    for part in path.split('.'):
        if isinstance(cur, dict) and part in cur:
            cur = cur[part]
        else:
            return _MISSING
    return cur


_MISSING = object()


def match(violation):
    for f in load().get('findings', []):
        if f.get('property') != violation.get('property'):
            continue
        ok = True
        for path, want in f.get('match', {}).items():
            got = _get(violation, path)
            if got is _MISSING or got != want:
                ok = False
                break
        if ok:
            return f['id']
    return None


def describe(fid):
    for f in load().get('findings', []):
        if f['id'] == fid:
            return f.get('what', fid)
    return fid
