"""C04 -- bounding boxes enclose the region, are minimal, and confine the mask.

Engine E2 (bounded-exhaustive lattice).  For every region configuration of the
lattice the real ``bounding_box`` (and every supported ``to_mask`` mode) is
compared with an independent oracle:

* the true float extent of the shape (``mc.oracles.geometry.Ref.extent``: own
  trig / unit table, rotated-corner min/max, ``sqrt((a cos)^2+(b sin)^2)``,
  vertex min/max) -- or, whenever no trigonometry is involved (circles,
  un-rotated shapes, polygons, lines, points on the dyadic lattice) the *exact*
  rational extent computed here with ``fractions.Fraction``;
* expected box = the smallest integer box whose closed pixel-edge extent
  contains the closed true extent: ``ixmin = floor(xlo + 1/2)``,
  ``ixmax = ceil(xhi + 1/2)`` (exclusive), same for y.

Readings accepted (the statement is silent there, see ``_axis_options``):

* trig involved and ``extreme + 1/2`` within ``1e-9 * max(1, |value|)`` of an
  integer: either neighbouring integer on that side (rounding boundary);
* a *zero-width* extent (point, text, axis-parallel line) lying exactly on a
  pixel edge: the shape touches both neighbouring pixels only along their
  common edge; the empty box ``[n, n)`` (what floor/ceil gives; its closed
  extent still contains the point) and the boxes that include one or both of
  the neighbouring pixels are all accepted;
* for a non-degenerate extent that ends exactly on a pixel edge the statement
  ("smallest such box", "such" = every member point inside the box's closed
  pixel-edge extent) determines the box uniquely, so the expectation is exact;
  the independently restated minimality check (each border row/column is
  reached by the closed true extent) uses the lenient closed-interval reading.
"""
import math
from fractions import Fraction

import numpy as np

from mc.result import Result
from mc import catalog as K
from mc.oracles import geometry as G

ID = 'C04'
LEVEL = 'model_checking'
ENGINE = 'E2-lattice'
FILES = ['regions/core/bounding_box.py', 'regions/shapes/circle.py', 'regions/shapes/ellipse.py',
         'regions/shapes/rectangle.py', 'regions/shapes/polygon.py', 'regions/shapes/line.py',
         'regions/shapes/point.py', 'regions/shapes/text.py', 'regions/shapes/annulus.py',
         'regions/core/compound.py']
RULE = ('full Cartesian product, per class, of size (all width x height pairs for ellipse/rectangle and the outer '
        'sizes of their annuli, all inner<outer radius pairs for the circle annulus, all scales x 7 catalogue '
        'polygons, n in {3,4,5,6,8} x radius for regular polygons, all (dx,dy) pairs for lines) x angle x centre on '
        'a dyadic sub-pixel lattice in [-1,1]^2 plus the far centre (1e6+1/8,-1e6); compounds: moving operand x '
        'fixed operand (overlapping, nested, disjoint, annulus, line, point, nested compound) x {and,or,xor} x both '
        'orders; every configuration is crossed with every mask mode (center, subpixels 1/3/5, exact); a '
        'configuration is non-trivial when at least one of its four extremes lies on a pixel edge or within 1/8 '
        'pixel of one; outcomes are distinguished by class and by the on-edge/near-edge pattern of the four sides')
BOUNDS = {'quick': '4 sizes {1/4,1,2.5,100} (regular polygons {1/4,1,2.5,7.5}), 6 angles {0,30(rad),45,90,0.001,89.999(rad)}, 1/4-pixel lattice 9x9 '
                   'centres + far centre, polygon scales {1/4,1,2.5,7.5}, 5 line deltas, 3x5 compound operands',
          'thorough': '8 sizes {1/4,1/2,1,2,2.5,3,7.5,100}, 10 angles {0,30,45,60,90,135,180,36.87,0.001,89.999} '
                      '(30, 90, 89.999 given in radians; Quantity and Angle), 1/8-pixel lattice 17x17 centres + far '
                      'centre, polygon scales {1/4,1/2,1,2,2.5,3,7.5,25}, 9 line deltas, 6x8 compound operands; '
                      'polygon-kernel masks whose cost area*subpixels^2*nvertices exceeds 5e5 (radius-100 regular '
                      'polygons and scale-25 polygons with subpixels 3/5) are computed only at the centres (0,0), '
                      '(1/2,1/2) and the far centre'}
ASSUMPTIONS = ['numpy elementwise arithmetic, math.floor/ceil and fractions.Fraction are trusted',
               'when trigonometry is involved and an extreme + 1/2 is within 1e-9*max(1,|value|) of an integer '
               'either neighbouring integer is accepted on that side',
               'a zero-width extent exactly on a pixel edge may yield an empty box or include either neighbouring pixel',
               'members closer to the boundary than the oracle guard band are not used for enclosure',
               'compiled overlap kernels are checked as built']

HALF = Fraction(1, 2)
SIDES = ('ixmin', 'ixmax', 'iymin', 'iymax')
FAR = (1e6 + 0.125, -1e6)
FAR_ORIGIN = (1e6, -1e6)
MODES = [('center', 1), ('subpixels', 1), ('subpixels', 3), ('subpixels', 5), ('exact', 1)]
HEAVY = 5e5            # area * subpixels^2 * nvertices above which a polygon mask is "heavy"
HUGE = 2e7             # pixels; no mask is requested for a (wrong) box larger than that


# ------------------------------------------------------------------ lattice --
def _sizes(tier):
    return [0.25, 1.0, 2.5, 100.0] if tier == 'quick' else [0.25, 0.5, 1.0, 2.0, 2.5, 3.0, 7.5, 100.0]


def _angles(tier):
    if tier == 'quick':
        # one angle per quadrant plus the axis-aligned and nearly-aligned ones
        lst = [(0.0, 'deg', 'quantity'), (30.0, 'arcmin', 'quantity'), (123.4, 'deg', 'angle'),
               (90.0, 'deg', 'quantity'), (0.001, 'deg', 'quantity'), (-60.0, 'rad', 'quantity')]
    else:
        lst = [(0.0, 'deg', 'quantity'), (30.0, 'rad', 'quantity'), (45.0, 'deg', 'angle'),
               (60.0, 'deg', 'quantity'), (90.0, 'rad', 'angle'), (135.0, 'deg', 'quantity'),
               (180.0, 'deg', 'quantity'), (36.87, 'deg', 'quantity'), (0.001, 'deg', 'quantity'),
               (89.999, 'rad', 'quantity'), (-60.0, 'deg', 'quantity'), (123.4, 'deg', 'angle'), (300.0, 'rad', 'quantity'),
               (30.0, 'arcmin', 'quantity'), (45.0, 'arcsec', 'angle')]
    return [(d, K.angle_spec(d, u, k)) for (d, u, k) in lst]


def _centres(tier):
    step, n = (0.25, 4) if tier == 'quick' else (0.125, 8)
    out = [(i * step, j * step) for i in range(-n, n + 1) for j in range(-n, n + 1)]
    out.append(FAR)
    return out


ALLMODES = ((0.0, 0.0), (0.5, 0.5), FAR)


def _coarse(c):
    """Centres at which every mask mode is computed even when the polygon kernel makes it heavy."""
    return (float(c[0]), float(c[1])) in ALLMODES


def _regpoly_radii(tier):
    # the polygon mask kernel costs ~0.6 us per sample: radius 100 is left to the thorough tier
    return [0.25, 1.0, 2.5, 7.5] if tier == 'quick' else _sizes(tier)


def _poly_scales(tier):
    return [0.25, 1.0, 2.5, 7.5] if tier == 'quick' else [0.25, 0.5, 1.0, 2.0, 2.5, 3.0, 7.5, 25.0]


def _line_deltas(tier):
    return [0.0, 0.25, -0.5, 2.5, 100.0] if tier == 'quick' else [0.0, 0.25, -0.5, 1.0, -2.0, 2.5, 3.0, -7.5, 100.0]


def _moving(c, tier):
    c = list(c)
    out = [{'cls': 'circle', 'center': c, 'radius': 0.5},
           {'cls': 'rectangle', 'center': c, 'width': 2.0, 'height': 2.5, 'angle': K.angle_spec(45.0), 'adeg': 45.0},
           {'cls': 'rectangle', 'center': c, 'width': 1.0, 'height': 1.0, 'angle': K.angle_spec(0.0), 'adeg': 0.0}]
    if tier != 'quick':
        out += [{'cls': 'circle', 'center': c, 'radius': 2.5},
                {'cls': 'ellipse', 'center': c, 'width': 3.0, 'height': 1.0, 'angle': K.angle_spec(30.0), 'adeg': 30.0},
                K.polygon_spec('triangle', 0.5, c)]
    return out


def _fixed(o, tier):
    def p(dx, dy):
        return [o[0] + dx, o[1] + dy]
    nested = {'cls': 'compound', 'op': 'or',
              'r1': {'cls': 'circle', 'center': p(2.0, 2.0), 'radius': 1.0},
              'r2': {'cls': 'rectangle', 'center': p(-2.0, 1.0), 'width': 1.0, 'height': 3.0,
                     'angle': K.angle_spec(0.0), 'adeg': 0.0}}
    out = [{'cls': 'circle', 'center': p(0.0, 0.0), 'radius': 1.0},
           # operands whose own box is empty along an axis (a point on a pixel edge, an axis-parallel line on a pixel edge)
           {'cls': 'point', 'center': p(6.5, -3.0)},
           {'cls': 'line', 'start': p(-5.0, 4.5), 'end': p(-2.25, 4.5)},
           {'cls': 'rectangle', 'center': p(0.5, 0.25), 'width': 2.0, 'height': 1.0, 'angle': K.angle_spec(0.0), 'adeg': 0.0},
           {'cls': 'ellipse', 'center': p(5.125, -4.75), 'width': 2.0, 'height': 1.0, 'angle': K.angle_spec(60.0), 'adeg': 60.0},
           {'cls': 'line', 'start': p(-1.5, -2.0), 'end': p(4.0, 0.5)},
           nested]
    if tier != 'quick':
        out += [K.polygon_spec('square', 1.0, p(-3.5, -3.5)),
                {'cls': 'circleannulus', 'center': p(0.25, 0.0), 'inner_radius': 1.0, 'outer_radius': 3.0},
                {'cls': 'point', 'center': p(7.5, 7.5)}]
    return out


def family_configs(fam, centres, tier):
    """Yield (spec, all_modes) for one family on the given centres (full product)."""
    S = _sizes(tier)
    A = _angles(tier)
    for c in centres:
        c = [float(c[0]), float(c[1])]
        allm = _coarse(c)
        if fam in ('ellipse', 'rectangle'):
            for w in S:
                for h in S:
                    for (d, a) in A:
                        yield {'cls': fam, 'center': c, 'width': w, 'height': h, 'angle': a, 'adeg': d}, allm
        elif fam in ('ellipseannulus', 'rectangleannulus'):
            for w in S:
                for h in S:
                    for (d, a) in A:
                        yield {'cls': fam, 'center': c, 'inner_width': 0.5 * w, 'inner_height': 0.75 * h,
                               'outer_width': w, 'outer_height': h, 'angle': a, 'adeg': d}, allm
        elif fam == 'regpoly':
            for n in (3, 4, 5, 6, 8):
                for r in _regpoly_radii(tier):
                    for (d, a) in A:
                        yield {'cls': 'regpoly', 'center': c, 'n': n, 'radius': r, 'angle': a, 'adeg': d}, allm
        elif fam == 'small':
            # integral sizes given as narrow numpy integers (squares of them do not fit the type)
            for dt, (w, h) in (('int16', (200, 300)), ('uint8', (20, 16)), ('int8', (12, 100)), ('uint16', (300, 260)), ('int64', (7, 3))):
                for (d, a) in A[:3]:
                    yield {'cls': 'ellipse', 'center': c, 'width': w, 'height': h, 'angle': a, 'adeg': d, 'size_dtype': dt}, allm
                    yield {'cls': 'rectangle', 'center': c, 'width': w, 'height': h, 'angle': a, 'adeg': d, 'size_dtype': dt}, allm
                    yield {'cls': 'ellipseannulus', 'center': c, 'inner_width': w // 2, 'inner_height': h // 2, 'outer_width': w,
                           'outer_height': h, 'angle': a, 'adeg': d, 'size_dtype': dt}, allm
                yield {'cls': 'circle', 'center': c, 'radius': w, 'size_dtype': dt}, allm
                yield {'cls': 'circleannulus', 'center': c, 'inner_radius': h // 2, 'outer_radius': max(w, h), 'size_dtype': dt}, allm
                # ... and an integer-typed centre next to the typed sizes
                ci = [int(round(c[0])), int(round(c[1]))]
                yield {'cls': 'circle', 'center': ci, 'radius': w, 'size_dtype': dt}, allm
                yield {'cls': 'circleannulus', 'center': ci, 'inner_radius': h // 2, 'outer_radius': max(w, h), 'size_dtype': dt}, allm
                yield {'cls': 'ellipse', 'center': ci, 'width': w, 'height': h, 'angle': A[1][1], 'adeg': A[1][0], 'size_dtype': dt}, allm
                yield {'cls': 'rectangle', 'center': ci, 'width': w, 'height': h, 'angle': A[1][1], 'adeg': A[1][0], 'size_dtype': dt}, allm
            # polygons whose integral vertices arrive in a numpy integer type and reach the ends of its range
            if c == [float(centres[0][0]), float(centres[0][1])]:
                for dt in ('uint8', 'int8', 'int16', 'uint16', 'int32', 'int64'):
                    info = np.iinfo(getattr(np, dt))
                    lo, hi = int(info.min), int(info.max)
                    boxes = [(hi - 5, hi, hi - 3, hi), (lo, lo + 4, lo, lo + 6), (lo, hi, hi - 2, hi) if hi < 2 ** 20 else (hi - 9, hi, lo, lo + 2),
                             (3, 9, 2, 7)]
                    if dt == 'int64':
                        boxes = boxes[3:]       # the ends of the int64 range are not representable pixel positions
                    for (x0, x1, y0, y1) in boxes:
                        yield {'cls': 'polygon', 'vertices': [[x0, x1, x1, x0], [y0, y0, y1, y1]], 'vertex_dtype': dt, 'name': 'int_box'}, allm
                        yield {'cls': 'polygon', 'vertices': [[x0, x1, x0], [y0, y1, y1]], 'vertex_dtype': dt, 'name': 'int_triangle'}, allm
            # nearly circular ellipses: the axes differ by a few 1e-6 relative and a pixel edge lies between the two half-axes
            for (w, h) in ((20.99998, 21.00002), (21.00002, 20.99998), (5.000004, 4.999996), (21.0, 21.0)):
                for (d, a) in A[:3]:
                    yield {'cls': 'ellipse', 'center': c, 'width': w, 'height': h, 'angle': a, 'adeg': d}, allm
                    yield {'cls': 'ellipseannulus', 'center': c, 'inner_width': w / 2, 'inner_height': h / 2, 'outer_width': w, 'outer_height': h,
                           'angle': a, 'adeg': d}, allm
            for r in S:
                yield {'cls': 'circle', 'center': c, 'radius': r}, allm
            for ri in S:
                for ro in S:
                    if ri < ro:
                        yield {'cls': 'circleannulus', 'center': c, 'inner_radius': ri, 'outer_radius': ro}, allm
            yield {'cls': 'point', 'center': c}, allm
            yield {'cls': 'text', 'center': c, 'text': 'a label'}, allm
            for name in K.POLYS:
                for s in _poly_scales(tier):
                    sp = K.polygon_spec(name, s, c)
                    sp['scale'] = s
                    yield sp, allm
            # rings whose first and last vertices share one coordinate while the last vertex alone reaches the
            # extreme of the other one (a "closed ring" test that compares one coordinate only drops it)
            for name, (xs, ys) in LAST_EXTREME.items():
                for s in _poly_scales(tier):
                    yield {'cls': 'polygon', 'name': name, 'scale': s,
                           'vertices': [[c[0] + s * v for v in xs], [c[1] + s * v for v in ys]]}, allm
            D = _line_deltas(tier)
            for dx in D:
                for dy in D:
                    yield {'cls': 'line', 'start': c, 'end': [c[0] + dx, c[1] + dy]}, allm
        elif fam == 'compound':
            o = FAR_ORIGIN if tuple(c) == FAR else (0.0, 0.0)
            for r1 in _moving(c, tier):
                for r2 in _fixed(o, tier):
                    for op in ('and', 'or', 'xor'):
                        yield {'cls': 'compound', 'op': op, 'r1': r1, 'r2': r2}, allm
                        yield {'cls': 'compound', 'op': op, 'r1': r2, 'r2': r1}, allm
                        if r2['cls'] != 'compound' and op == 'and':
                            # an operand marked as excluded (include=False): "r1 and not r2" is bounded, and the compound's box
                            # is still the union of the operand boxes (with 'or' the region would be unbounded: no box)
                            yield {'cls': 'compound', 'op': op, 'r1': r1, 'r2': dict(r2, include=False)}, allm
                            yield {'cls': 'compound', 'op': op, 'r1': dict(r2, include=False), 'r2': r1}, allm
        else:
            raise ValueError(fam)


LAST_EXTREME = {
    'last_top': ([0, 3, 2, 0], [0, 1, 3, 5]),
    'last_right': ([0, 1, 3, 5], [0, 3, 2, 0]),
    'last_bottom': ([0, 3, 2, 0, 0], [0, -1, -3, -2, -5]),
    'last_left': ([0, 1, 3, 1, -5], [0, 3, 2, 1, 0]),
}

FAMILIES = ['small', 'compound', 'regpoly', 'ellipse', 'rectangle', 'ellipseannulus', 'rectangleannulus']


def shards(tier, seed):
    # VERIF_SEED selects nothing: the space is enumerated completely
    C = _centres(tier)
    group = {'quick': {'small': 6, 'compound': 6, 'regpoly': 6},
             'thorough': {'small': 8, 'compound': 10, 'regpoly': 4}}[tier]
    out = []
    for fam in FAMILIES:
        g = group.get(fam, 6)
        # interleave so that each shard gets centres from all over the lattice (the far centre included once)
        n = max(1, math.ceil(len(C) / g))
        for k in range(n):
            part = C[k::n]
            if part:
                out.append({'fam': fam, 'centres': [list(c) for c in part]})
    return out


# ------------------------------------------------------------------- oracle --
def exact_extent(spec):
    """Exact rational extent (xlo, xhi, ylo, yhi) when no trigonometry is involved, else None."""
    F = Fraction
    c = spec['cls']
    if c in ('point', 'text'):
        x, y = F(spec['center'][0]), F(spec['center'][1])
        return (x, x, y, y)
    if c == 'line':
        x0, y0, x1, y1 = F(spec['start'][0]), F(spec['start'][1]), F(spec['end'][0]), F(spec['end'][1])
        return (min(x0, x1), max(x0, x1), min(y0, y1), max(y0, y1))
    if c == 'polygon':
        xs = [F(float(v)) for v in spec['vertices'][0]]
        ys = [F(float(v)) for v in spec['vertices'][1]]
        return (min(xs), max(xs), min(ys), max(ys))
    if c in ('circle', 'circleannulus'):
        r = F(spec['radius'] if c == 'circle' else spec['outer_radius'])
        x, y = F(spec['center'][0]), F(spec['center'][1])
        return (x - r, x + r, y - r, y + r)
    if c in ('ellipse', 'rectangle', 'ellipseannulus', 'rectangleannulus') and G.rad(spec.get('angle')) == 0.0:
        w = F(spec['width'] if 'width' in spec else spec['outer_width'])
        h = F(spec['height'] if 'height' in spec else spec['outer_height'])
        x, y = F(spec['center'][0]), F(spec['center'][1])
        return (x - w / 2, x + w / 2, y - h / 2, y + h / 2)
    return None


def _tol(v):
    return 1e-9 * max(1.0, abs(float(v)))


def _axis_options(lo, hi, exact):
    """Acceptable values of (imin, imax) for one axis -> (set, set)."""
    if exact:
        a = math.floor(lo + HALF)
        b = math.ceil(hi + HALF)
        if lo == hi and (lo + HALF).denominator == 1:
            # zero-width extent exactly on the edge between pixels a-1 and a (floor/ceil give the empty
            # box [a, a)); including either neighbour is an equally reasonable reading of "touches"
            return {a - 1, a}, {b, b + 1}
        return {a}, {b}
    v = lo + 0.5
    n = round(v)
    los = {n - 1, n} if abs(v - n) <= _tol(v) else {math.floor(v)}
    v = hi + 0.5
    n = round(v)
    his = {n, n + 1} if abs(v - n) <= _tol(v) else {math.ceil(v)}
    return los, his


class Expect:
    """Oracle view of one spec: acceptable box sides, extent, exactness."""

    def __init__(self, spec):
        self.spec = spec
        c = spec['cls']
        if c == 'compound':
            self.e1, self.e2 = Expect(spec['r1']), Expect(spec['r2'])
            a, b = self.e1, self.e2
            self.exact = a.exact and b.exact
            self.trig = not self.exact
            self.ext = (min(a.ext[0], b.ext[0]), max(a.ext[1], b.ext[1]), min(a.ext[2], b.ext[2]), max(a.ext[3], b.ext[3]))
            # union with own min/max over every acceptable operand box
            self.acc = []
            for k in range(4):
                f = min if k in (0, 2) else max
                self.acc.append({f(u, v) for u in a.acc[k] for v in b.acc[k]})
            return
        ref = G.Ref(spec)
        fext, trig = ref.extent()
        ex = exact_extent(spec)
        if ex is not None:
            # harness self-check: the two independent extent computations agree exactly
            if trig or tuple(float(v) for v in ex) != tuple(float(v) for v in fext):
                raise AssertionError(f'oracle disagreement on {spec}: {ex} vs {fext} trig={trig}')
            self.exact, self.ext = True, ex
        else:
            if not trig:
                raise AssertionError(f'no exact extent for a trig-free spec {spec}')
            self.exact, self.ext = False, tuple(float(v) for v in fext)
        self.trig = not self.exact
        xl, xh = _axis_options(self.ext[0], self.ext[1], self.exact)
        yl, yh = _axis_options(self.ext[2], self.ext[3], self.exact)
        self.acc = [xl, xh, yl, yh]

    def pattern(self):
        """Per side: 'E' extreme on a pixel edge (exactly, or within the rounding allowance when trig is
        involved), 'n' within 1/8 pixel of one, '.' otherwise."""
        out = ''
        for v in self.ext:
            if isinstance(v, Fraction):
                w = v + HALF
                d = abs(w - round(w))
                out += 'E' if d == 0 else ('n' if d <= Fraction(1, 8) else '.')
            else:
                w = v + 0.5
                d = abs(w - round(w))
                out += 'E' if d <= _tol(w) else ('n' if d <= 0.125 else '.')
        return out


# ------------------------------------------------------------------- checks --
def _box_tuple(bb):
    return (bb.ixmin, bb.ixmax, bb.iymin, bb.iymax)


def _get_box(res, case, reg, what):
    """Read ``bounding_box`` of a real region; a failure is a violation. -> tuple of ints or None, bbox."""
    from regions import RegionBoundingBox
    res.transitions += 1
    try:
        bb = reg.bounding_box
    except Exception as exc:
        res.violation(ID, 'unexpected_exception', case, f'{what}.bounding_box raised {type(exc).__name__}: {exc}')
        return None, None
    if not isinstance(bb, RegionBoundingBox):
        res.violation(ID, 'bbox_type', case, f'{what}.bounding_box is a {type(bb).__name__}', 'RegionBoundingBox', type(bb).__name__)
        return None, None
    t = _box_tuple(bb)
    if not all(isinstance(v, (int, np.integer)) and not isinstance(v, bool) for v in t):
        res.violation(ID, 'bbox_type', case, f'{what}.bounding_box has non-integer fields {t!r}', 'ints', repr(t))
        return None, None
    return tuple(int(v) for v in t), bb


def _outer_spec(spec):
    c = spec['cls']
    if c == 'circleannulus':
        return {'cls': 'circle', 'center': spec['center'], 'radius': spec['outer_radius']}
    s = {'cls': 'ellipse' if c == 'ellipseannulus' else 'rectangle', 'center': spec['center'],
         'width': spec['outer_width'], 'height': spec['outer_height']}
    if 'angle' in spec:
        s['angle'] = spec['angle']
    return s


def _defining_points(spec):
    """Points that belong to a point/text/line region by definition (they have no interior)."""
    if spec['cls'] == 'line':
        (x0, y0), (x1, y1) = spec['start'], spec['end']
        # end points are exact; interior points are convex combinations (inside the end points' box
        # up to rounding, which min/max clamp removes)
        xs, ys = [x0, x1], [y0, y1]
        for t in (0.25, 0.5, 0.75):
            xs.append(min(max(x0 + t * (x1 - x0), min(x0, x1)), max(x0, x1)))
            ys.append(min(max(y0 + t * (y1 - y0), min(y0, y1)), max(y0, y1)))
        return np.array(xs, float), np.array(ys, float)
    return np.array([spec['center'][0]], float), np.array([spec['center'][1]], float)


def _nvert(spec):
    c = spec['cls']
    if c == 'polygon':
        return len(spec['vertices'][0])
    if c == 'regpoly':
        return int(spec['n'])
    if c == 'compound':
        return max(_nvert(spec['r1']), _nvert(spec['r2']))
    return 0


def _ring_lost(ref, got, outer, n):
    """Reference members among the n x n sub-sample centres of the pixels of ``outer`` that lie outside the
    reported box ``got`` -> (count, first offending (ix, iy, x, y)) ."""
    oxmin, oxmax, oymin, oymax = outer
    ix = np.arange(oxmin, oxmax)
    iy = np.arange(oymin, oymax)
    inx = (ix >= got[0]) & (ix < got[1])
    iny = (iy >= got[2]) & (iy < got[3])
    outside = ~(iny[:, None] & inx[None, :])
    if not outside.any():
        return 0, None
    jj, ii = np.nonzero(outside)
    px = ix[ii].astype(float)
    py = iy[jj].astype(float)
    off = (np.arange(n) + 0.5) / n - 0.5
    X = (px[:, None, None] + off[None, None, :])
    Y = (py[:, None, None] + off[None, :, None])
    X, Y = np.broadcast_arrays(X, Y)
    ins, sure = ref.member(X.ravel(), Y.ravel())
    bad = (ins & sure).reshape(X.shape)
    if not bad.any():
        return 0, None
    k = np.argwhere(bad)[0]
    return int(bad.sum()), (int(px[k[0]]), int(py[k[0]]), float(X[tuple(k)]), float(Y[tuple(k)]))


def check_config(res, spec, all_modes=True):
    case = {'spec': spec, 'all_modes': bool(all_modes)}
    cls = spec['cls']
    res.states += 1
    res.evaluations += 1
    exp = Expect(spec)
    ref = G.Ref(spec)
    pat = exp.pattern()
    if 'E' in pat or 'n' in pat:
        res.nontriv(('cfg', spec))
    res.axis('cls', cls if cls != 'compound' else 'compound/' + spec['op'])
    if 'angle' in spec:
        res.axis('angle', f"{spec.get('adeg')}/{spec['angle'][1]}/{spec['angle'][2]}")
    for key in ('radius', 'outer_radius', 'width', 'outer_width', 'scale'):
        if key in spec:
            res.axis('size', spec[key])
    for key in ('height', 'outer_height'):
        if key in spec:
            res.axis('size_height', spec[key])
    if res.states <= 2:
        res.sample({'spec': spec, 'extent': [float(v) for v in exp.ext], 'acceptable': [sorted(s) for s in exp.acc]})

    try:
        reg = G.build_routed(spec)       # every 4th spec (by hash) is reached by re-assignment
    except Exception as exc:
        res.violation(ID, 'build_failed', case, f'could not construct region: {type(exc).__name__}: {exc}')
        return
    got, bb = _get_box(res, case, reg, cls)
    if got is None:
        res.outcome((cls, pat, 'nobox'))
        return
    ok = True

    # (1) the box equals the oracle's box (with the documented allowances)
    bad = [SIDES[k] for k in range(4) if got[k] not in exp.acc[k]]
    if bad:
        ok = False
        res.violation(ID, 'bbox_wrong', case,
                      f'{cls}: bounding_box {got} differs from the smallest enclosing box on {bad}; true extent '
                      f'{[float(v) for v in exp.ext]} (exact={exp.exact}), acceptable per side {[sorted(s) for s in exp.acc]}',
                      [sorted(s) for s in exp.acc], list(got))

    # (2) independent restatement: closed true extent inside the closed pixel-edge extent, and (simple shapes and
    #     annuli) each border row/column reached by the closed true extent.  Tolerance only when trig is involved.
    ext = exp.ext
    for (lo, hi, imin, imax, ax) in ((ext[0], ext[1], got[0], got[1], 'x'), (ext[2], ext[3], got[2], got[3], 'y')):
        if exp.exact:
            tl = th = 0
            emin, emax = Fraction(imin) - HALF, Fraction(imax) - HALF
        else:
            tl, th = _tol(lo + 0.5), _tol(hi + 0.5)
            emin, emax = imin - 0.5, imax - 0.5
        if lo < emin - tl or hi > emax + th:
            ok = False
            res.violation(ID, 'extent_not_enclosed', case,
                          f'{cls}: true {ax}-extent [{float(lo)!r}, {float(hi)!r}] is not inside the box edges '
                          f'[{float(emin)}, {float(emax)}] (box {got})', [float(lo), float(hi)], [float(emin), float(emax)])
        if cls != 'compound' and imax > imin:
            # first column spans [emin, emin+1], last column [emax-1, emax]
            if lo > emin + 1 + tl or hi < emin - tl:
                ok = False
                res.violation(ID, 'not_minimal', case,
                              f'{cls}: first {ax} border (pixel {imin}, span [{float(emin)}, {float(emin) + 1}]) is not reached by the '
                              f'true extent [{float(lo)!r}, {float(hi)!r}] (box {got})', [float(lo), float(hi)], list(got))
            if hi < emax - 1 - th or lo > emax + th:
                ok = False
                res.violation(ID, 'not_minimal', case,
                              f'{cls}: last {ax} border (pixel {imax - 1}, span [{float(emax) - 1}, {float(emax)}]) is not reached by the '
                              f'true extent [{float(lo)!r}, {float(hi)!r}] (box {got})', [float(lo), float(hi)], list(got))

    # (3) enclosure of sure reference members in the closed pixel-edge extent reported by the box itself
    res.transitions += 1
    e = bb.extent
    mine = (got[0] - 0.5, got[1] - 0.5, got[2] - 0.5, got[3] - 0.5)
    if tuple(float(v) for v in e) != mine:
        ok = False
        res.violation(ID, 'extent_property_wrong', case, f'bounding_box.extent {tuple(e)} is not the pixel-edge extent {mine} of {got}',
                      list(mine), [float(v) for v in e])
    if cls in G.EMPTY:
        mx, my = _defining_points(spec)
    else:
        qx, qy = G.shape_frame_queries(spec)
        ins, sure = ref.member(qx, qy)
        sel = ins & sure
        mx, my = qx[sel], qy[sel]
    out = (mx < e[0]) | (mx > e[1]) | (my < e[2]) | (my > e[3])
    if out.any():
        ok = False
        k = int(np.flatnonzero(out)[0])
        res.violation(ID, 'member_outside_box', case,
                      f'{cls}: {int(out.sum())} of {mx.size} reference member points lie outside the box extent {tuple(e)} '
                      f'(first ({float(mx[k])!r}, {float(my[k])!r}); box {got})', 'inside', [float(mx[k]), float(my[k])])

    # (5) annulus box == box of its outer shape (a real simple region)
    if cls in G.ANNULI:
        og, _ = _get_box(res, case, G.build(_outer_spec(spec)), 'outer ' + _outer_spec(spec)['cls'])
        if og is not None and og != got:
            ok = False
            res.violation(ID, 'annulus_box_not_outer', case, f'{cls}: box {got} differs from the box {og} of its outer shape',
                          list(og), list(got))

    # (6) compound box == union (own min/max) of the operands' reported boxes
    if cls == 'compound':
        g1, _ = _get_box(res, case, reg.region1, 'region1')
        g2, _ = _get_box(res, case, reg.region2, 'region2')
        if g1 is not None and g2 is not None:
            un = (min(g1[0], g2[0]), max(g1[1], g2[1]), min(g1[2], g2[2]), max(g1[3], g2[3]))
            if un != got:
                ok = False
                res.violation(ID, 'compound_not_union', case,
                              f'compound box {got} is not the union {un} of its operand boxes {g1} and {g2}', list(un), list(got))

    # (4) masks: shape, carried box, no reference weight outside the box
    area = (got[1] - got[0]) * (got[3] - got[2])
    done_n = set()
    if area > HUGE:
        res.outcome((cls, 'mask_skipped_huge_box'))
    else:
        nv = _nvert(spec)
        for (mode, n) in MODES:
            if nv and not all_modes and area * n * n * nv > HEAVY:
                res.outcome(('mask', cls, mode, n, 'heavy_only_on_sublattice'))
                continue
            try:
                mask = reg.to_mask(mode=mode, subpixels=n)
            except NotImplementedError:
                res.outcome(('mask', cls, mode, n, 'not_implemented'))
                continue
            except Exception as exc:
                ok = False
                res.violation(ID, 'unexpected_exception', dict(case, mode=[mode, n]),
                              f'{cls}.to_mask(mode={mode!r}, subpixels={n}) raised {type(exc).__name__}: {exc}')
                continue
            res.transitions += 1
            res.outcome(('mask', cls, mode, n, 'ok'))
            done_n.add(5 if mode == 'exact' else n)
            shape = tuple(int(v) for v in mask.data.shape)
            if shape != tuple(bb.shape) or shape != (got[3] - got[2], got[1] - got[0]):
                ok = False
                res.violation(ID, 'mask_shape_mismatch', dict(case, mode=[mode, n]),
                              f'{cls} mode={mode}/{n}: mask.data.shape {shape} != bounding_box.shape {tuple(bb.shape)} (box {got})',
                              [got[3] - got[2], got[1] - got[0]], list(shape))
            try:
                same = (mask.bbox == bb) and (_box_tuple(mask.bbox) == got)
                mb = _box_tuple(mask.bbox)
            except TypeError as exc:
                same, mb = False, f'{type(mask.bbox).__name__} ({exc})'
            if not same:
                ok = False
                res.violation(ID, 'mask_bbox_differs', dict(case, mode=[mode, n]),
                              f'{cls} mode={mode}/{n}: mask.bbox {mb} != region.bounding_box {got}', list(got), repr(mb))
        # (7) a carried box is a value: using it as the operand of a union / intersection leaves it, the mask and the
        #     region's own box as they were
        if done_n:
            from regions import RegionBoundingBox
            other = RegionBoundingBox(got[0] - 3, got[1] + 2, got[2] - 1, got[3] + 4)
            inner = RegionBoundingBox(got[0], got[0] + 1, got[2], got[2] + 1)
            try:
                u1 = mask.bbox | other
                u2 = mask.bbox.union(inner)
                i1 = mask.bbox & inner
                i2 = bb.intersection(other)
                u3 = bb | other
                after = (_box_tuple(mask.bbox), _box_tuple(bb), _box_tuple(reg.bounding_box), _box_tuple(other), _box_tuple(inner))
                results = (_box_tuple(u1), _box_tuple(u2), _box_tuple(i1), _box_tuple(i2), _box_tuple(u3))
            except Exception as exc:
                ok = False
                res.violation(ID, 'unexpected_exception', case, f'{cls}: union / intersection of the mask box raised {type(exc).__name__}: {exc}')
            else:
                res.transitions += 5
                ot, it = (got[0] - 3, got[1] + 2, got[2] - 1, got[3] + 4), (got[0], got[0] + 1, got[2], got[2] + 1)
                if after != (got, got, got, ot, it):
                    ok = False
                    res.violation(ID, 'box_changed_by_use', case,
                                  f'{cls}: after mask.bbox | other, mask.bbox.union(inner), mask.bbox & inner, box.intersection(other), '
                                  f'box | other the boxes (mask.bbox, box, region.bounding_box, other, inner) are {after}, expected '
                                  f'{(got, got, got, ot, it)}', [list(got), list(ot), list(it)], [list(a) for a in after])
                elif results != (ot, got, it, got, ot):
                    ok = False
                    res.violation(ID, 'box_algebra_wrong', case,
                                  f'{cls}: unions / intersections of the box {got} with {ot} and {it} gave {results}',
                                  [list(ot), list(got), list(it), list(got), list(ot)], [list(r) for r in results])
                if tuple(int(v) for v in mask.data.shape) != (got[3] - got[2], got[1] - got[0]):
                    ok = False
                    res.violation(ID, 'mask_shape_mismatch', case, f'{cls}: mask.data.shape no longer matches its box after the box was used')
        # reference membership on the oracle's box padded by 2 pixels: no sure member sample may fall in a
        # pixel outside the reported box (sub-sample grids of the modes that exist; 5x5 stands in for 'exact')
        if done_n:
            outer = (min(exp.acc[0]) - 2, max(exp.acc[1]) + 2, min(exp.acc[2]) - 2, max(exp.acc[3]) + 2)
            if (outer[1] - outer[0]) * (outer[3] - outer[2]) <= HUGE:
                for n in sorted(done_n):
                    cnt, first = _ring_lost(ref, got, outer, n)
                    if cnt:
                        ok = False
                        res.violation(ID, 'mask_weight_lost', dict(case, subpixels=n),
                                      f'{cls}: {cnt} reference-member sample(s) of the {n}x{n} sub-pixel grid lie in pixels outside the '
                                      f'box {got} (first: pixel ({first[0]}, {first[1]}) at ({first[2]!r}, {first[3]!r}))',
                                      0, cnt)
    res.outcome((cls, pat, 'ok' if ok else 'bad'))


# ------------------------------------------------------------------- driver --
def run_shard(shard, tier, seed):
    res = Result()
    for spec, allm in family_configs(shard['fam'], shard['centres'], tier):
        check_config(res, spec, allm)
    return res


def replay(case):
    res = Result()
    check_config(res, case['spec'], case.get('all_modes', True))
    return res
