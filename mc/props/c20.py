"""C20 -- pixel coordinates behave as broadcast (x, y) arrays under every operation.

Engine E2 (bounded-exhaustive lattice).  Reference model: x and y are nested
Python lists broadcast by the driver's own implementation of the numpy
broadcasting rule (no numpy involved in predicting held values/shapes);
arithmetic, separation and rotation are computed element by element with
Python floats / Fractions / math.cos/sin.  Indexing is, by the statement's
own definition ("doing the same on the x and y arrays"), compared with numpy
indexing applied to arrays built from the reference nested lists.  The sky
conversion is compared with astropy.wcs called directly on the reference
values (astropy is not the code under test) and with the round trip.
"""
import copy as _copy
import math
import warnings
from fractions import Fraction

import numpy as np

from mc.result import Result

ID = 'C20'
LEVEL = 'model_checking'
ENGINE = 'E2-lattice'
FILES = ['regions/core/pixcoord.py']
RULE = ('full product of the 8x8 (x-shape, y-shape) pairs (broadcastable or not) x input kinds '
        '(float64/int64 arrays, nested lists, Python/numpy scalars, mixed int/float); every configuration is '
        'crossed with the whole index catalogue, iteration/len, all 8 partner shapes for + - separation, '
        'centres x angle representations (single rotations) and all ordered angle pairs (composition), '
        'copy/deepcopy/==, and WCS family x origin x mode; a case is non-trivial when broadcasting changes a '
        'shape (or is impossible), an index selects a strict non-empty subset or raises, a binary operation '
        'broadcasts two different shapes, a rotation by a non-multiple of 360 deg acts on a non-empty '
        'coordinate, or a sky round trip acts on a non-empty coordinate')
BOUNDS = {
    'quick': '64 shape pairs x {float64, int64}; 47 index expressions; 8 partner shapes; 2 centres x 3 angles '
             'x 2 representations, all 36 ordered pairs; 3 linear WCS + 1 SIP x origin {0,1} x mode {all,wcs}',
    'thorough': '64 shape pairs x 6 input kinds; 47 index expressions; 8 partner shapes x 2 dtypes; 3 centres '
                'x 6 angles x 4 representations, all 144 ordered pairs of 12 angle representations; 72 linear '
                'WCS (3 proj x 3 rot x 2 scale x 2 frames x 2 crval) + 2 SIP x origin {0,1} x mode {all,wcs}',
}
ASSUMPTIONS = ['numpy indexing of the reference x/y arrays defines the expected result of indexing (as the '
               'statement does)', 'astropy.wcs pixel<->world transformations are trusted as the reference for '
               'to_sky', 'coordinate values are distinct dyadic rationals of magnitude < 300',
               'for SIP WCS with mode="all" the round trip is only required to 1e-3 pixel (astropy inverts the '
               'distortion iteratively with a fixed default tolerance of 1e-4 pixel)']

SHAPES = [(), (0,), (1,), (3,), (2, 3), (2, 1, 3), (1, 3), (3, 1)]
# kind -> (x is int, y is int)
# i8big: int64 values beyond 2^53 (exact in int64, not in float64); used for construction, indexing, arithmetic and copies
KIND_INT = {'f8': (False, False), 'i8': (True, True), 'list': (False, False), 'listint': (True, True),
            'mixed': (True, False), 'npscalar': (False, True), 'i8big': (True, True)}
KINDS_QUICK = ['f8', 'i8', 'i8big', 'mixed']
KINDS_ALL = ['f8', 'i8', 'list', 'listint', 'mixed', 'npscalar', 'i8big']
BIG = 2 ** 53
CENTRES = [[0, 0], [1.5, -2.0], [-7.25, 300.0]]
# 180 / -540 deg: exact half turns (sin evaluates to ~1e-16, the rotation is the point reflection about the centre)
BASE_ANGLES = [(0.0, 'deg'), (30.0, 'deg'), (90.0, 'deg'), (-123.4, 'deg'), (725.0, 'deg'), (1.0, 'rad'), (180.0, 'deg'), (-540.0, 'deg')]


# ------------------------------------------------- numpy-free reference model --
def _size(shape):
    n = 1
    for s in shape:
        n *= s
    return n


def nest(flat, shape):
    """Nested lists of the given shape from a flat C-ordered list (scalar for shape ())."""
    if shape == ():
        return flat[0]
    if len(shape) == 1:
        return list(flat[:shape[0]])
    step = _size(shape[1:])
    return [nest(flat[i * step:(i + 1) * step], shape[1:]) for i in range(shape[0])]


def flat(n):
    if isinstance(n, list):
        out = []
        for c in n:
            out.extend(flat(c))
        return out
    return [n]


def bshape(s1, s2):
    """numpy broadcasting rule on two shapes; None when they do not broadcast."""
    n = max(len(s1), len(s2))
    a = (1,) * (n - len(s1)) + tuple(s1)
    b = (1,) * (n - len(s2)) + tuple(s2)
    out = []
    for p, q in zip(a, b):
        if p == q:
            out.append(p)
        elif p == 1:
            out.append(q)
        elif q == 1:
            out.append(p)
        else:
            return None
    return tuple(out)


def bcast(node, s_from, s_to):
    """Broadcast nested lists of shape s_from to shape s_to."""
    extra = len(s_to) - len(s_from)
    pad = (1,) * extra + tuple(s_from)
    for _ in range(extra):
        node = [node]

    def rec(nd, d):
        if d == len(s_to):
            return nd
        if pad[d] == s_to[d]:
            return [rec(c, d + 1) for c in nd]
        return [rec(nd[0], d + 1) for _ in range(s_to[d])]      # pad[d] == 1
    return rec(node, 0)


def _vals(shape, which, isint, base=0):
    n = _size(shape)
    if base == 0:
        if which == 'x':
            return [21 + 7 * k for k in range(n)] if isint else [21.125 + 7.25 * k for k in range(n)]
        return [-31 + 11 * k for k in range(n)] if isint else [-31.5 + 11.0625 * k for k in range(n)]
    if which == 'x':
        return [100 + 16 * k for k in range(n)] if isint else [100.25 + 16.0 * k for k in range(n)]
    return [-200 + 32 * k for k in range(n)] if isint else [-200.5 + 32.0 * k for k in range(n)]


def _shift(nested, d):
    if isinstance(nested, list):
        return [_shift(v, d) for v in nested]
    return nested + d


def _arr(nested, shape, isint):
    return np.array(flat(nested) if shape != () else [nested],
                    dtype=np.int64 if isint else np.float64).reshape(shape)


class Ctx:
    """One configuration: (x-shape, y-shape, input kind) and its reference."""

    def __init__(self, cfg):
        self.sx, self.sy, self.kind = tuple(cfg['sx']), tuple(cfg['sy']), cfg['kind']
        self.ix, self.iy = KIND_INT[self.kind]
        self.xn = nest(_vals(self.sx, 'x', self.ix), self.sx) if _size(self.sx) else nest([], self.sx)
        self.yn = nest(_vals(self.sy, 'y', self.iy), self.sy) if _size(self.sy) else nest([], self.sy)
        if self.kind == 'i8big':
            self.xn = _shift(self.xn, BIG - 20)          # 2^53 + 1, 2^53 + 8, ...
            self.yn = _shift(self.yn, -BIG + 28)         # -2^53 - 3, -2^53 + 8, ...
        self.shape = bshape(self.sx, self.sy)
        if self.shape is not None:
            self.X = bcast(self.xn, self.sx, self.shape)
            self.Y = bcast(self.yn, self.sy, self.shape)
            self.fx = flat(self.X) if self.shape != () else [self.X]
            self.fy = flat(self.Y) if self.shape != () else [self.Y]
            self.size = _size(self.shape)

    def base(self):
        return {'sx': list(self.sx), 'sy': list(self.sy), 'kind': self.kind}

    def case(self, op, **kw):
        c = self.base()
        c['op'] = op
        c.update(kw)
        return c

    def _one(self, nested, shape, isint):
        k = self.kind
        if k in ('list', 'listint'):
            return _copy.deepcopy(nested)
        if k == 'npscalar' and shape == ():
            return np.int64(nested) if isint else np.float64(nested)
        return _arr(nested, shape, isint)

    def inputs(self):
        return self._one(self.xn, self.sx, self.ix), self._one(self.yn, self.sy, self.iy)

    def mk(self):
        from regions import PixCoord
        x, y = self.inputs()
        return PixCoord(x, y)

    def ref_arrays(self):
        return _arr(self.X, self.shape, self.ix), _arr(self.Y, self.shape, self.iy)

    def build(self):
        """A fresh PixCoord for the non-constructor checks; None when the constructor does not
        work (that is reported by check_ctor)."""
        if self.shape is None:
            return None
        try:
            return self.mk()
        except Exception:
            return None


# ------------------------------------------------------------------ helpers --
def _call(res, fn):
    res.transitions += 1
    try:
        return True, fn()
    except Exception as exc:  # noqa
        return False, exc


def _ex(exc):
    return f'{type(exc).__name__}: {exc}'


def _V(res, kind, case, msg, expected=None, observed=None):
    res.violation(ID, kind, case, msg, expected, observed)


def _held(v):
    if isinstance(v, np.ndarray):
        if v.ndim == 0:
            return ('zero_d_array', (), v.item())
        return ('array', tuple(v.shape), np.asarray(v).tolist())
    if isinstance(v, (bool, np.bool_)):
        return ('other', None, repr(v))
    if isinstance(v, (int, float, np.integer, np.floating)):
        return ('scalar', (), v)
    return ('other', None, repr(v))


def _problem(p, shape, X, Y, tol=None, kinds=False):
    """None when PixCoord ``p`` holds the reference (exactly, or within ``tol``); else a message.

    A scalar coordinate may hold Python numbers or numpy scalars (both are "scalar"); a 0-d
    ndarray is not accepted because ``isscalar`` would not recognise it."""
    from regions import PixCoord
    if not isinstance(p, PixCoord):
        return f'result is {type(p).__name__} ({p!r}), not a PixCoord'
    for name, v, E in (('x', p.x, X), ('y', p.y, Y)):
        h = _held(v)
        if shape == ():
            if h[0] != 'scalar':
                return f'{name} is {h[0]} {type(v).__name__} (shape {h[1]}) where a scalar is expected'
            g, e = [h[2]], [E]
        else:
            if h[0] != 'array':
                return f'{name} is {h[0]} {type(v).__name__} where an array of shape {shape} is expected'
            if h[1] != tuple(shape):
                return f'{name}.shape is {h[1]}, expected {tuple(shape)}'
            g, e = flat(h[2]), flat(E)
        if len(g) != len(e):
            return f'{name} holds {len(g)} values, expected {len(e)}'
        # integers stay integers (they may be used as indices): the held kind is that of the reference values
        if kinds and tol is None and e and all(isinstance(b, int) and not isinstance(b, bool) for b in e):
            kind = np.asarray(v).dtype.kind
            if kind not in 'iu':
                return f'{name} holds dtype {np.asarray(v).dtype} although every reference value is an integer ({e[0]!r}, ...)'
        for k, (a, b) in enumerate(zip(g, e)):
            bad = (not (a == b)) if tol is None else (not (abs(a - b) <= tol))
            if bad:
                return f'{name}[flat {k}] = {a!r}, reference {b!r}' + ('' if tol is None else f' (tol {tol:.3g})')
    try:
        isc = bool(p.isscalar)
    except Exception as exc:
        return f'isscalar raised {_ex(exc)}'
    if isc != (shape == ()):
        return f'isscalar is {isc} for a coordinate of shape {shape}'
    return None


def _flats(p):
    """Flat python lists of the values held by a PixCoord already validated by _problem."""
    hx, hy = _held(p.x), _held(p.y)
    fx = [hx[2]] if hx[0] == 'scalar' else flat(hx[2])
    fy = [hy[2]] if hy[0] == 'scalar' else flat(hy[2])
    return [float(v) for v in fx], [float(v) for v in fy]


def _snap(p):
    out = []
    for v in (p.x, p.y):
        if isinstance(v, np.ndarray):
            out.append((v.dtype.str, tuple(v.shape), v.tobytes()))
        else:
            out.append((type(v).__name__, repr(v)))
    return out


def _shape_class(shape):
    if shape == ():
        return 'scalar'
    if _size(shape) == 0:
        return 'empty'
    return f'{len(shape)}d'


# -------------------------------------------------------------- constructor --
def check_ctor(res, ctx):
    case = ctx.case('ctor')
    res.evaluations += 1
    ok, p = _call(res, ctx.mk)
    if ctx.shape is None:
        res.nontriv(('ctor', case))
        if ok:
            _V(res, 'ctor_accepts_unbroadcastable', case,
               f'PixCoord built from x of shape {ctx.sx} and y of shape {ctx.sy}: {p!r}', 'ValueError', repr(p))
        elif not isinstance(p, ValueError):
            _V(res, 'ctor_wrong_exception', case, f'shapes {ctx.sx}/{ctx.sy} raised {_ex(p)} instead of ValueError',
               'ValueError', type(p).__name__)
        res.outcome(('ctor', False, 'accepted' if ok else type(p).__name__))
        return
    if not ok:
        _V(res, 'unexpected_exception', case, f'PixCoord(x{ctx.sx}, y{ctx.sy}) raised {_ex(p)}')
        return
    shape = ctx.shape
    if shape != ctx.sx or shape != ctx.sy:
        res.nontriv(('ctor', case))
    msg = _problem(p, shape, ctx.X, ctx.Y, kinds=True)
    if msg:
        _V(res, 'ctor_values', case, f'constructed from x{ctx.sx}, y{ctx.sy} ({ctx.kind}): {msg}',
           {'shape': list(shape), 'x': ctx.X, 'y': ctx.Y}, repr(p))
    # keyword form
    x, y = ctx.inputs()
    from regions import PixCoord
    ok, pk = _call(res, lambda: PixCoord(x=x, y=y))
    if not ok:
        _V(res, 'unexpected_exception', case, f'PixCoord(x=, y=) raised {_ex(pk)}')
    else:
        msg = _problem(pk, shape, ctx.X, ctx.Y, kinds=True)
        if msg:
            _V(res, 'ctor_values', case, f'keyword construction: {msg}')
    # len
    ok, n = _call(res, lambda: len(p))
    if shape == ():
        if ok or not isinstance(n, TypeError):
            _V(res, 'len_scalar', case, f'len(scalar PixCoord) gave {n!r} instead of raising TypeError',
               'TypeError', repr(n))
    else:
        if not ok:
            _V(res, 'unexpected_exception', case, f'len raised {_ex(n)}')
        elif n != shape[0]:
            _V(res, 'len_wrong', case, f'len is {n}, the arrays have length {shape[0]}', shape[0], n)
    # xy
    ok, xy = _call(res, lambda: p.xy)
    if not ok:
        _V(res, 'unexpected_exception', case, f'xy raised {_ex(xy)}')
    else:
        good = isinstance(xy, tuple) and len(xy) == 2
        if good:
            for a, b in zip(xy, (p.x, p.y)):
                if a is b:
                    continue
                try:
                    good = good and np.shape(a) == np.shape(b) and bool(np.all(np.asarray(a) == np.asarray(b)))
                except Exception:
                    good = False
        if not good:
            _V(res, 'xy_wrong', case, f'xy is {xy!r}, expected (x, y) = ({p.x!r}, {p.y!r})')
    res.outcome(('ctor', True, shape))


# ----------------------------------------------------------------- indexing --
def _index_catalogue():
    c = []
    for i in (0, 1, -1, 2, -3, 3, -4, 7):
        c.append(['int', i])
    c.append(['npint', 1])
    c.append(['float', 1.0])
    c.append(['str', 'a'])
    for s in ([None, None, None], [1, None, None], [None, None, 2], [None, None, -1], [2, 0, -1], [1, 1, None],
              [-2, None, None], [0, 10, 3], [None, 2, None], [5, 9, None]):
        c.append(['slice'] + s)
    c.append(['ellipsis'])
    c.append(['none'])
    for pat, d in (('alt', 0), ('all', 0), ('nil', 0), ('alt', 1)):
        c.append(['mask1', pat, d])
    c.append(['maskfull', 'alt'])
    c.append(['masklist', 'alt'])
    for a in ([0, 0, -1], [2, 0, 1], [], [5], [[0, 1], [1, 0]]):
        c.append(['intarr', a])
    c.append(['intlist', [0, -1]])
    S = ['slice', None, None, None]
    for t in ([], [['int', 0], ['int', 1]], [S, ['int', 0]], [['int', 1], ['slice', None, None, -1]],
              [['ellipsis'], ['int', 0]], [['int', -1], ['ellipsis']], [['int', 0], ['int', 0], ['int', 0]],
              [['intarr', [0, 1]], ['intarr', [1, 0]]], [S, ['none']], [['int', 0], ['int', 5]],
              [['int', 1], ['int', 0], ['slice', 1, None, None]], [S, S, ['int', -1]]):
        c.append(['tuple', t])
    return c


INDEXES = _index_catalogue()


def _pattern(pat, n):
    if pat == 'alt':
        return [k % 2 == 0 for k in range(n)]
    if pat == 'all':
        return [True] * n
    return [False] * n


def build_index(spec, shape):
    t = spec[0]
    if t == 'int':
        return spec[1]
    if t == 'npint':
        return np.int64(spec[1])
    if t == 'float':
        return float(spec[1])
    if t == 'str':
        return str(spec[1])
    if t == 'slice':
        return slice(spec[1], spec[2], spec[3])
    if t == 'ellipsis':
        return Ellipsis
    if t == 'none':
        return None
    if t == 'intarr':
        return np.array(spec[1], dtype=np.int64)
    if t == 'intlist':
        return list(spec[1])
    n0 = shape[0] if shape else 1
    if t == 'mask1':
        return np.array(_pattern(spec[1], n0 + spec[2]), dtype=bool)
    if t == 'masklist':
        return _pattern(spec[1], n0)
    if t == 'maskfull':
        return np.array(_pattern(spec[1], _size(shape)), dtype=bool).reshape(shape)
    if t == 'tuple':
        return tuple(build_index(s, shape) for s in spec[1])
    raise ValueError(spec)


def check_index(res, ctx, specs):
    p = ctx.build()
    if p is None:
        return
    shape = ctx.shape
    RX, RY = ctx.ref_arrays()
    for spec in specs:
        case = ctx.case('index', idx=spec)
        res.evaluations += 1
        idx = build_index(spec, shape)
        try:
            with warnings.catch_warnings():
                warnings.simplefilter('ignore')
                rx, ry = RX[idx], RY[idx]
            rexc = None
        except Exception as exc:  # noqa
            rx = ry = None
            rexc = exc
        ok, got = _call(res, lambda: p[build_index(spec, shape)])
        if shape == ():
            # scalar pair: indexing must not hand back anything but (at most) what a 0-d array would
            if not ok:
                if not isinstance(got, (IndexError, TypeError)):
                    _V(res, 'index_scalar_wrong', case, f'scalar[{spec}] raised {_ex(got)}, expected IndexError',
                       'IndexError', type(got).__name__)
                res.outcome(('index', spec[0], 'scalar', type(got).__name__))
                continue
            if rexc is not None:
                _V(res, 'index_scalar_wrong', case, f'scalar PixCoord[{spec}] returned {got!r} instead of raising',
                   'IndexError', repr(got))
                continue
            # fall through: compare with the 0-d numpy result
        if rexc is not None:
            res.nontriv(('index', case))
            if ok:
                _V(res, 'index_no_exception', case,
                   f'[{spec}] on shape {shape} returned {got!r}; the same index on the x/y arrays raises {_ex(rexc)}',
                   type(rexc).__name__, repr(got))
            elif not isinstance(got, type(rexc)):
                _V(res, 'index_wrong_exception', case,
                   f'[{spec}] on shape {shape} raised {_ex(got)}; the arrays raise {type(rexc).__name__}',
                   type(rexc).__name__, type(got).__name__)
            res.outcome(('index', spec[0], _shape_class(shape), type(rexc).__name__))
            continue
        if not ok:
            _V(res, 'unexpected_exception', case, f'[{spec}] on shape {shape} raised {_ex(got)}; valid on the arrays')
            continue
        if np.ndim(rx) == 0:
            eshape, EX, EY = (), np.asarray(rx).item(), np.asarray(ry).item()
        else:
            eshape, EX, EY = tuple(rx.shape), rx.tolist(), ry.tolist()
        msg = _problem(got, eshape, EX, EY, kinds=True)
        if msg:
            _V(res, 'index_wrong', case, f'[{spec}] on shape {shape} ({ctx.kind}): {msg}',
               {'shape': list(eshape), 'x': EX, 'y': EY}, repr(got))
        if 0 < _size(eshape) < ctx.size:
            res.nontriv(('index', case))
        res.outcome(('index', spec[0], _shape_class(shape), _shape_class(eshape)))


def check_iter(res, ctx):
    p = ctx.build()
    if p is None:
        return
    shape = ctx.shape
    case = ctx.case('iter')
    res.evaluations += 1
    ok, items = _call(res, lambda: list(p))
    if shape == ():
        if ok or not isinstance(items, TypeError):
            _V(res, 'iter_scalar', case, f'iterating a scalar PixCoord gave {items!r} instead of raising TypeError',
               'TypeError', repr(items))
        res.outcome(('iter', 'scalar'))
        return
    if not ok:
        _V(res, 'unexpected_exception', case, f'iteration raised {_ex(items)}')
        return
    if len(items) != shape[0]:
        _V(res, 'iter_length', case, f'iteration yields {len(items)} items, arrays have length {shape[0]}',
           shape[0], len(items))
        return
    for i, it in enumerate(items):
        msg = _problem(it, tuple(shape[1:]), ctx.X[i], ctx.Y[i], kinds=True)
        if msg:
            _V(res, 'iter_wrong', case, f'item {i} of iteration over shape {shape}: {msg}',
               {'x': ctx.X[i], 'y': ctx.Y[i]}, repr(it))
            break
    if shape[0] > 1:
        res.nontriv(('iter', case))
    res.outcome(('iter', _shape_class(shape), len(items)))


# --------------------------------------------------------------- arithmetic --
def _map2(f, a, b):
    if isinstance(a, list):
        return [_map2(f, p, q) for p, q in zip(a, b)]
    return f(a, b)


def _sep_ref(x1, y1, x2, y2):
    d2 = (Fraction(x2) - Fraction(x1)) ** 2 + (Fraction(y2) - Fraction(y1)) ** 2
    return math.sqrt(d2)       # Fraction -> float is correctly rounded, sqrt is correctly rounded


def _ulp(v):
    return math.ulp(v) if v else 5e-324


def _partner(sb, kb):
    from regions import PixCoord
    isint = kb == 'i8'
    if _size(sb):
        bx, by = nest(_vals(sb, 'x', isint, 1), sb), nest(_vals(sb, 'y', isint, 1), sb)
    else:
        bx, by = nest([], sb), nest([], sb)
    return PixCoord(_arr(bx, sb, isint), _arr(by, sb, isint)), bx, by


def check_arith(res, ctx, partners):
    if ctx.build() is None:
        return
    shape = ctx.shape
    for sb, kb in partners:
        sb = tuple(sb)
        if ctx.kind == 'i8big' and kb != 'i8':
            continue        # int64 beyond 2^53 with a float partner: float arithmetic is not exactly invertible there
        case = ctx.case('arith', sb=list(sb), kb=kb)
        res.evaluations += 1
        a = ctx.mk()
        b, bxn, byn = _partner(sb, kb)
        bs = bshape(shape, sb)
        snap = (_snap(a), _snap(b))
        if bs is None:
            res.nontriv(('arith', case))
            for name, fn in (('+', lambda: a + b), ('-', lambda: a - b), ('separation', lambda: a.separation(b))):
                ok, r = _call(res, fn)
                if ok:
                    _V(res, 'arith_accepts_unbroadcastable', case,
                       f'{name} of shapes {shape} and {sb} returned {r!r} instead of raising', 'exception', repr(r))
            res.outcome(('arith', 'unbroadcastable'))
            continue
        AX, AY = bcast(ctx.X, shape, bs), bcast(ctx.Y, shape, bs)
        BX, BY = bcast(bxn, sb, bs), bcast(byn, sb, bs)
        add = lambda p, q: p + q   # noqa
        sub = lambda p, q: p - q   # noqa
        checks = (
            ('add_wrong', 'a+b', lambda: a + b, _map2(add, AX, BX), _map2(add, AY, BY)),
            ('add_wrong', 'b+a', lambda: b + a, _map2(add, AX, BX), _map2(add, AY, BY)),
            ('sub_wrong', 'a-b', lambda: a - b, _map2(sub, AX, BX), _map2(sub, AY, BY)),
            ('sub_wrong', 'b-a', lambda: b - a, _map2(sub, BX, AX), _map2(sub, BY, AY)),
            ('add_sub_not_inverse', '(a+b)-b', lambda: (a + b) - b, AX, AY),
            ('add_sub_not_inverse', '(a-b)+b', lambda: (a - b) + b, AX, AY),
        )
        for kind, name, fn, EX, EY in checks:
            ok, r = _call(res, fn)
            if not ok:
                _V(res, 'unexpected_exception', case, f'{name} for shapes {shape}, {sb} raised {_ex(r)}')
                continue
            msg = _problem(r, bs, EX, EY)
            if msg:
                _V(res, kind, case, f'{name} for shapes {shape} ({ctx.kind}) and {sb} ({kb}): {msg}',
                   {'shape': list(bs), 'x': EX, 'y': EY}, repr(r))
        # augmented assignment: `t = a; t += b` gives a + b as t and leaves a, b and the arrays they were built from alone
        for sym, ref_fn in (('+=', add), ('-=', sub)):
            from regions import PixCoord
            b2 = _partner(sb, kb)[0]
            xin, yin = ctx.inputs()
            keep = [np.array(v, copy=True) if isinstance(v, np.ndarray) else _copy.deepcopy(v) for v in (xin, yin)]
            a3 = PixCoord(xin, yin)
            snap_a = _snap(a3)

            def aug():
                t = a3
                if sym == '+=':
                    t += b2
                else:
                    t -= b2
                return t
            ok, r = _call(res, aug)
            if not ok:
                _V(res, 'unexpected_exception', case, f'a {sym} b for shapes {shape}, {sb} raised {_ex(r)}')
                continue
            msg = _problem(r, bs, _map2(ref_fn, AX, BX), _map2(ref_fn, AY, BY))
            if msg:
                _V(res, 'add_wrong' if sym == '+=' else 'sub_wrong', case, f'`t = a; t {sym} b` for shapes {shape} ({ctx.kind}) and {sb} ({kb}): {msg}',
                   None, repr(r))
            same_in = all((np.array_equal(np.asarray(u), np.asarray(v)) if isinstance(u, np.ndarray) else u == v) for u, v in zip((xin, yin), keep))
            if (r is not a3 and _snap(a3) != snap_a) or not same_in:
                _V(res, 'arith_mutates_operand', case, f'`t = a; t {sym} b` changed a or the arrays a was built from (shapes {shape}, {sb})')
        # separation -----------------------------------------------------------
        fax, fay = (flat(AX), flat(AY)) if bs != () else ([AX], [AY])
        fbx, fby = (flat(BX), flat(BY)) if bs != () else ([BX], [BY])
        want = [_sep_ref(x1, y1, x2, y2) for x1, y1, x2, y2 in zip(fax, fay, fbx, fby)]
        for name, fn, exp, eshape in (('a.separation(b)', lambda: a.separation(b), want, bs),
                                      ('b.separation(a)', lambda: b.separation(a), want, bs),
                                      ('a.separation(a)', lambda: a.separation(a), [0.0] * ctx.size, shape)):
            ok, r = _call(res, fn)
            if not ok:
                _V(res, 'unexpected_exception', case, f'{name} for shapes {shape}, {sb} raised {_ex(r)}')
                continue
            try:
                gshape = tuple(np.shape(r))
                g = [float(v) for v in np.asarray(r, dtype=float).ravel().tolist()]
            except Exception as exc:
                _V(res, 'separation_wrong', case, f'{name} returned {r!r} ({_ex(exc)})')
                continue
            if gshape != tuple(eshape):
                _V(res, 'separation_shape', case, f'{name} has shape {gshape}, expected {tuple(eshape)}',
                   list(eshape), list(gshape))
                continue
            for k, (gv, ev) in enumerate(zip(g, exp)):
                if not (abs(gv - ev) <= 4 * _ulp(ev)):
                    _V(res, 'separation_wrong', case,
                       f'{name}[flat {k}] = {gv!r}, Euclidean distance {ev!r} (shapes {shape}, {sb})', ev, gv)
                    break
        if (_snap(a), _snap(b)) != snap:
            _V(res, 'arith_mutates_operand', case, f'operands changed by + / - / separation (shapes {shape}, {sb})')
        if bs != shape or bs != sb:
            res.nontriv(('arith', case))
        res.outcome(('arith', _shape_class(shape), _shape_class(sb), bs))


def check_badops(res, ctx):
    p = ctx.build()
    if p is None:
        return
    case = ctx.case('badop')
    res.evaluations += 1
    others = [1, 2.5, (1, 2), [1.0, 2.0], None, 'a', np.array([1.0, 2.0]), np.float64(1.0)]
    for o in others:
        for name, fn in (('+', lambda: p + o), ('-', lambda: p - o)):
            ok, r = _call(res, fn)
            if ok or not isinstance(r, TypeError):
                _V(res, 'badop_no_typeerror', case,
                   f'PixCoord {name} {o!r} gave {r!r} instead of raising TypeError', 'TypeError', repr(r))
    for o in (1, 2.5, None):
        ok, r = _call(res, lambda: o + p)
        if ok or not isinstance(r, TypeError):
            _V(res, 'badop_no_typeerror', case, f'{o!r} + PixCoord gave {r!r} instead of raising TypeError',
               'TypeError', repr(r))
    res.outcome(('badop', _shape_class(ctx.shape)))


# ----------------------------------------------------------------- rotation --
def _mk_angle(spec):
    import astropy.units as u
    from astropy.coordinates import Angle
    v, unit, kind = spec
    return Angle(v, unit) if kind == 'angle' else u.Quantity(v, unit)


def _theta(spec):
    """The angle in radians by the driver's own conversion."""
    return float(spec[0]) if spec[1] == 'rad' else float(spec[0]) * math.pi / 180.0


def _angle_specs(bases, reps):
    out = []
    for v, unit in bases:
        for ru, rk in reps:
            if ru == unit:
                val = v
            elif ru == 'rad':
                val = v * math.pi / 180.0
            else:
                val = v * 180.0 / math.pi
            out.append([val, ru, rk])
    return out


def _rot_oracle(fx, fy, cx, cy, th):
    c, s = math.cos(th), math.sin(th)
    ex = [cx + c * (x - cx) - s * (y - cy) for x, y in zip(fx, fy)]
    ey = [cy + s * (x - cx) + c * (y - cy) for x, y in zip(fx, fy)]
    return ex, ey


def _rot_tol(fx, fy, cx, cy):
    m = max([abs(x - cx) + abs(y - cy) for x, y in zip(fx, fy)] + [0.0])
    return 1e-9 * (1.0 + m + abs(cx) + abs(cy))


def _isometry_msg(fx, fy, gx, gy, cx, cy):
    n = len(fx)
    for k in range(n):
        d0 = math.hypot(fx[k] - cx, fy[k] - cy)
        d1 = math.hypot(gx[k] - cx, gy[k] - cy)
        if not (abs(d1 - d0) <= 1e-12 * (d0 + abs(cx) + abs(cy) + 1.0)):
            return f'distance of element {k} to the centre changed from {d0!r} to {d1!r}'
    for k in range(n - 1):
        d0 = math.hypot(fx[k] - fx[k + 1], fy[k] - fy[k + 1])
        d1 = math.hypot(gx[k] - gx[k + 1], gy[k] - gy[k + 1])
        if not (abs(d1 - d0) <= 1e-12 * (d0 + 2 * (abs(cx) + abs(cy)) + 600.0)):
            return f'distance between elements {k} and {k + 1} changed from {d0!r} to {d1!r}'
    return None


def check_rotate(res, ctx, centres, singles, pairs):
    from regions import PixCoord
    if ctx.build() is None:
        return
    shape = ctx.shape
    fx, fy = [float(v) for v in ctx.fx], [float(v) for v in ctx.fy]
    if _size(shape) == 0:
        fx, fy = [], []
    for c in centres:
        cx, cy = c
        tol = _rot_tol(fx, fy, cx, cy)
        for spec in singles:
            case = ctx.case('rotate', centre=list(c), angle=list(spec))
            res.evaluations += 1
            p, C, A = ctx.mk(), PixCoord(cx, cy), _mk_angle(spec)
            before = (_snap(p), _snap(C), repr(A))
            ok, r = _call(res, lambda: p.rotate(C, A))
            if not ok:
                _V(res, 'unexpected_exception', case, f'rotate of shape {shape} about {c} by {spec} raised {_ex(r)}')
                continue
            th = _theta(spec)
            ex, ey = _rot_oracle(fx, fy, float(cx), float(cy), th)
            EX, EY = (nest(ex, shape), nest(ey, shape)) if fx else (nest([], shape), nest([], shape))
            msg = _problem(r, shape, EX, EY, tol)
            if msg:
                _V(res, 'rotate_wrong', case, f'rotate(shape {shape} {ctx.kind}, centre {c}, angle {spec}): {msg}',
                   {'shape': list(shape), 'x': EX, 'y': EY}, repr(r))
            else:
                gx, gy = _flats(r) if fx else ([], [])
                m = _isometry_msg(fx, fy, gx, gy, float(cx), float(cy))
                if m:
                    _V(res, 'rotate_not_isometry', case, f'rotate(shape {shape}, centre {c}, angle {spec}): {m}')
            if (_snap(p), _snap(C), repr(A)) != before:
                _V(res, 'rotate_mutates_input', case, f'rotate changed its inputs (shape {shape}, centre {c}, {spec})')
            ok, rc = _call(res, lambda: C.rotate(C, A))
            if not ok:
                _V(res, 'unexpected_exception', case, f'rotating the centre {c} about itself raised {_ex(rc)}')
            else:
                msg = _problem(rc, (), float(cx), float(cy), 1e-12 * (1.0 + abs(cx) + abs(cy)))
                if msg:
                    _V(res, 'rotate_moves_centre', case, f'centre {c} rotated about itself by {spec}: {msg}',
                       [cx, cy], repr(rc))
            if fx and abs(math.sin(th / 2.0)) > 1e-6:
                res.nontriv(('rotate', case))
            res.outcome(('rotate', _shape_class(shape), spec[1], spec[2]))
        for s1, s2 in pairs:
            case = ctx.case('rotate', centre=list(c), a1=list(s1), a2=list(s2))
            res.evaluations += 1
            p, C = ctx.mk(), PixCoord(cx, cy)
            A1, A2 = _mk_angle(s1), _mk_angle(s2)
            th = _theta(s1) + _theta(s2)
            ex, ey = _rot_oracle(fx, fy, float(cx), float(cy), th)
            EX, EY = (nest(ex, shape), nest(ey, shape)) if fx else (nest([], shape), nest([], shape))
            ok, r12 = _call(res, lambda: p.rotate(C, A1).rotate(C, A2))
            ok2, rs = _call(res, lambda: p.rotate(C, A1 + A2))
            if not ok or not ok2:
                _V(res, 'unexpected_exception', case,
                   f'composed rotation of shape {shape} about {c} by {s1}, {s2} raised {_ex(r12 if not ok else rs)}')
                continue
            m1 = _problem(r12, shape, EX, EY, 2 * tol)
            m2 = _problem(rs, shape, EX, EY, 2 * tol)
            if m1:
                _V(res, 'rotate_composition_wrong', case,
                   f'rotate({s1}) then rotate({s2}) about {c} is not the rotation by the summed angle: {m1}',
                   {'x': EX, 'y': EY}, repr(r12))
            if m2:
                _V(res, 'rotate_wrong', case, f'rotate by {s1} + {s2} about {c}: {m2}', {'x': EX, 'y': EY}, repr(rs))
            if not m1 and not m2 and fx:
                g1, g2 = _flats(r12), _flats(rs)
                d = max(abs(a - b) for a, b in zip(g1[0] + g1[1], g2[0] + g2[1]))
                if not (d <= 2 * tol):
                    _V(res, 'rotate_not_additive', case, f'rot(t1) then rot(t2) differs from rot(t1+t2) by {d!r}')
            if fx:
                res.nontriv(('rotate2', case))
            res.outcome(('rotate2', _shape_class(shape)))


def check_rotate_near_centre(res):
    """Points closer to the rotation centre than the tolerance of PixCoord.__eq__ (relative 1e-5, absolute 1e-8) are
    rotated like any other point: full product of centre x offset x angle, scalars and arrays."""
    from regions import PixCoord
    import astropy.units as u
    centres = [(20000.0, 20000.0), (0.0, 0.0), (-3.0e6, 7.5)]
    for cx, cy in centres:
        big = max(abs(cx), abs(cy))
        offs = [(0.1 if big > 1 else 4e-9, 0.0), (0.0, -0.05 if big > 1 else 3e-9), (1e-3 * (big > 1) + 2e-9, 1e-3 * (big > 1) + 1e-9)]
        for deg in (90.0, 180.0, 30.0, -123.4):
            th = math.radians(deg)
            case = {'op': 'rotate_near_centre', 'sx': [], 'sy': [], 'kind': 'f8', 'centre': [cx, cy], 'angle_deg': deg}
            res.states += 1
            res.evaluations += 1
            px = np.array([cx + dx for dx, dy in offs])
            py = np.array([cy + dy for dx, dy in offs])
            for form in ('array', 'scalar'):
                res.transitions += 1
                if form == 'array':
                    ok, r = _call(res, lambda: PixCoord(px, py).rotate(PixCoord(cx, cy), deg * u.deg))
                    got = None if not ok else (np.asarray(r.x, float), np.asarray(r.y, float))
                else:
                    ok, r = _call(res, lambda: [PixCoord(float(a), float(b)).rotate(PixCoord(cx, cy), deg * u.deg) for a, b in zip(px, py)])
                    got = None if not ok else (np.array([float(q.x) for q in r]), np.array([float(q.y) for q in r]))
                if not ok:
                    _V(res, 'unexpected_exception', case, f'rotate near the centre raised {_ex(r)}')
                    continue
                dx, dy = px - cx, py - cy
                ex = cx + dx * math.cos(th) - dy * math.sin(th)
                ey = cy + dx * math.sin(th) + dy * math.cos(th)
                tol = 1e-12 * (1.0 + big) + 1e-3 * np.hypot(dx, dy)
                err = np.hypot(got[0] - ex, got[1] - ey)
                if not np.all(err <= tol):
                    k = int(np.argmax(err / tol))
                    _V(res, 'rotate_wrong', {**case, 'form': form},
                       f'rotating ({px[k]!r}, {py[k]!r}) about ({cx}, {cy}) by {deg} deg ({form}) gives ({got[0][k]!r}, {got[1][k]!r}), expected '
                       f'({ex[k]!r}, {ey[k]!r}): the offset from the centre ({dx[k]!r}, {dy[k]!r}) is not rotated', [float(ex[k]), float(ey[k])],
                       [float(got[0][k]), float(got[1][k])])
            res.nontriv(('rotate_near_centre', cx, cy, deg))
            res.outcome(('rotate_near_centre', deg))


# ------------------------------------------------------------- copy and == --
def check_copy_eq(res, ctx):
    from regions import PixCoord
    if ctx.build() is None:
        return
    shape = ctx.shape
    case = ctx.case('copy_eq')
    res.evaluations += 1
    with warnings.catch_warnings():
        warnings.simplefilter('ignore')       # writing to a broadcast view warns in numpy
        for name, cp in (('copy()', lambda o: o.copy()), ('copy.deepcopy', _copy.deepcopy)):
            p = ctx.mk()
            ok, q = _call(res, lambda: cp(p))
            if not ok:
                _V(res, 'unexpected_exception', case, f'{name} raised {_ex(q)}')
                continue
            msg = _problem(q, shape, ctx.X, ctx.Y, kinds=True)
            if msg:
                _V(res, 'copy_values', case, f'{name} of shape {shape}: {msg}', None, repr(q))
                continue
            if q is p:
                _V(res, 'copy_not_independent', case, f'{name} returned the same object')
                continue
            if shape == () or ctx.size == 0:
                continue
            # mutate the copy in place -> original unchanged
            for comp in ('x', 'y'):
                arr = getattr(q, comp)
                try:
                    arr[...] = 12345
                except ValueError:
                    continue        # read-only copy: cannot be mutated, trivially independent
                msg = _problem(p, shape, ctx.X, ctx.Y, kinds=True)
                if msg:
                    _V(res, 'copy_not_independent', case,
                       f'writing to {name}.{comp} changed the original: {msg}', None, repr(p))
            # mutate the original in place -> (fresh) copy unchanged
            p2 = ctx.mk()
            q2 = cp(p2)
            for comp in ('x', 'y'):
                arr = getattr(p2, comp)
                try:
                    arr[...] = -777
                except ValueError:
                    continue
                msg = _problem(q2, shape, ctx.X, ctx.Y, kinds=True)
                if msg:
                    _V(res, 'copy_not_independent', case,
                       f'writing to the original {comp} changed its {name}: {msg}', None, repr(q2))
            res.transitions += 2
    # equality ---------------------------------------------------------------
    p = ctx.mk()
    for name, fn, want in (('p == p', lambda: p == p, True), ('p == rebuilt', lambda: p == ctx.mk(), True),
                           ('p == p.copy()', lambda: p == p.copy(), True), ('p != p.copy()', lambda: p != p.copy(), False)):
        ok, r = _call(res, fn)
        if not ok:
            _V(res, 'unexpected_exception', case, f'{name} raised {_ex(r)}')
        else:
            try:
                b = bool(r)
            except Exception:
                b = None
            if b is not want:
                _V(res, 'eq_wrong', case, f'{name} gave {r!r} for shape {shape}', want, repr(r))
    if ctx.size > 0:
        # a difference far above the documented tolerance of == (relative 1e-5): 1 for the ordinary values, 2^40 at 2^53
        step = 1 if ctx.kind != 'i8big' else 2 ** 40
        for comp, k in (('x', 0), ('y', ctx.size - 1)):
            gx, gy = list(ctx.fx), list(ctx.fy)
            if comp == 'x':
                gx[k] = gx[k] + step
            else:
                gy[k] = gy[k] + step
            q = PixCoord(_arr(nest(gx, shape), shape, ctx.ix), _arr(nest(gy, shape), shape, ctx.iy))
            for name, fn in (('p == q', lambda: p == q), ('q == p', lambda: q == p)):
                ok, r = _call(res, fn)
                if not ok:
                    _V(res, 'unexpected_exception', case, f'{name} raised {_ex(r)}')
                elif bool(r) is not False:
                    _V(res, 'eq_misses_difference', case,
                       f'{name} is {r!r} although {comp}[flat {k}] differs by 1 (shape {shape})', False, repr(r))
        res.nontriv(('eq', case))
    for o in (1, None, 'a', (p.x, p.y), [1, 2], 2.5):
        ok, r = _call(res, lambda: p == o)
        if not ok:
            _V(res, 'unexpected_exception', case, f'PixCoord == {type(o).__name__} raised {_ex(r)}')
        else:
            try:
                b = bool(r)
            except Exception:
                b = None
            if b is not False:
                _V(res, 'eq_non_pixcoord', case, f'PixCoord == {o!r} gave {r!r}, expected False', False, repr(r))
    # == between different broadcastable shapes must merely not crash
    if shape != ():
        ok, r = _call(res, lambda: p == PixCoord(1.0, 2.0))
        if not ok:
            _V(res, 'eq_broadcast_raises', case,
               f'PixCoord of shape {shape} == scalar PixCoord(1.0, 2.0) raised {_ex(r)} (shapes broadcast)',
               'a truth value', type(r).__name__)
    res.outcome(('copy_eq', _shape_class(shape)))


# ---------------------------------------------------------------------- WCS --
EXTREME = [1e-200, 1e-170, 3.0, 1e160, 1e200]


def _sep_ref_scaled(dx, dy):
    """Euclidean length of (dx, dy) without overflow / underflow: exact scaling by a power of two."""
    m = max(abs(dx), abs(dy))
    if m == 0:
        return 0.0
    k = math.frexp(m)[1]
    fx, fy = Fraction(dx) / Fraction(2) ** k, Fraction(dy) / Fraction(2) ** k
    return math.ldexp(math.sqrt(fx * fx + fy * fy), k)


def check_misc(res):
    """(a) a coordinate whose x / y are re-assigned so that its kind changes (scalar <-> array) behaves like a coordinate built
    that way; (b) scalar coordinates holding Python ints add and subtract as Python ints do (no fixed width)."""
    from regions import PixCoord
    case = {'op': 'misc', 'sx': [], 'sy': [], 'kind': 'f8'}
    res.states += 1
    res.evaluations += 1
    # (a)
    for what, first, then in (('scalar -> array', (1.0, 2.0), (np.array([1.0, 2.0, 3.0]), np.array([4.0, 5.0, 6.0]))),
                              ('array -> scalar', (np.array([1.0, 2.0]), np.array([4.0, 5.0])), (7.0, 8.0)),
                              ('array -> longer array', (np.array([1.0, 2.0]), np.array([4.0, 5.0])), (np.arange(5.0), np.arange(5.0) + 1))):
        res.transitions += 1
        try:
            p = PixCoord(*first)
            _ = (p.isscalar, repr(p))
            p.x, p.y = then
            fresh = PixCoord(*then)
            obs = []
            for q in (p, fresh):
                o = [bool(q.isscalar)]
                for fn in (lambda: len(q), lambda: _plain(q[0].xy) if not q.isscalar else 'n/a', lambda: [_plain(e.xy) for e in q],
                           lambda: _plain((q + PixCoord(1.0, 1.0)).xy), lambda: _plain(q.xy)):
                    try:
                        o.append(fn())
                    except Exception as exc:      # noqa: BLE001
                        o.append('raise:' + type(exc).__name__)
                obs.append(o)
        except Exception as exc:      # noqa: BLE001
            _V(res, 'unexpected_exception', {**case, 'what': what}, f'{what}: re-assigning x and y raised {_ex(exc)}')
            continue
        if obs[0] != obs[1]:
            _V(res, 'kind_not_following_assignment', {**case, 'what': what},
               f'{what}: after assigning new x and y the coordinate gives [isscalar, len, [0], iteration, +1, xy] = {obs[0]!r}; one built from the '
               f'same values gives {obs[1]!r}', obs[1], obs[0])
    # (b)
    for a, b in (((2 ** 62, 5), (2 ** 62, 7)), ((-(2 ** 63), 1), (5, -3)), ((2 ** 64 + 3, 0), (1, 2 ** 70)), ((2 ** 53 + 1, 2), (1, 1))):
        res.transitions += 2
        for sym, fn, ref in (('+', lambda p, q: p + q, lambda u, v: u + v), ('-', lambda p, q: p - q, lambda u, v: u - v)):
            try:
                r = fn(PixCoord(*a), PixCoord(*b))
                got = (r.x, r.y)
            except Exception as exc:      # noqa: BLE001
                _V(res, 'unexpected_exception', {**case, 'a': list(a), 'b': list(b)}, f'PixCoord{a} {sym} PixCoord{b} raised {_ex(exc)}')
                continue
            want = (ref(a[0], b[0]), ref(a[1], b[1]))
            if (int(got[0]), int(got[1])) != want or any(isinstance(g, float) for g in got):
                _V(res, 'add_wrong' if sym == '+' else 'sub_wrong', {**case, 'a': list(a), 'b': list(b)},
                   f'PixCoord{a} {sym} PixCoord{b} = ({got[0]!r}, {got[1]!r}), integer arithmetic gives {want}', list(want), [repr(got[0]), repr(got[1])])
    # (c) the null rotation gives a new, independent coordinate like any other rotation
    import astropy.units as u
    for ang in (0.0 * u.deg, 0.0 * u.rad, -0.0 * u.deg, (30.0 - 30.0) * u.arcmin):
        for src in (PixCoord(1.5, -2.0), PixCoord(np.array([1.0, 2.0, 3.0]), np.array([4.0, 5.0, 6.0]))):
            res.transitions += 1
            try:
                r = src.rotate(PixCoord(10.0, 20.0), ang)
                before = _plain(src.xy)
                same = r is src or (np.ndim(src.x) and (np.shares_memory(np.asarray(r.x), src.x) or np.shares_memory(np.asarray(r.y), src.y)))
                if np.ndim(r.x):
                    r.x[0] += 100.0
                else:
                    r.x = r.x + 100.0
                changed = _plain(src.xy) != before
            except Exception as exc:      # noqa: BLE001
                _V(res, 'unexpected_exception', {**case, 'angle': str(ang)}, f'rotate by {ang} raised {_ex(exc)}')
                continue
            if same or changed:
                _V(res, 'copy_not_independent', {**case, 'angle': str(ang)},
                   f'rotate(centre, {ang}) returned ' + ('the coordinate itself / arrays shared with it' if same else 'a coordinate whose edit changed the source'),
                   'an independent coordinate', 'shared')
    res.outcome(('misc',))


def _plain(v):
    if isinstance(v, tuple):
        return [_plain(e) for e in v]
    return np.asarray(v, float).tolist()


def check_sep_extreme(res, only=None):
    """separation for coordinate differences of extreme magnitude (the Euclidean distance is representable although
    the squares of the differences are not): full product of |dx| x |dy| x signs, scalars and arrays."""
    from regions import PixCoord
    pairs = [(sx * dx, sy * dy) for dx in EXTREME for dy in EXTREME for sx in (1, -1) for sy in (1, -1)]
    base = (0.5, -0.25)
    for form in ('scalar', 'array'):
        case = {'op': 'sep_extreme', 'sx': [], 'sy': [], 'kind': 'f8', 'form': form}
        res.evaluations += 1
        res.states += 1
        if form == 'scalar':
            for dx, dy in pairs:
                bx, by = base[0] + dx, base[1] + dy
                want = _sep_ref_scaled(bx - base[0], by - base[1])
                ok, r = _call(res, lambda: PixCoord(base[0], base[1]).separation(PixCoord(bx, by)))
                res.transitions += 1
                if not ok:
                    _V(res, 'unexpected_exception', case, f'separation to ({bx!r}, {by!r}) raised {_ex(r)}')
                elif not (abs(float(r) - want) <= 4 * _ulp(want)):
                    _V(res, 'separation_wrong', {**case, 'd': [dx, dy]},
                       f'separation of ({base[0]}, {base[1]}) and ({bx!r}, {by!r}) = {float(r)!r}, Euclidean distance {want!r}', want, float(r))
                    break
        else:
            bx = np.array([base[0] + d[0] for d in pairs])
            by = np.array([base[1] + d[1] for d in pairs])
            want = [_sep_ref_scaled(float(x) - base[0], float(y) - base[1]) for x, y in zip(bx, by)]
            ok, r = _call(res, lambda: PixCoord(bx, by).separation(PixCoord(base[0], base[1])))
            res.transitions += 1
            if not ok:
                _V(res, 'unexpected_exception', case, f'separation of an array of extreme coordinates raised {_ex(r)}')
            else:
                g = np.asarray(r, float).ravel().tolist()
                for k, (gv, ev) in enumerate(zip(g, want)):
                    if not (abs(gv - ev) <= 4 * _ulp(ev)):
                        _V(res, 'separation_wrong', case, f'separation[{k}] for difference {pairs[k]!r} = {gv!r}, Euclidean distance {ev!r}', ev, gv)
                        break
        res.nontriv(('sep_extreme', form))
        res.outcome(('sep_extreme', form))


_WCS_CACHE = {}


def wcs_specs(tier):
    lin = []
    for proj in ('TAN', 'SIN', 'CAR'):
        for rot in (0.0, 30.0, 137.0):
            for cdelt in (1e-4, 0.01):
                for ctype in ('RA/DEC', 'GLON/GLAT', 'DEC/RA', 'GLAT/GLON'):
                    for crval in ([40.0, 20.0], [266.0, -29.0]):
                        lin.append({'proj': proj, 'rot': rot, 'cdelt': cdelt, 'ctype': ctype, 'crval': crval,
                                    'sip': False})
    sip = [{'proj': 'TAN', 'rot': 30.0, 'cdelt': 1e-4, 'ctype': 'RA/DEC', 'crval': [266.0, -29.0], 'sip': True},
           {'proj': 'TAN', 'rot': 0.0, 'cdelt': 0.01, 'ctype': 'RA/DEC', 'crval': [40.0, 20.0], 'sip': True}]
    # distortion by lookup tables (CPDIS) instead of SIP polynomials
    lookup = [{'proj': 'TAN', 'rot': 30.0, 'cdelt': 1e-4, 'ctype': 'RA/DEC', 'crval': [40.0, 20.0], 'sip': False, 'lookup': True}]
    sip = sip + lookup
    if tier == 'quick':
        def pick(**kw):
            return [w for w in lin if all(w[k] == v for k, v in kw.items())][0]
        return [pick(proj='TAN', rot=30.0, cdelt=1e-4, ctype='RA/DEC', crval=[266.0, -29.0]),
                pick(proj='SIN', rot=137.0, cdelt=0.01, ctype='GLON/GLAT', crval=[40.0, 20.0]),
                pick(proj='CAR', rot=0.0, cdelt=0.01, ctype='RA/DEC', crval=[40.0, 20.0]),
                # latitude on the first pixel axis
                pick(proj='TAN', rot=137.0, cdelt=1e-4, ctype='DEC/RA', crval=[40.0, 20.0]),
                pick(proj='SIN', rot=30.0, cdelt=0.01, ctype='GLAT/GLON', crval=[266.0, -29.0]),
                sip[0], lookup[0]]
    return lin + sip


def build_wcs(spec):
    key = repr(sorted(spec.items()))
    if key in _WCS_CACHE:
        return _WCS_CACHE[key]
    from astropy.wcs import WCS, Sip
    w = WCS(naxis=2)
    suffix = '-SIP' if spec['sip'] else ''
    names = {'RA': 'RA---', 'DEC': 'DEC--', 'GLON': 'GLON-', 'GLAT': 'GLAT-'}
    a1, a2 = spec['ctype'].split('/')
    w.wcs.ctype = [names[a1] + spec['proj'] + suffix, names[a2] + spec['proj'] + suffix]
    if a1 in ('DEC', 'GLAT'):       # the latitude is the first world axis
        w.wcs.crval = [spec['crval'][1], spec['crval'][0]]
        w.wcs.cdelt = [spec['cdelt'], -spec['cdelt']]
    else:
        w.wcs.crval = list(spec['crval'])
        w.wcs.cdelt = [-spec['cdelt'], spec['cdelt']]       # standard parity
    w.wcs.crpix = [50.0, 60.0]
    r = math.radians(spec['rot'])
    w.wcs.pc = [[math.cos(r), -math.sin(r)], [math.sin(r), math.cos(r)]]
    w.wcs.cunit = ['deg', 'deg']
    if spec['sip']:
        a = np.zeros((3, 3))
        b = np.zeros((3, 3))
        a[2, 0], a[1, 1], a[0, 2] = 1e-4, -5e-5, 7.5e-5
        b[2, 0], b[1, 1], b[0, 2] = -5e-5, 5e-5, 1e-4
        w.sip = Sip(a, b, None, None, [50.0, 60.0])
    if spec.get('lookup'):
        from astropy.wcs import DistortionLookupTable
        yy, xx = np.mgrid[0:9, 0:9]
        t1 = (0.4 * np.sin(xx / 3.0) * np.cos(yy / 4.0)).astype(np.float32)
        t2 = (0.3 * np.cos(xx / 5.0 + 1.0) * np.sin(yy / 3.0 + 0.5)).astype(np.float32)
        w.cpdis1 = DistortionLookupTable(t1, (1.0, 1.0), (1.0, 1.0), (16.0, 16.0))
        w.cpdis2 = DistortionLookupTable(t2, (1.0, 1.0), (1.0, 1.0), (16.0, 16.0))
    w.wcs.set()
    _WCS_CACHE[key] = w
    return w


def _lonlat(s):
    lon = np.ravel(np.asarray(s.data.lon.deg, dtype=float)).tolist()
    lat = np.ravel(np.asarray(s.data.lat.deg, dtype=float)).tolist()
    return lon, lat


def _sky_diff_arcsec(lon1, lat1, lon2, lat2):
    worst = 0.0
    for a, b, c, d in zip(lon1, lat1, lon2, lat2):
        dl = ((a - c + 180.0) % 360.0) - 180.0
        e = max(abs(dl) * math.cos(math.radians(b)), abs(b - d)) * 3600.0
        if not (e <= worst):
            worst = e if e == e else float('inf')
    return worst


SKY_TOL_ARCSEC = 1e-7      # ~500 ulp of a longitude in degrees; one pixel is >= 0.36 arcsec


def check_wcs(res, ctx, wspecs, origins, modes):
    from regions import PixCoord
    from astropy.coordinates import SkyCoord
    if ctx.build() is None:
        return
    shape = ctx.shape
    n = _size(shape)
    fx, fy = ([float(v) for v in ctx.fx], [float(v) for v in ctx.fy]) if n else ([], [])
    FX, FY = np.array(fx, dtype=float), np.array(fy, dtype=float)
    sub1 = lambda v, _: v - 1      # noqa
    for ws in wspecs:
        w = build_wcs(ws)
        for m in modes:
            ptol = 1e-3 if ((ws['sip'] or ws.get('lookup')) and m == 'all') else 1e-8
            for o in origins:
                case = ctx.case('wcs', wcs=ws, origin=o, mode=m)
                res.evaluations += 1
                p = ctx.mk()
                ok, s = _call(res, lambda: p.to_sky(w, origin=o, mode=m))
                if not ok:
                    _V(res, 'unexpected_exception', case, f'to_sky(shape {shape}, origin={o}, mode={m}) raised {_ex(s)}')
                    continue
                if not isinstance(s, SkyCoord) or tuple(s.shape) != tuple(shape) or bool(s.isscalar) != (shape == ()):
                    _V(res, 'to_sky_shape', case,
                       f'to_sky of shape {shape} gave {type(s).__name__} of shape {getattr(s, "shape", None)}',
                       list(shape), repr(getattr(s, 'shape', None)))
                    continue
                lon, lat = _lonlat(s)
                if n:
                    fn = w.all_pix2world if m == 'all' else w.wcs_pix2world
                    rl, rb = fn(FX - o, FY - o, 0)
                    if w.wcs.lng == 1:       # world axes in (lat, lon) order
                        rl, rb = rb, rl
                    d = _sky_diff_arcsec(lon, lat, rl.tolist(), rb.tolist())
                    if not (d <= SKY_TOL_ARCSEC):
                        _V(res, 'to_sky_wrong', case,
                           f'to_sky(origin={o}, mode={m}) is {d:.3g} arcsec away from the WCS transformation of the '
                           f'{o}-based pixel coordinates (shape {shape}, wcs {ws})', 0.0, d)
                ok, q = _call(res, lambda: PixCoord.from_sky(s, w, origin=o, mode=m))
                if not ok:
                    _V(res, 'unexpected_exception', case, f'from_sky(origin={o}, mode={m}) raised {_ex(q)}')
                    continue
                msg = _problem(q, shape, ctx.X, ctx.Y, ptol)
                if msg:
                    _V(res, 'roundtrip_wrong', case,
                       f'from_sky(to_sky(p)) with origin={o}, mode={m}, wcs {ws}, shape {shape} ({ctx.kind}): {msg}',
                       {'x': ctx.X, 'y': ctx.Y}, repr(q))
                if m == 'all':
                    # the documented default mode is 'all': omitting the keyword is the same call
                    ok, qd = _call(res, lambda: PixCoord.from_sky(s, w, origin=o))
                    ok2, sd = _call(res, lambda: p.to_sky(w, origin=o))
                    if not ok or not ok2:
                        _V(res, 'unexpected_exception', case, f'from_sky / to_sky without the mode keyword raised {_ex(qd if not ok else sd)}')
                    else:
                        md = _problem(qd, shape, ctx.X, ctx.Y, ptol)
                        if md and not msg:
                            _V(res, 'roundtrip_wrong', case, f'from_sky(to_sky(p)) with the mode keyword omitted (default "all"), origin={o}, wcs {ws}, '
                                                             f'shape {shape}: {md}', {'x': ctx.X, 'y': ctx.Y}, repr(qd))
                if o == 1:
                    # the origin argument must matter consistently in each direction
                    X1 = _map2(sub1, ctx.X, ctx.X) if shape != () else ctx.X - 1
                    Y1 = _map2(sub1, ctx.Y, ctx.Y) if shape != () else ctx.Y - 1
                    pm = PixCoord(_arr(X1, shape, False), _arr(Y1, shape, False))
                    ok, s0 = _call(res, lambda: pm.to_sky(w, origin=0, mode=m))
                    if not ok:
                        _V(res, 'unexpected_exception', case, f'to_sky(origin=0) raised {_ex(s0)}')
                    elif n:
                        l0, b0 = _lonlat(s0)
                        d = _sky_diff_arcsec(lon, lat, l0, b0) if len(l0) == len(lon) else float('inf')
                        if not (d <= SKY_TOL_ARCSEC):
                            _V(res, 'to_sky_origin_inconsistent', case,
                               f'to_sky(p, origin=1) and to_sky(p - (1, 1), origin=0) differ by {d:.3g} arcsec '
                               f'(mode={m}, wcs {ws}, shape {shape})', 0.0, d)
                    ok, q0 = _call(res, lambda: PixCoord.from_sky(s, w, origin=0, mode=m))
                    if not ok:
                        _V(res, 'unexpected_exception', case, f'from_sky(origin=0) raised {_ex(q0)}')
                    elif not msg:
                        m0 = _problem(q0, shape, X1, Y1, max(ptol, 1e-8))
                        if m0:
                            _V(res, 'from_sky_origin_inconsistent', case,
                               f'from_sky(origin=0) is not from_sky(origin=1) - 1 (mode={m}, wcs {ws}, '
                               f'shape {shape}): {m0}', {'x': X1, 'y': Y1}, repr(q0))
                if n:
                    res.nontriv(('wcs', case))
                res.outcome(('wcs', ws['proj'], ws['ctype'], ws['sip'], o, m, _shape_class(shape)))


# ------------------------------------------------------------------- driver --
def _tier(tier):
    if tier == 'quick':
        return dict(kinds=KINDS_QUICK, centres=[CENTRES[0], CENTRES[2]],
                    singles=_angle_specs([BASE_ANGLES[1], BASE_ANGLES[3], BASE_ANGLES[5], BASE_ANGLES[6]],
                                         [('deg', 'quantity'), ('rad', 'angle')]),
                    pair_angles=_angle_specs([BASE_ANGLES[1], BASE_ANGLES[3], BASE_ANGLES[5], BASE_ANGLES[2]],
                                             [('deg', 'quantity'), ('rad', 'angle')]),
                    partner_kinds=['f8', 'i8'])
    return dict(kinds=KINDS_ALL, centres=CENTRES,
                singles=_angle_specs(BASE_ANGLES, [('deg', 'quantity'), ('deg', 'angle'), ('rad', 'quantity'),
                                                   ('rad', 'angle')]),
                pair_angles=_angle_specs(BASE_ANGLES, [('deg', 'quantity'), ('rad', 'angle')]),
                partner_kinds=['f8', 'i8'])


def _kinds_for(sx, sy, kinds, wcs=False):
    return [k for k in kinds if (k != 'npscalar' or () in (tuple(sx), tuple(sy))) and not (wcs and k == 'i8big')]


def shards(tier, seed):
    T = _tier(tier)
    out = []
    for sx in SHAPES:
        for sy in SHAPES:
            out.append({'kind': 'core', 'sx': list(sx), 'sy': list(sy)})
    out.append({'kind': 'sep_extreme', 'sx': [], 'sy': []})
    for sx in SHAPES:
        for sy in SHAPES:
            if bshape(sx, sy) is None:
                continue
            ks = _kinds_for(sx, sy, T['kinds'], wcs=True)
            for i in range(0, len(ks), 2):
                out.append({'kind': 'wcs', 'sx': list(sx), 'sy': list(sy), 'kinds': ks[i:i + 2]})
    return out


def run_shard(shard, tier, seed):
    res = Result()
    T = _tier(tier)
    sx, sy = shard['sx'], shard['sy']
    with warnings.catch_warnings():
        warnings.simplefilter('ignore')
        if shard['kind'] == 'core':
            pa = T['pair_angles']
            pairs = [(a, b) for a in pa for b in pa]
            partners = [(list(sb), kb) for sb in SHAPES for kb in T['partner_kinds']]
            for kind in _kinds_for(sx, sy, T['kinds']):
                ctx = Ctx({'sx': sx, 'sy': sy, 'kind': kind})
                res.states += 1
                res.axis('kind', kind)
                res.axis('x_shape', tuple(sx))
                res.axis('y_shape', tuple(sy))
                res.axis('result_shape', ctx.shape)
                check_ctor(res, ctx)
                check_index(res, ctx, INDEXES)
                check_iter(res, ctx)
                check_arith(res, ctx, partners)
                check_badops(res, ctx)
                if kind != 'i8big':
                    check_rotate(res, ctx, T['centres'], T['singles'], pairs)
                check_copy_eq(res, ctx)
            res.sample({'sx': sx, 'sy': sy, 'kinds': _kinds_for(sx, sy, T['kinds']),
                        'result_shape': None if bshape(sx, sy) is None else list(bshape(sx, sy))})
        elif shard['kind'] == 'wcs':
            W = wcs_specs(tier)
            for kind in shard['kinds']:
                ctx = Ctx({'sx': sx, 'sy': sy, 'kind': kind})
                check_wcs(res, ctx, W, [0, 1], ['all', 'wcs'])
                for ws in W:
                    res.axis('wcs_proj', ws['proj'] + ('-SIP' if ws['sip'] else '') + ('-CPDIS' if ws.get('lookup') else ''))
        elif shard['kind'] == 'sep_extreme':
            check_sep_extreme(res)
            check_rotate_near_centre(res)
            check_misc(res)
        else:
            raise ValueError(shard['kind'])
    return res


def replay(case):
    res = Result()
    ctx = Ctx(case)
    op = case['op']
    with warnings.catch_warnings():
        warnings.simplefilter('ignore')
        if op == 'ctor':
            check_ctor(res, ctx)
        elif op == 'index':
            check_index(res, ctx, [case['idx']])
        elif op == 'iter':
            check_iter(res, ctx)
        elif op == 'arith':
            check_arith(res, ctx, [(case['sb'], case['kb'])])
        elif op == 'badop':
            check_badops(res, ctx)
        elif op == 'rotate':
            if 'angle' in case:
                check_rotate(res, ctx, [case['centre']], [case['angle']], [])
            else:
                check_rotate(res, ctx, [case['centre']], [], [(case['a1'], case['a2'])])
        elif op == 'copy_eq':
            check_copy_eq(res, ctx)
        elif op == 'wcs':
            check_wcs(res, ctx, [case['wcs']], [case['origin']], [case['mode']])
        elif op == 'sep_extreme':
            check_sep_extreme(res)
        elif op == 'rotate_near_centre':
            check_rotate_near_centre(res)
        elif op == 'misc':
            check_misc(res)
        else:
            raise ValueError(op)
    return res
