"""C16 -- regions are values: copies are equal and independent, equality sees every field.

E2: single-field perturbation matrix over every class x every field x every
perturbation kind, plus all cross-class pairs.  E1: all mutation sequences (to a
stated depth) applied to a copy / to the original, checking that the *other*
object's fingerprint never changes; Regions slices/copies under all mutator
sequences.  Oracle: "equal iff same class and every field equal (pixel
positions within rtol 1e-5 / atol 1e-8, everything else exactly, quantities
by value)" with field equality for Quantity/SkyCoord delegated to (trusted)
astropy comparison of the *fields*, never to Region.__eq__.
"""
import copy
import math
import operator

import numpy as np

from mc.result import Result
from mc.explorer import Explorer
from mc import fingerprint as FP
from mc import pool

ID = 'C16'
LEVEL = 'model_checking'
ENGINE = 'E1-explorer'
FILES = ['regions/core/core.py', 'regions/core/metadata.py', 'regions/core/pixcoord.py', 'regions/core/regions.py',
         'regions/shapes/polygon.py', 'regions/core/compound.py']
RULE = ('E2: every pool region (26 classes/variants) x every field (shape parameters, meta, visual) x every perturbation '
        'kind applicable to the field type (1 ulp, +1e-7 rel, +1e-3 rel, other unit same value, other unit other value, '
        'element count, key added/removed/changed, nested list element) and all ordered cross-class pairs; E1: all '
        'sequences to depth 2 (quick) / 3 (thorough) of idempotent mutations of the copy and of the original for each '
        'of copy(), deepcopy, copy(field=v); Regions: all mutator sequences to depth 3/4 on every derived list. A case '
        'is non-trivial when the model predicts inequality, or when the mutation changes the mutated object')
BOUNDS = {'quick': 'mutation sequences to depth 2; Regions mutators depth 3', 'thorough': 'mutation sequences to depth 3; Regions mutators depth 4'}
ASSUMPTIONS = ['astropy Quantity and SkyCoord comparison of individual fields is trusted as the definition of field equality',
               'pixel positions: numpy.allclose defaults (rtol 1e-5, atol 1e-8) are the documented tolerance']

NAMES = pool.PIXEL_NAMES + pool.SKY_NAMES


def _ulp_up(x):
    return math.nextafter(x, math.inf)


# ------------------------------------------------------- perturbation matrix --
def perturbations(name):
    """List of (label, field, make_value(region)->new value, expect_equal or None=don't care)."""
    import astropy.units as u
    from astropy.coordinates import SkyCoord, Angle
    from regions import PixCoord, RegionMeta, RegionVisual, Region
    r = pool.make(name)
    out = []
    for f in list(r._params):
        v = getattr(r, f)
        if isinstance(v, PixCoord) and v.isscalar:
            out += [(f'{f}.x+1ulp', f, lambda r, f=f: PixCoord(_ulp_up(getattr(r, f).x), getattr(r, f).y), True),
                    (f'{f}.y+1e-7rel', f, lambda r, f=f: PixCoord(getattr(r, f).x, getattr(r, f).y * (1 + 1e-7)), True),
                    (f'{f}.x+1e-3rel', f, lambda r, f=f: PixCoord(getattr(r, f).x * (1 + 1e-3), getattr(r, f).y), False),
                    (f'{f}.y+1e-3rel', f, lambda r, f=f: PixCoord(getattr(r, f).x, getattr(r, f).y * (1 + 1e-3)), False),
                    (f'{f}.y-0.5', f, lambda r, f=f: PixCoord(getattr(r, f).x, getattr(r, f).y - 0.5), False)]
        elif isinstance(v, PixCoord):
            def pert(r, f=f, i=0, axis='x', d=0.0, rel=0.0):
                p = getattr(r, f)
                x, y = np.array(p.x, float), np.array(p.y, float)
                a = x if axis == 'x' else y
                a[i] = a[i] * (1 + rel) + d
                return PixCoord(x, y)
            n = len(v)
            out += [(f'{f}.x[0]+1e-7rel', f, lambda r, pert=pert: pert(r, i=0, rel=1e-7), True),
                    (f'{f}.y[-1]+1e-3rel', f, lambda r, pert=pert, n=n: pert(r, i=n - 1, axis='y', rel=1e-3), False),
                    (f'{f}.x[1]+0.25', f, lambda r, pert=pert: pert(r, i=1, d=0.25), False),
                    (f'{f}+vertex', f, lambda r, f=f: PixCoord(np.append(getattr(r, f).x, 47.0), np.append(getattr(r, f).y, 53.0)), False),
                    (f'{f}-vertex', f, lambda r, f=f: PixCoord(np.array(getattr(r, f).x[:-1]), np.array(getattr(r, f).y[:-1])), False),
                    (f'{f} reordered', f, lambda r, f=f: PixCoord(np.roll(getattr(r, f).x, 1), np.roll(getattr(r, f).y, 1)), False)]
        elif isinstance(v, SkyCoord) and v.isscalar:
            def sk(r, f=f, dlon=0.0, dlat=0.0, ulp=False):
                c = getattr(r, f)
                lon = c.spherical.lon.deg
                lat = c.spherical.lat.deg
                lon = _ulp_up(lon) if ulp else lon + dlon
                return SkyCoord(lon * u.deg, (lat + dlat) * u.deg, frame=c.frame.name)
            out += [(f'{f}.lon+1ulp', f, lambda r, sk=sk: sk(r, ulp=True), False),
                    (f'{f}.lon+1e-3deg', f, lambda r, sk=sk: sk(r, dlon=1e-3), False),
                    (f'{f}.lat-1e-6deg', f, lambda r, sk=sk: sk(r, dlat=-1e-6), False),
                    (f'{f} other frame same point', f, lambda r, f=f: getattr(r, f).transform_to('galactic' if getattr(r, f).frame.name != 'galactic' else 'icrs'), None),
                    (f'{f} rebuilt identical', f, lambda r, sk=sk: sk(r), True)]
        elif isinstance(v, SkyCoord):
            def ska(r, f=f, i=0, d=0.0, drop=False, add=False):
                c = getattr(r, f)
                lon = np.array(c.spherical.lon.deg)
                lat = np.array(c.spherical.lat.deg)
                lon[i] += d
                if drop:
                    lon, lat = lon[:-1], lat[:-1]
                if add:
                    lon, lat = np.append(lon, 40.01), np.append(lat, 20.01)
                return SkyCoord(lon * u.deg, lat * u.deg, frame=c.frame.name)
            out += [(f'{f}.lon[1]+1e-4', f, lambda r, ska=ska: ska(r, i=1, d=1e-4), False),
                    (f'{f}+vertex', f, lambda r, ska=ska: ska(r, add=True), False),
                    (f'{f}-vertex', f, lambda r, ska=ska: ska(r, drop=True), False),
                    (f'{f} rebuilt identical', f, lambda r, ska=ska: ska(r), True)]
        elif isinstance(v, u.Quantity):
            other = u.arcmin if v.unit != u.arcmin else u.deg
            out += [(f'{f}+1ulp', f, lambda r, f=f: u.Quantity(_ulp_up(getattr(r, f).value), getattr(r, f).unit), False),
                    (f'{f}+1e-7rel', f, lambda r, f=f: getattr(r, f) * (1 + 1e-7), False),
                    (f'{f} other unit same value', f, lambda r, f=f, other=other: getattr(r, f).to(other), 'by-field'),
                    (f'{f} as Angle', f, lambda r, f=f: Angle(getattr(r, f)), True),
                    (f'{f} other unit different value', f, lambda r, f=f, other=other: u.Quantity(getattr(r, f).value, other), False),
                    (f'{f} other unit +3e-7rel', f, lambda r, f=f, other=other: getattr(r, f).to(other) * (1 + 3e-7), False),
                    (f'{f} other unit -2e-6rel', f, lambda r, f=f, other=other: getattr(r, f).to(other) * (1 - 2e-6), False)]
        elif isinstance(v, str):
            out += [(f'{f} changed', f, lambda r, f=f: getattr(r, f) + '!', False),
                    (f'{f} case', f, lambda r, f=f: getattr(r, f).upper(), False)]
        elif isinstance(v, (int, np.integer)) and not isinstance(v, bool) and f == 'nvertices':
            pass   # derived vertices are not refreshed on assignment: perturbed by construction below
        elif isinstance(v, (float, int, np.floating, np.integer)):
            out += [(f'{f}+1ulp', f, lambda r, f=f: _ulp_up(float(getattr(r, f))), False),
                    (f'{f}+1e-7rel', f, lambda r, f=f: float(getattr(r, f)) * (1 + 1e-7), False),
                    (f'{f}+1e-3rel', f, lambda r, f=f: float(getattr(r, f)) * (1 + 1e-3), False),
                    (f'{f} same value as np.float64', f, lambda r, f=f: np.float64(getattr(r, f)), True)]
        elif isinstance(v, Region):
            def sub(r, f=f):
                s = copy.deepcopy(getattr(r, f))
                if hasattr(s, 'radius'):
                    s.radius = s.radius * 1.5
                else:
                    s.width = s.width * 1.5
                return s
            out += [(f'{f} perturbed sub-region', f, sub, False),
                    (f'{f} sub-region meta changed', f, lambda r, f=f: _with_meta(copy.deepcopy(getattr(r, f)), 'text', 'zzz'), False)]
    # meta / visual
    for fld, K, extra, chg in (('meta', RegionMeta, ('comment', 'c'), ('text', 'different')),
                               ('visual', RegionVisual, ('dashes', (1, 2)), ('color', 'black'))):
        cur = dict(getattr(r, fld))
        out.append((f'{fld}+key', fld, lambda r, fld=fld, K=K, extra=extra: K({**dict(getattr(r, fld)), extra[0]: extra[1]}), False))
        out.append((f'{fld} changed/added {chg[0]}', fld, lambda r, fld=fld, K=K, chg=chg: K({**dict(getattr(r, fld)), chg[0]: chg[1]}), False))
        out.append((f'{fld} rebuilt identical', fld, lambda r, fld=fld, K=K: K(copy.deepcopy(dict(getattr(r, fld)))), True))
        out.append((f'{fld} as plain dict', fld, lambda r, fld=fld: copy.deepcopy(dict(getattr(r, fld))), True))
        if cur:
            k0 = sorted(cur)[0]
            out.append((f'{fld}-key {k0}', fld, lambda r, fld=fld, K=K, k0=k0: K({k: v for k, v in getattr(r, fld).items() if k != k0}), False))
        if 'tag' in cur:
            out.append((f'{fld} tag list element', fld, lambda r, fld=fld, K=K: K({**dict(getattr(r, fld)), 'tag': list(getattr(r, fld)['tag'])[:-1] + ['other']}), False))
            out.append((f'{fld} tag list longer', fld, lambda r, fld=fld, K=K: K({**dict(getattr(r, fld)), 'tag': list(getattr(r, fld)['tag']) + ['more']}), False))
        if 'include' in cur:
            out.append((f'{fld} include flipped', fld, lambda r, fld=fld, K=K: K({**dict(getattr(r, fld)), 'include': True}), False))
    return out


def _with_meta(reg, k, v):
    reg.meta[k] = v
    return reg


def _eq_calls(res, case, a, b, expect, what):
    """a == b, b == a, a != b must be consistent, never raise, and match the model."""
    outs = []
    for label, fn in (('a==b', lambda: a == b), ('b==a', lambda: b == a), ('a!=b', lambda: a != b), ('b!=a', lambda: b != a)):
        res.transitions += 1
        try:
            outs.append(fn())
        except Exception as exc:
            res.violation(ID, 'eq_raises', case, f'{what}: {label} raised {type(exc).__name__}: {exc}', 'bool', f'{type(exc).__name__}')
            return None
    if not all(isinstance(o, (bool, np.bool_)) for o in outs):
        res.violation(ID, 'eq_not_bool', case, f'{what}: comparison results {outs!r}')
        return None
    e1, e2, n1, n2 = (bool(o) for o in outs)
    if e1 != e2:
        res.violation(ID, 'eq_not_symmetric', case, f'{what}: a==b is {e1} but b==a is {e2}', e1, e2)
    if n1 != (not e1) or n2 != (not e2):
        res.violation(ID, 'ne_not_negation', case, f'{what}: == gave {e1}/{e2} but != gave {n1}/{n2}')
    if expect is not None and e1 != expect:
        res.violation(ID, 'eq_wrong', case, f'{what}: regions compare {"equal" if e1 else "unequal"}, the model says {"equal" if expect else "unequal"}',
                      expect, e1)
    return e1


def check_perturbation(res, name, label):
    import astropy.units as u
    table = {p[0]: p for p in perturbations(name)}
    if label not in table:
        raise KeyError(label)
    _, field, mk, expect = table[label]
    case = {'op': 'perturb', 'name': name, 'label': label}
    r = pool.make(name)
    p = pool.make(name)
    res.evaluations += 1
    new = mk(p)
    if expect == 'by-field':
        # unit re-expression: equal iff astropy says the two field values are equal
        old = getattr(r, field)
        expect = bool(old == new)
    try:
        setattr(p, field, new)
    except Exception as exc:
        raise RuntimeError(f'harness: cannot assign perturbed value {label} on {name}: {exc}')
    _eq_calls(res, case, r, p, expect, f'{type(r).__name__} [{label}]')
    res.outcome(('perturb', label.split(' ')[0].split('.')[0] if False else field, expect))
    if expect is False:
        res.nontriv(('perturb', name, label))
    res.axis('field', field)
    res.axis('class', type(r).__name__)


def check_basic(res, name):
    """Reflexivity, equality of two independent builds, copy equality, regular-polygon nvertices."""
    case = {'op': 'basic', 'name': name}
    r, r2 = pool.make(name), pool.make(name)
    res.evaluations += 1
    _eq_calls(res, case, r, r, True, f'{type(r).__name__} reflexive')
    _eq_calls(res, case, r, r2, True, f'{type(r).__name__} two identical builds')
    for via in ('copy', 'deepcopy'):
        res.transitions += 1
        try:
            c = r.copy() if via == 'copy' else copy.deepcopy(r)
        except Exception as exc:
            res.violation(ID, 'copy_raises', case, f'{type(r).__name__}.{via} raised {type(exc).__name__}: {exc}')
            continue
        if type(c) is not type(r):
            res.violation(ID, 'copy_wrong_class', case, f'{via} of {type(r).__name__} is a {type(c).__name__}')
        _eq_calls(res, case, r, c, True, f'{type(r).__name__} == its {via}')
        if FP.fp(c) != FP.fp(r):
            a, b = FP.fp(r)[1], FP.fp(c)[1]
            diff = [k for k in a if a[k] != b.get(k)]
            # private extras (e.g. derived attributes) may legitimately be re-derived; fields must match
            if [k for k in diff if k != 'extras']:
                res.violation(ID, 'copy_differs', case, f'{via} of {type(r).__name__} differs in {diff}')
        shared = set(FP.ident_graph(r)) & set(FP.ident_graph(c))
        if shared:
            g = FP.ident_graph(r)
            res.violation(ID, 'copy_shares_state', case, f'{via} of {type(r).__name__} shares mutable objects with the original: '
                          f'{sorted(g[i] for i in shared)[:5]}')
    # the metadata objects' own copy() (used by every conversion) must be deep
    for fld in ('meta', 'visual'):
        r3 = pool.make(name)
        d = getattr(r3, fld)
        before = FP.fp(d)
        res.transitions += 1
        try:
            dc = d.copy()
        except Exception as exc:
            res.violation(ID, 'copy_raises', {'op': 'basic', 'name': name, 'sub': fld + '.copy'}, f'{fld}.copy() raised {exc}')
            continue
        if type(dc) is not type(d) or FP.fp(dc) != before:
            res.violation(ID, 'copy_differs', {'op': 'basic', 'name': name, 'sub': fld + '.copy'}, f'{fld}.copy() differs from {fld}')
        for k, v in list(dc.items()):
            if isinstance(v, list):
                v.append('LEAK')
            dc[k] = 'changed' if not isinstance(v, list) else v
        if FP.fp(d) != before:
            res.violation(ID, 'copy_shares_state', {'op': 'basic', 'name': name, 'sub': fld + '.copy'},
                          f'{type(r3).__name__}.{fld}.copy() shares nested mutable state with the original: {dict(d)!r}')
    # metadata entries may hold arrays (a dash pattern, a spectral range): equality is equality of the entries, shape included
    if not name.startswith(('compound', 'sky_compound')):
        def with_entry(field, key, val):
            q = pool.make(name)
            getattr(q, field)[key] = val
            return q
        for field, key in (('visual', 'dashes'), ('meta', 'range')):
            sub = {'op': 'basic', 'name': name, 'sub': f'{field}[{key!r}] array'}
            a = with_entry(field, key, np.array([4.0, 4.0]))
            _eq_calls(res, sub, a, with_entry(field, key, np.array([4.0, 4.0])), True, f'{field}[{key!r}] = the same two-element array on both sides')
            try:
                _eq_calls(res, sub, a, a.copy(), True, f'a region whose {field}[{key!r}] is a two-element array and its copy')
            except Exception as exc:      # noqa: BLE001
                res.violation(ID, 'copy_raises', sub, f'copy raised {type(exc).__name__}: {exc}')
            _eq_calls(res, sub, a, with_entry(field, key, np.array([4.0, 5.0])), False, f'{field}[{key!r}] arrays differing in one element')
            _eq_calls(res, sub, a, with_entry(field, key, np.array([4.0])), False, f'{field}[{key!r}] arrays [4, 4] and [4] (same value, other shape)')
            _eq_calls(res, sub, a, with_entry(field, key, 4.0), False, f'{field}[{key!r}] array [4, 4] and the number 4')
            _eq_calls(res, sub, a, with_entry(field, key, np.array([4.0, 4.0, 4.0])), False, f'{field}[{key!r}] arrays of two and of three equal elements')
    # entries that are tuples holding mutable members are copied in depth as well
    if not name.startswith(('compound', 'sky_compound')):
        for via in ('copy', 'deepcopy', 'copy_changes'):
            q = pool.make(name)
            q.visual['dashes'] = ([8, 3], 'pattern')
            q.meta['range'] = (np.array([1.0, 2.0]), ['km/s'])
            before = FP.fp(q)
            sub = {'op': 'basic', 'name': name, 'sub': f'tuple entries via {via}'}
            try:
                c = q.copy() if via == 'copy' else (copy.deepcopy(q) if via == 'deepcopy' else q.copy(meta={'text': 'other'}))
                c.visual['dashes'][0].append(99)
                if 'range' in c.meta:
                    c.meta['range'][0][0] = -5.0
                    c.meta['range'][1].append('edited')
            except Exception as exc:      # noqa: BLE001
                res.violation(ID, 'copy_raises', sub, f'{via} / editing the copy raised {type(exc).__name__}: {exc}')
                continue
            if FP.fp(q) != before:
                res.violation(ID, 'copy_shares_state', sub, f'{type(q).__name__}: editing the members of tuple-valued meta / visual entries of a {via} '
                                                            f'changed the original: visual {dict(q.visual)!r}, meta {dict(q.meta)!r}')
    if name == 'regpoly':
        import regions
        a = regions.RegularPolygonPixelRegion(r.center, 5, r.radius, angle=r.angle)
        b = regions.RegularPolygonPixelRegion(r.center, 6, r.radius, angle=r.angle)
        _eq_calls(res, {'op': 'basic', 'name': name, 'sub': 'nvertices'}, a, b, False, 'RegularPolygon nvertices 5 vs 6')
    if name in ('compound', 'sky_compound'):
        import regions
        K = type(r)
        b = K(r.region1, r.region2, operator.xor if r.operator is not operator.xor else operator.and_, meta=r.meta, visual=r.visual)
        _eq_calls(res, {'op': 'basic', 'name': name, 'sub': 'operator'}, r, b, False, 'compound with a different operator')
        # operators that are different functions are different whatever they are called
        mk = [lambda p, q: p & q, lambda p, q: p | q]
        c1, c2 = (K(r.region1, r.region2, f, meta=r.meta, visual=r.visual) for f in mk)
        _eq_calls(res, {'op': 'basic', 'name': name, 'sub': 'operator_lambda'}, c1, c2, False, 'compounds whose operators are two different anonymous functions')

        def _named(fn):
            def op(p, q):
                return fn(p, q)
            return op
        d1, d2 = (K(r.region1, r.region2, _named(f), meta=r.meta, visual=r.visual) for f in (operator.and_, operator.or_))
        _eq_calls(res, {'op': 'basic', 'name': name, 'sub': 'operator_same_name'}, d1, d2, False,
                  'compounds whose operators are two different functions of the same name')
        e1 = K(r.region1, r.region2, mk[0], meta=r.meta, visual=r.visual)
        _eq_calls(res, {'op': 'basic', 'name': name, 'sub': 'operator_same_fn'}, c1, e1, True, 'compounds built from the same operator function')
    res.nontriv(('basic', name))


def _class_twins(a):
    import copy
    import regions as R
    out = []
    params = tuple(getattr(a, '_params', ()) or ())
    if not params:
        return out
    for nm in sorted(dir(R)):
        cls = getattr(R, nm)
        if not (isinstance(cls, type) and issubclass(cls, R.Region)) or cls is type(a):
            continue
        if tuple(getattr(cls, '_params', ()) or ()) != params:
            continue
        try:
            out.append(cls(**{p: copy.deepcopy(getattr(a, p)) for p in params}, meta=a.meta.copy(), visual=a.visual.copy()))
        except Exception:      # noqa: BLE001 -- the other class does not accept these values (pixel vs sky coordinates)
            continue
    return out


def check_shared_keys(res, name):
    """Key names that are valid both as meta and as visual entries ('line', 'textrotate'): an entry in meta and an entry of the
    same name in visual are different things -- every placement pattern of the two must be told apart."""
    from regions import RegionMeta, RegionVisual
    shared = sorted(set(RegionMeta.valid_keys) & set(RegionVisual.valid_keys))
    res.axis('shared_meta_visual_keys', ','.join(shared))
    # (meta value, visual value) patterns; None = absent
    pats = [(None, None), (1, None), (None, 1), (1, 1), (0, 1), (1, 0)]
    for k in shared:
        regs = []
        for mv, vv in pats:
            r = pool.make(name)
            if mv is not None:
                r.meta[k] = mv
            if vv is not None:
                r.visual[k] = vv
            regs.append(r)
        for i, a in enumerate(regs):
            for j, b in enumerate(regs):
                res.evaluations += 1
                _eq_calls(res, {'op': 'shared_keys', 'name': name, 'key': k, 'a': list(pats[i]), 'b': list(pats[j])}, a, b, i == j,
                          f'{type(a).__name__}: {k!r} as (meta, visual) = {pats[i]} vs {pats[j]}')
        res.nontriv(('shared_keys', name, k))


def check_cross(res, n1, n2):
    case = {'op': 'cross', 'a': n1, 'b': n2}
    a, b = pool.make(n1), pool.make(n2)
    res.evaluations += 1
    same = n1 == n2
    _eq_calls(res, case, a, b, True if same else False, f'{type(a).__name__}({n1}) vs {type(b).__name__}({n2})')
    res.outcome(('cross', same))
    if not same:
        res.nontriv(('cross', n1, n2))
    if same:
        # every OTHER region class that takes the same parameter names, given a's own parameter values, meta and visual
        for b2 in _class_twins(a):
            _eq_calls(res, {'op': 'cross', 'a': n1, 'b': n1, 'twin': type(b2).__name__}, a, b2, False,
                      f'{type(a).__name__}({n1}) vs a {type(b2).__name__} with the same parameter values, meta and visual')
            res.axis('class_twin', f'{type(a).__name__}/{type(b2).__name__}')
        if type(a).__name__.startswith('Compound'):
            for t in _class_twins(a.region2):
                b2 = type(a)(a.region1, t, a.operator, meta=a.meta.copy(), visual=a.visual.copy())
                _eq_calls(res, {'op': 'cross', 'a': n1, 'b': n1, 'twin': 'compound/' + type(t).__name__}, a, b2, False,
                          f'compound({n1}) vs the same compound with operand 2 as a {type(t).__name__} of the same parameter values')
                res.axis('class_twin', f'compound:{type(a.region2).__name__}/{type(t).__name__}')
    # comparison with non-regions never raises and is False
    for other in (None, 5, 'circle', (1, 2)):
        res.transitions += 1
        try:
            e = (a == other)
            n = (a != other)
        except Exception as exc:
            res.violation(ID, 'eq_raises', {'op': 'cross', 'a': n1, 'b': repr(other)}, f'{type(a).__name__} == {other!r} raised {exc}')
            continue
        if e is not False and e is not NotImplemented or (n is not True and n is not NotImplemented):
            if bool(e) or not bool(n):
                res.violation(ID, 'eq_wrong', {'op': 'cross', 'a': n1, 'b': repr(other)}, f'{type(a).__name__} == {other!r} gave {e!r}')


# ---------------------------------------------- documented tolerance of pixel positions --
PIX_SCALES = [1e-3, 1.0, 1e3, 3e4]
# relative perturbation -> equal?  (documented: |a - b| <= 1e-8 + 1e-5 |b|; the values are far from the threshold at every scale)
PIX_RELS = [(1e-7, True), (5e-6, True), (4e-5, False), (1e-3, False)]


def check_pix_tolerance(res, name, scale=None, rel=None):
    """Pixel-position parameters moved to every magnitude of PIX_SCALES and perturbed by every relative amount of
    PIX_RELS: equal exactly when the documented tolerance (relative 1e-5, absolute 1e-8) says so."""
    from regions import PixCoord
    r0 = pool.make(name)
    for f in list(getattr(r0, '_params', ()) or ()):
        v = getattr(r0, f)
        if not isinstance(v, PixCoord):
            continue
        for sc in PIX_SCALES:
            if scale is not None and sc != scale:
                continue
            n = 1 if v.isscalar else len(v)
            ux = sc * (1.2345 + 0.75 * np.arange(n))
            uy = sc * (-0.789 - 1.25 * np.arange(n) ** 2)
            for eps, expect in PIX_RELS:
                if rel is not None and eps != rel:
                    continue
                case = {'op': 'pixtol', 'name': name, 'field': f, 'scale': sc, 'rel': eps}
                res.evaluations += 1
                a, b = pool.make(name), pool.make(name)
                px, py = ux.copy(), uy.copy()
                px[-1] = px[-1] * (1 + eps)
                py[0] = py[0] * (1 - eps)
                if v.isscalar:
                    setattr(a, f, PixCoord(float(ux[0]), float(uy[0])))
                    setattr(b, f, PixCoord(float(px[0]), float(py[0])))
                else:
                    setattr(a, f, PixCoord(ux, uy))
                    setattr(b, f, PixCoord(px, py))
                got = _eq_calls(res, case, a, b, expect, f'{type(a).__name__}.{f} at magnitude {sc:g} perturbed by {eps:g} relative '
                                f'(documented tolerance: relative 1e-5, absolute 1e-8)')
                res.outcome(('pixtol', sc, eps, got))
                res.axis('pix_magnitude', f'{sc:g}')
                res.nontriv(('pixtol', name, f, sc, eps))
        # integer-typed positions obey the same documented tolerance: at 10^7 a whole pixel is within it, 1000 pixels are not
        if scale is None or scale == 1e7:
            n = 1 if v.isscalar else len(v)
            bx = 10 ** 7 + 13 * np.arange(n, dtype=np.int64)
            by = -(10 ** 7) - 29 * np.arange(n, dtype=np.int64) ** 2
            for delta, expect in ((1, True), (1000, False)):
                if rel is not None and rel != delta:
                    continue
                case = {'op': 'pixtol', 'name': name, 'field': f, 'scale': 1e7, 'rel': delta, 'dtype': 'int'}
                res.evaluations += 1
                a, b = pool.make(name), pool.make(name)
                px, py = bx.copy(), by.copy()
                px[-1] += delta
                if v.isscalar:
                    setattr(a, f, PixCoord(int(bx[0]), int(by[0])))
                    setattr(b, f, PixCoord(int(px[0]), int(py[0])))
                else:
                    setattr(a, f, PixCoord(bx, by))
                    setattr(b, f, PixCoord(px, py))
                _eq_calls(res, case, a, b, expect, f'{type(a).__name__}.{f}: integer-typed positions at 10^7 differing by {delta} pixel(s) '
                          f'(documented tolerance: relative 1e-5, absolute 1e-8)')
                res.nontriv(('pixtol_int', name, f, delta))


# ------------------------------------------------------------ copy(**changes) --
def change_values(name):
    """(field, make_value) alternatives for copy(field=value)."""
    import astropy.units as u
    from astropy.coordinates import SkyCoord
    from regions import PixCoord, RegionMeta, RegionVisual, Region
    r = pool.make(name)
    out = []
    for f in r._params:
        v = getattr(r, f)
        if isinstance(v, PixCoord) and v.isscalar:
            out.append((f, lambda: PixCoord(10.5, -3.25)))
        elif isinstance(v, PixCoord):
            out.append((f, lambda: PixCoord([1.0, 5.0, 4.0], [1.0, 2.0, 6.0])))
        elif isinstance(v, SkyCoord) and v.isscalar:
            out.append((f, lambda: SkyCoord(41 * u.deg, 21 * u.deg)))
        elif isinstance(v, SkyCoord):
            out.append((f, lambda: SkyCoord([41, 42, 41.5] * u.deg, [21, 21, 22] * u.deg)))
        elif isinstance(v, u.Quantity):
            if f.startswith('outer') or f in ('radius', 'width', 'height') or f.startswith('inner'):
                fac = 1.01 if f.startswith('inner') else 1.5
                out.append((f, lambda v=v, fac=fac: v * fac))
            else:
                out.append((f, lambda: 77 * u.deg))
        elif isinstance(v, str):
            out.append((f, lambda: 'replaced'))
        elif f == 'nvertices':
            out.append((f, lambda: 7))
        elif isinstance(v, (int, float, np.floating, np.integer)):
            fac = 1.01 if f.startswith('inner') else 1.5
            out.append((f, lambda v=v, fac=fac: float(v) * fac))
        elif isinstance(v, Region):
            out.append((f, lambda v=v: pool.make('circle_excl') if 'Pixel' in type(v).__name__ else pool.make('sky_circle_gal')))
        elif callable(v):
            out.append((f, lambda: operator.xor))
    out.append(('meta', lambda: RegionMeta({'text': 'new meta'})))
    out.append(('visual', lambda: RegionVisual({'color': 'orange'})))
    # explicitly *empty* metadata must be taken as given, too (it is falsy)
    out.append(('meta', lambda: RegionMeta()))
    out.append(('visual', lambda: RegionVisual()))
    out.append(('meta', lambda: {}))
    return out


def check_copy_changes(res, name, idx):
    r = pool.make(name)
    field, mk = change_values(name)[idx]
    case = {'op': 'copy_changes', 'name': name, 'idx': idx, 'field': field}
    val = mk()
    before = FP.fp(r)
    res.evaluations += 1
    res.transitions += 1
    try:
        c = r.copy(**{field: val})
    except Exception as exc:
        res.violation(ID, 'copy_raises', case, f'{type(r).__name__}.copy({field}=...) raised {type(exc).__name__}: {exc}')
        return
    if FP.fp(r) != before:
        res.violation(ID, 'copy_mutates_original', case, f'{type(r).__name__}.copy({field}=...) changed the original')
    a, b = FP.fp(r)[1], FP.fp(c)[1]
    got = getattr(c, field)
    if not (got is val or FP.fp(got) == FP.fp(val) or (field in ('meta', 'visual') and dict(got) == dict(val))):
        res.violation(ID, 'copy_change_not_applied', case, f'{type(r).__name__}.copy({field}=v): field reads back {got!r}', repr(val), repr(got))
    derived = {'vertices'} if name == 'regpoly' else set()       # RegularPolygon: vertices are derived from the parameters
    for k in a:
        if k in ('extras', field) or k in derived:
            continue
        if a[k] != b.get(k):
            res.violation(ID, 'copy_changed_other_field', case, f'{type(r).__name__}.copy({field}=v) also changed field {k!r}')
    if type(c) is not type(r):
        res.violation(ID, 'copy_wrong_class', case, f'copy({field}=v) returned {type(c).__name__}')
    res.nontriv(('copy_changes', name, field))
    res.outcome(('copy_changes', field))


# -------------------------------------------------- E1: mutation independence --
def mutations(name):
    """Idempotent in-place/assignment mutations applicable to a region of this pool name."""
    from astropy.coordinates import SkyCoord
    import astropy.units as u
    from regions import PixCoord, Region
    r = pool.make(name)
    evs = []
    for f in r._params:
        v = getattr(r, f)
        if isinstance(v, PixCoord) and v.isscalar:
            evs += [['assign', f], ['pix_attr', f]]
        elif isinstance(v, PixCoord):
            evs += [['assign', f], ['arr_inplace', f]]
        elif isinstance(v, u.Quantity):
            evs += [['assign', f], ['q_inplace', f]]
        elif isinstance(v, SkyCoord):
            evs += [['assign', f]]
        elif isinstance(v, Region):
            evs += [['sub_meta', f], ['sub_param', f]]
        elif isinstance(v, (float, np.floating)) or (isinstance(v, str)):
            evs += [['assign', f]]
    evs += [['meta_set', 'meta'], ['meta_set', 'visual']]
    if 'tag' in r.meta:
        evs.append(['tag_elem', 'meta'])
    return evs


def _mutate(obj, ev, name):
    import astropy.units as u
    kind, f = ev
    if kind == 'assign':
        val = next(mk for (fld, mk) in change_values(name) if fld == f)()
        setattr(obj, f, val)
    elif kind == 'pix_attr':
        getattr(obj, f).x = 99.5
    elif kind == 'arr_inplace':
        p = getattr(obj, f)
        if not p.x.flags.writeable:
            p.x = np.array(p.x)
        p.x[0] = 99.5
    elif kind == 'q_inplace':
        q = getattr(obj, f)
        q[...] = 7.5 * q.unit
    elif kind == 'sub_meta':
        getattr(obj, f).meta['comment'] = 'touched'
    elif kind == 'sub_param':
        s = getattr(obj, f)
        if hasattr(s, 'radius'):
            s.radius = s.radius * 0 + (9.5 if not hasattr(s.radius, 'unit') else 9.5 * s.radius.unit)
        else:
            s.width = s.width * 0 + (9.5 if not hasattr(s.width, 'unit') else 9.5 * s.width.unit)
    elif kind == 'meta_set':
        d = getattr(obj, f)
        d['comment' if f == 'meta' else 'color'] = 'MUTATED'
    elif kind == 'tag_elem':
        obj.meta['tag'][0] = 'MUTATED'


def explore_copy(res, name, via, depth, run=True):
    muts = mutations(name)
    cv = change_values(name)

    def build():
        r = pool.make(name)
        if via == 'copy':
            c = r.copy()
        elif via == 'deepcopy':
            c = copy.deepcopy(r)
        else:       # copy with the first parameter changed
            c = r.copy(**{cv[0][0]: cv[0][1]()})
        return {'r': r, 'c': c}

    def events(st):
        return [[t] + m for t in ('c', 'r') for m in muts]

    def apply(st, ev):
        tgt = st[ev[0]]
        try:
            _mutate(tgt, ev[1:], name)
        except Exception as exc:
            return 'raise:' + type(exc).__name__ + ':' + str(exc)[:80]
        return 'ok'

    def canon(st):
        return [FP.digest(st['r']), FP.digest(st['c'])]

    def on_transition(hist, ev, kb, st, outcome, ka):
        import json
        res.transitions += 1
        res.evaluations += 1
        case = {'op': 'mutate', 'name': name, 'via': via, 'hist': [list(h) for h in hist], 'event': ev}
        b, a = json.loads(kb), json.loads(ka)
        other = 0 if ev[0] == 'c' else 1          # index of the object that must not change
        res.outcome(('mutate', ev[1], outcome.split(':')[0]))
        if outcome.startswith('raise'):
            # harness-level mutation failed (e.g. read-only buffer): nothing may have changed in the other object
            pass
        if a[other] != b[other]:
            who = 'original' if other == 0 else 'copy'
            res.violation(ID, 'mutation_leaks', case,
                          f'{name} via {via}: mutating the {"copy" if other == 0 else "original"} with {ev[1:]} changed the {who}',
                          b[other], a[other])
            return False
        # a copy taken NOW (of an object that has a history of assignments / in-place edits) is a copy of its current state
        tgt = st[ev[0]]
        res.transitions += 1
        try:
            c2 = tgt.copy()
            same = bool(c2 == tgt) and bool(tgt == c2) and all(FP.fp(getattr(c2, f)) == FP.fp(getattr(tgt, f)) for f in tgt._params) \
                and dict(c2.meta) == dict(tgt.meta) and dict(c2.visual) == dict(tgt.visual)
        except Exception as exc:      # noqa: BLE001
            if 'annulus' in name and 'must be greater than' in str(exc):
                # the harness' own edits made outer <= inner (accepted on assignment: the recorded C17 finding); the
                # constructor that copy() runs rejects that state -- not a matter of C16
                return True
            res.violation(ID, 'copy_raises', case, f'{name} via {via}: copy() after {[list(h) for h in hist] + [ev]} raised {type(exc).__name__}: {exc}')
            return False
        if not same:
            res.violation(ID, 'copy_differs', case, f'{name} via {via}: after {[list(h) for h in hist] + [ev]} a fresh copy() of the edited '
                                                    f'{"copy" if ev[0] == "c" else "original"} does not equal it: {c2!r} vs {tgt!r}')
            return False
        if a != b:
            res.nontriv(('mutate', name, via, json.dumps(ev), kb))
        return True

    ex = Explorer(build, events, apply, canon, on_transition=on_transition, max_depth=depth, max_states=50000)
    if not run:
        return ex
    ex.run()
    res.states += ex.states
    res.extra.setdefault('explorations', {})[f'{name}/{via}'] = ex.stats()
    return ex


# ----------------------------------------------------------- Regions lists ----
DERIVE = ['slice_all', 'slice_tail', 'slice_step', 'slice_rev', 'copy', 'slice_of_copy', 'slice_empty', 'slice_beyond']
# extend_other: extend with the OTHER list object itself (a Regions, not a plain list); extend_regions: with a fresh Regions
LIST_EVENTS = [['append'], ['extend'], ['insert0'], ['insert_mid'], ['pop'], ['pop0'], ['reverse'], ['extend_other'], ['extend_regions']]


def explore_lists(res, derive, depth, run=True):
    from regions import Regions

    def build():
        src = Regions([pool.make(n) for n in ('circle', 'sky_circle', 'polygon', 'text')])
        if derive == 'slice_all':
            d = src[:]
        elif derive == 'slice_tail':
            d = src[1:]
        elif derive == 'slice_step':
            d = src[::2]
        elif derive == 'slice_rev':
            d = src[::-1]
        elif derive == 'copy':
            d = src.copy()
        elif derive == 'slice_empty':
            d = src[0:0]
        elif derive == 'slice_beyond':
            d = src[4:]
        else:
            d = src.copy()[0:3]
        return {'src': src, 'd': d, 'src_list': src.regions, 'ids': [id(x) for x in src.regions]}

    def events(st):
        return [[t] + e for t in ('d', 'src') for e in LIST_EVENTS]

    def apply(st, ev):
        tgt = st[ev[0]]
        try:
            op = ev[1]
            if op == 'append':
                tgt.append(pool.make('ellipse'))
            elif op == 'extend':
                tgt.extend([pool.make('point'), pool.make('line')])
            elif op == 'extend_other':
                tgt.extend(st['src' if ev[0] == 'd' else 'd'])
            elif op == 'extend_regions':
                tgt.extend(Regions([pool.make('point'), pool.make('line')]))
            elif op == 'insert0':
                tgt.insert(0, pool.make('rectangle'))
            elif op == 'insert_mid':
                tgt.insert(1, pool.make('sky_point'))
            elif op == 'pop':
                if len(tgt):
                    tgt.pop()
            elif op == 'pop0':
                if len(tgt):
                    tgt.pop(0)
            elif op == 'reverse':
                tgt.reverse()
        except Exception as exc:
            return 'raise:' + type(exc).__name__
        return 'ok'

    def canon(st):
        return [[type(r).__name__ for r in st['src'].regions], [type(r).__name__ for r in st['d'].regions]]

    def on_transition(hist, ev, kb, st, outcome, ka):
        import json
        res.transitions += 1
        res.evaluations += 1
        case = {'op': 'list', 'derive': derive, 'hist': [list(h) for h in hist], 'event': ev}
        b, a = json.loads(kb), json.loads(ka)
        other = 0 if ev[0] == 'd' else 1
        res.outcome(('list', ev[1], outcome))
        if outcome != 'ok':
            res.violation(ID, 'list_op_raises', case, f'{ev} on a {derive} list raised {outcome}')
            return False
        if a[other] != b[other]:
            res.violation(ID, 'list_edit_leaks', case, f'{derive}: {ev[1]} on the {"derived" if other == 0 else "source"} list changed the other list',
                          b[other], a[other])
            return False
        if st['src'].regions is st['d'].regions:
            res.violation(ID, 'list_edit_leaks', case, f'{derive}: derived list object is the source list object')
            return False
        if a != b:
            res.nontriv(('list', derive, json.dumps(ev), kb))
        return True

    ex = Explorer(build, events, apply, canon, on_transition=on_transition, max_depth=depth, max_states=200000)
    if not run:
        return ex
    ex.run()
    res.states += ex.states
    res.extra.setdefault('explorations', {})[f'list/{derive}'] = ex.stats()
    # element identity semantics and types
    st = build()
    d = st['d']
    res.transitions += 1
    if type(d) is not type(st['src']):
        res.violation(ID, 'list_wrong_type', {'op': 'list_type', 'derive': derive}, f'{derive} gives a {type(d).__name__}')
    return ex


# ------------------------------------------------------------------ driver --
def shards(tier, seed):
    out = []
    for n in NAMES:
        out.append({'kind': 'matrix', 'name': n})
    out.append({'kind': 'cross'})
    depth = 2 if tier == 'quick' else 3
    for n in NAMES:
        for via in ('copy', 'deepcopy', 'copy_changes'):
            out.append({'kind': 'mutate', 'name': n, 'via': via, 'depth': depth})
    for d in DERIVE:
        out.append({'kind': 'lists', 'derive': d, 'depth': 3 if tier == 'quick' else 4})
    return out


def run_shard(shard, tier, seed):
    res = Result()
    k = shard['kind']
    if k == 'matrix':
        n = shard['name']
        res.states += 1
        check_basic(res, n)
        res.states += 1
        check_shared_keys(res, n)
        res.states += 1
        check_pix_tolerance(res, n)
        for p in perturbations(n):
            res.states += 1
            check_perturbation(res, n, p[0])
        for i in range(len(change_values(n))):
            res.states += 1
            check_copy_changes(res, n, i)
        res.sample({'op': 'perturb', 'name': n, 'labels': [p[0] for p in perturbations(n)][:8]})
    elif k == 'cross':
        for a in NAMES:
            for b in NAMES:
                res.states += 1
                check_cross(res, a, b)
        res.sample({'op': 'cross', 'a': NAMES[0], 'b': NAMES[-1]})
    elif k == 'mutate':
        explore_copy(res, shard['name'], shard['via'], shard['depth'])
        res.caps.clear()
        res.sample({'op': 'mutate', 'name': shard['name'], 'via': shard['via'], 'events': mutations(shard['name'])[:5]})
    elif k == 'lists':
        explore_lists(res, shard['derive'], shard['depth'])
        res.sample({'op': 'list', 'derive': shard['derive'], 'events': LIST_EVENTS})
    return res


def replay(case):
    res = Result()
    op = case['op']
    if op == 'perturb':
        check_perturbation(res, case['name'], case['label'])
    elif op == 'basic':
        check_basic(res, case['name'])
    elif op == 'shared_keys':
        check_shared_keys(res, case['name'])
    elif op == 'pixtol':
        check_pix_tolerance(res, case['name'], case['scale'], case['rel'])
    elif op == 'cross':
        if case['b'] in NAMES:
            check_cross(res, case['a'], case['b'])
        else:
            check_cross(res, case['a'], case['a'])
    elif op == 'copy_changes':
        check_copy_changes(res, case['name'], case['idx'])
    elif op == 'mutate':
        ex = explore_copy(res, case['name'], case['via'], None, run=False)
        ex.replay_one(case['hist'], case['event'])
    elif op in ('list', 'list_type'):
        ex = explore_lists(res, case['derive'], None, run=False)
        if op == 'list':
            ex.replay_one(case['hist'], case['event'])
    return res
