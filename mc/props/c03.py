"""C03 -- exact masks give the true pixel-region overlap area; subpixel masks converge to it.

Engine E2 (bounded-exhaustive lattice, no sampling).  Two parts.

Part A ('exact').  For every configuration (circle r | ellipse rx, ry, theta) x centre phase the
real code is run twice -- ``region.to_mask('exact')`` and the compiled kernel entry point
(``circular_overlap_grid`` / ``elliptical_overlap_grid``) called directly on the reference bounding
box plus a 2-pixel rim -- and EVERY pixel value is compared with the reference overlap of
``mc.oracles.polyarea`` (Green's-theorem polygon ∩ unit-disk area in the frame where the ellipse is
the unit disk; a different algorithm from both kernels).  Demanded per pixel: value finite; in
[-1e-12, 1+1e-12]; |value - reference| <= 1e-8; pixels the reference classifies geometrically as
fully covered / fully uncovered with more than 1e-6 pixel of clearance are 1 / 0 to within 1e-12
("exactly" is read as one-ulp-robust); and per mask  sum == pi r^2 | pi rx ry  within
1e-8 * max(1, area) (the region's own bounding box always contains the shape; the kernel grid
contains it by construction).  Shapes with a semi-axis of 1000 pixels are checked through the kernel
on 6x6 pixel windows placed on 32 boundary points (all centre phases) and, in the thorough tier,
through ``to_mask`` on whole 10^6-pixel grids for four configurations.

Part B ('convergence').  For circles, ellipses, rectangles and polygons (catalogue incl. concave,
self-intersecting, repeated and collinear vertices) at generic phases, ``to_mask('subpixels', n)``
for n in {1,2,4,8,16,32,64}: every pixel must satisfy
|mask - true overlap| <= 4 (L + max(k,1)/n)/n  where L is the length of the shape's boundary inside
the pixel and k its number of pieces: a curve piece of length l meets at most 4 (l n + 1) sub-cells
of side 1/n and only those sub-cells can be sampled wrongly.  (The statement says "bounded by the
boundary length crossing the pixel over n"; the rigorous constant is used so that nothing more than
the statement is demanded.)  True overlap: polyarea Green oracle (circle, ellipse), exact rational
even-odd slab decomposition of polygon ∩ pixel (rectangle, polygon).  L: exact edge clipping
(rectangle, polygon; k = number of edge pieces), min(4, perimeter bound, max(rx,ry) * arc angle
inside the pixel) with k = 4 (circle, ellipse: a convex curve inside a unit square is at most 4 long
and a circle/ellipse meets a pixel in at most 4 arcs).

Violations are reported ONE per (configuration, via, kind) with the list of offending pixels in
``observed``; each offending pixel is attributed to exactly one kind (not finite > value wrong >
out of range > full pixel not exact) and the sum is only judged when no pixel of that mask failed
(it is stated as a consequence).

VERIF_SEED selects which one of the four vetted generic phases the quick tier uses; the thorough
tier uses all four.  Nothing is random.
"""
import math

import numpy as np

from mc.result import Result
from mc import catalog as K
from mc.oracles import polyarea as PA

ID = 'C03'
LEVEL = 'model_checking'
ENGINE = 'E2-lattice'
FILES = ['regions/_geometry/core.pyx', 'regions/_geometry/circular_overlap.pyx',
         'regions/_geometry/elliptical_overlap.pyx', 'regions/_geometry/rectangular_overlap.pyx',
         'regions/_geometry/polygonal_overlap.pyx', 'regions/shapes/circle.py', 'regions/shapes/ellipse.py',
         'regions/shapes/rectangle.py', 'regions/shapes/polygon.py']
RULE = ("part A: full product of {circle r; ellipse (rx, ry) with ratio <= 100 x theta} x centre phase "
        "(generic table + nice table {0,1/4,1/2,3/4}^2), each run through to_mask('exact') and through the kernel "
        "entry point on the reference bounding box + 2-pixel rim (semi-axis 1000: kernel on 6x6 windows at 32 "
        "boundary points; whole grids through to_mask for 4 configurations in the thorough tier); one evaluation = "
        "one pixel value compared with the reference (Green's theorem on every pixel for semi-axes <= 10.5 and in the "
        "windows; for semi-axes >= 64 on every pixel within 1e-6 of the boundary, the others being 1/0 by the geometric "
        "corner/nearest-point classification of the convex shape); a pixel is non-trivial when the boundary cuts "
        "it (not all corners inside and nearest point not outside, 0 < reference < 1), counted once per "
        "(configuration, ix, iy).  part B: circle/ellipse/rectangle/polygon configurations x generic phase x "
        "n in {1,2,4,8,16,32,64}, every pixel of every subpixel mask against the true overlap with the bound "
        "4(L + max(k,1)/n)/n; non-trivial = pixel cut by the boundary (L > 0)")
BOUNDS = {
    'quick': 'r, rx, ry in {2^-10, 2^-6, 1/4, 1/2, 0.73, 1, 1.5, 2.5, 3.65, 8, 10.5, 64, 1000}, ratios <= 100 '
             '(115 ordered pairs), theta in {0, pi/6, pi/4, pi/2, 1.0, -0.3, atan(3/4), 2.5}; phases: one generic '
             '(VERIF_SEED mod 4) + all 16 nice for semi-axes <= 10.5 and for 1000 (windows), one generic + 4 nice for '
             'semi-axis 64; convergence: 4 circles, 4 ellipses, 5 rectangles, 7 polygons x 2 scales, one generic phase',
    'thorough': 'same sizes/angles; all 4 generic + all 16 nice phases for every shape; 4 whole-grid to_mask runs with a '
                'semi-axis of 1000; convergence: 7 circles, 8 ellipses, 9 rectangles, 7 polygons x 3 scales, 4 generic phases',
}
ASSUMPTIONS = ['numpy elementwise arithmetic (float64 and x87 extended precision) is trusted (the oracle is vectorised); '
               'the oracle is validated against closed forms by polyarea.selftest() in every worker',
               'reference accuracy: <= 1e-13 for semi-axes <= 10.5; semi-axes >= 64 are evaluated in extended '
               'precision (float64 Green sums lose ~1.4e-10 at r = 1000)',
               "'exactly 1/0' is demanded to 1e-12 and only for pixels farther than 1e-6 pixel from the boundary",
               'polygon/rectangle true overlaps are exact rationals of the float vertices (even-odd rule, slab '
               'decomposition, cross-checked against Sutherland-Hodgman for simple polygons in the self-test)',
               'compiled overlap kernels are checked as built (Cython sources cannot be rebuilt in the sandbox)']

TOL = 1e-8          # |value - reference|
EPS = 1e-12         # range slack and "exactly 1/0"
MARGIN = 1e-6       # clearance (pixels) for the robust fully-in / fully-out classification
RIM = 2
MAXOBS = 40         # offending pixels listed per violation (all are counted)

SIZES = [2.0 ** -10, 2.0 ** -6, 0.25, 0.5, 0.73, 1.0, 1.5, 2.5, 3.65, 8.0, 10.5, 64.0, 1000.0]
ANGLES = [0.0, math.pi / 6, math.pi / 4, math.pi / 2, 1.0, -0.3, math.atan(3.0 / 4.0), 2.5]
GENERIC = [(0.137, 0.291), (0.4831, -0.2719), (-0.3127, 0.0713), (0.2237, 0.4561)]
NICE = [(a, b) for a in (0.0, 0.25, 0.5, 0.75) for b in (0.0, 0.25, 0.5, 0.75)]
NICE_MID_QUICK = [(0.0, 0.0), (0.5, 0.5), (0.5, 0.0), (0.25, 0.75)]
NS = [1, 2, 4, 8, 16, 32, 64]
NWIN, WIN = 32, 6

_LD = np.longdouble if np.finfo(np.longdouble).eps < 1e-18 else np.float64


# ------------------------------------------------------------------ lattice --
def _pairs():
    out = []
    for rx in SIZES:
        for ry in SIZES:
            if max(rx, ry) / min(rx, ry) <= 100.0:
                out.append((rx, ry))
    return out


def _phases(tier, seed, rmax):
    g = [GENERIC[int(seed) % 4]] if tier == 'quick' else list(GENERIC)
    if tier == 'quick' and rmax == 64.0:
        n = NICE_MID_QUICK
    else:
        n = NICE
    return [('generic', p) for p in g] + [('nice', p) for p in n]


def configs(tier, seed):
    out = []
    for r in SIZES:
        for pt, p in _phases(tier, seed, r):
            out.append({'part': 'exact', 'shape': 'circle', 'r': r, 'phase': list(p), 'ptype': pt,
                        'mode': 'window' if r >= 1000.0 else 'grid'})
    for rx, ry in _pairs():
        rmax = max(rx, ry)
        for th in ANGLES:
            for pt, p in _phases(tier, seed, rmax):
                out.append({'part': 'exact', 'shape': 'ellipse', 'rx': rx, 'ry': ry, 'theta': th, 'phase': list(p),
                            'ptype': pt, 'mode': 'window' if rmax >= 1000.0 else 'grid'})
    # nearly round ellipses (axes differing by 1e-7 .. 1e-4 relative): a shortcut that treats "almost equal" axes as
    # a circle would be invisible on exactly round and on clearly elongated ellipses
    for rx in (1.5, 10.5, 15.0):
        for eps in (2e-7, 9e-6, 1e-4):
            for (a, b) in ((rx, rx * (1 + eps)), (rx * (1 + eps), rx)):
                for th in (0.0, math.pi / 6, 1.0):
                    for pt, p in _phases(tier, seed, 64.0)[:3]:
                        out.append({'part': 'exact', 'shape': 'ellipse', 'rx': a, 'ry': b, 'theta': th, 'phase': list(p),
                                    'ptype': pt, 'mode': 'grid'})
    # an extreme a few millionths of a pixel beyond a pixel edge: the grazed row / column belongs to the mask (its weight is tiny, not zero)
    for r in (2.5 + 2.0 ** -18, 10.5 + 2.0 ** -19, 0.5 + 2.0 ** -20):
        for p in ((0.0, 0.0), (3.0, -2.0)):
            out.append({'part': 'exact', 'shape': 'circle', 'r': r, 'phase': list(p), 'ptype': 'generic', 'mode': 'grid'})
            out.append({'part': 'exact', 'shape': 'ellipse', 'rx': r, 'ry': 0.75 * r, 'theta': 0.0, 'phase': list(p), 'ptype': 'generic', 'mode': 'grid'})
    # one mask of several million pixels in every tier (storage type and per-pixel values of a large mask)
    out.append({'part': 'exact', 'mode': 'biggrid', 'shape': 'circle', 'r': 800.5, 'phase': list(GENERIC[int(seed) % 4]), 'ptype': 'generic'})
    # large and thin (the mask is several hundred pixels long): through to_mask on the whole box, also in the quick tier
    for rx, ry, th in ((200.0, 6.25, 0.4), (6.25, 200.0, 0.0), (150.0, 2.5, math.pi / 6)):
        out.append({'part': 'exact', 'shape': 'ellipse', 'rx': rx, 'ry': ry, 'theta': th, 'phase': list(GENERIC[int(seed) % 4]),
                    'ptype': 'generic', 'mode': 'grid'})
    if tier == 'thorough':
        big = [{'shape': 'circle', 'r': 1000.0, 'phase': list(GENERIC[0]), 'ptype': 'generic'},
               {'shape': 'ellipse', 'rx': 1000.0, 'ry': 1000.0, 'theta': 1.0, 'phase': [0.5, 0.5], 'ptype': 'nice'},
               {'shape': 'ellipse', 'rx': 1000.0, 'ry': 64.0, 'theta': math.pi / 6, 'phase': list(GENERIC[1]), 'ptype': 'generic'},
               {'shape': 'ellipse', 'rx': 10.5, 'ry': 1000.0, 'theta': 2.5, 'phase': list(GENERIC[2]), 'ptype': 'generic'}]
        for b in big:
            out.append({'part': 'exact', 'mode': 'biggrid', **b})
    # the exact mask as it arrives on an image (to_image): non-square images, the shape beyond the shorter dimension
    for centre, image in (((42.3, 12.6), (30, 60)), ((12.6, 45.3), (60, 30)), ((10.4, 9.7), (25, 25)), ((58.9, 3.2), (8, 64)),
                          ((-1.3, 20.6), (40, 12)), ((3.3, 36.1), (40, 12))):
        out.append({'part': 'on_image', 'shape': 'circle', 'r': 2.5, 'phase': list(centre), 'image': list(image), 'ptype': 'image'})
        out.append({'part': 'on_image', 'shape': 'ellipse', 'rx': 3.65, 'ry': 1.5, 'theta': 1.0, 'phase': list(centre), 'image': list(image),
                    'ptype': 'image'})
    out.extend(conv_configs(tier, seed))
    # the shape sits anywhere on the grid: generic centre phases are moved by whole pixels into all four quadrants (by a hash
    # of the configuration); the 'nice' phases stay where they are, so that the recorded kernel inputs remain bit-identical
    import zlib
    for c in out:
        if c.get('ptype', 'generic') == 'generic' and c.get('mode', 'grid') in ('grid', 'window'):
            h = zlib.crc32(repr(sorted((k, repr(v)) for k, v in c.items())).encode()) % 4
            ox, oy = [(0, 0), (-7, 3), (5, -11), (-4, -6)][h]
            c['phase'] = [c['phase'][0] + ox, c['phase'][1] + oy]
    for i, c in enumerate(out):
        c['idx'] = i
    return out


def conv_configs(tier, seed):
    big = tier == 'thorough'
    G = list(GENERIC) if big else [GENERIC[int(seed) % 4]]
    at = math.atan(3.0 / 4.0)
    circ = [0.25, 0.73, 2.5, 10.5] + ([2.0 ** -6, 0.5, 1.5] if big else [])
    ell = [(0.5, 0.25, math.pi / 6), (2.5, 0.73, 1.0), (3.65, 1.5, -0.3), (10.5, 0.25, at)]
    rect = [(1.0, 0.5, math.pi / 6), (5.0, 1.46, 1.0), (7.3, 3.0, -0.3), (21.0, 0.5, at), (3.0, 2.0, 0.0), (4.0, 1.0, 2.0),
            (4.0, 1.5, -2.0),
            # whole quarter turns of both signs (sides along the pixel axes, width and height exchanged for the odd ones)
            (5.0, 1.46, -math.pi / 2), (3.0, 2.0, -1.5 * math.pi), (4.0, 1.0, math.pi / 2), (7.3, 3.0, -math.pi), (4.0, 1.5, 1.5 * math.pi)]
    if big:
        ell += [(1.0, 1.0, math.pi / 4), (0.73, 2.5, 2.5), (8.0, 0.5, math.pi / 2), (2.0 ** -6, 0.25, 1.0)]
        rect += [(2.0, 2.0, math.pi / 4), (1.46, 5.0, 2.5), (16.0, 1.0, math.pi / 2), (2.0 ** -5, 0.5, 1.0)]
    scales = [1.0, 2.5, 0.75] if big else [1.0, 2.5]
    out = []
    for p in G:
        for r in circ:
            out.append({'part': 'convergence', 'shape': 'circle', 'r': r, 'phase': list(p)})
        for rx, ry, th in ell:
            out.append({'part': 'convergence', 'shape': 'ellipse', 'rx': rx, 'ry': ry, 'theta': th, 'phase': list(p)})
        for w, h, th in rect:
            out.append({'part': 'convergence', 'shape': 'rectangle', 'width': w, 'height': h, 'theta': th, 'phase': list(p)})
        for name in K.POLYS:
            for s in scales:
                out.append({'part': 'convergence', 'shape': 'polygon', 'name': name, 'scale': s, 'phase': list(p)})
    return out


# ------------------------------------------------------------------ helpers --
def _params(cfg):
    if cfg['shape'] == 'circle':
        return float(cfg['r']), float(cfg['r']), 0.0
    return float(cfg['rx']), float(cfg['ry']), float(cfg['theta'])


def _case(cfg, via):
    keys = ('shape', 'r', 'rx', 'ry', 'theta', 'phase', 'image')
    c = {k: cfg[k] for k in keys if k in cfg}
    c['via'] = via
    return c


def _build(cfg):
    """The real region; ellipse angles are given in degrees (the unit conversion is part of the path)."""
    import astropy.units as u
    from regions import PixCoord, CirclePixelRegion, EllipsePixelRegion, RectanglePixelRegion, PolygonPixelRegion
    cx, cy = cfg['phase']
    s = cfg['shape']
    if s in ('circle', 'ellipse'):
        # construction route (deterministic in the configuration): fresh | built elsewhere, used, then the centre
        # object modified in place | built with other sizes, used, then sizes and centre re-assigned
        import zlib
        route0 = zlib.crc32(repr(sorted((k, cfg[k]) for k in ('shape', 'r', 'rx', 'ry', 'theta', 'phase') if k in cfg)).encode())
        route = route0 % 6
        c0 = PixCoord(cx, cy) if route > 1 else PixCoord(cx + 3.25, cy - 1.5)
        f = 1.0 if route != 1 else 1.75
        # masks describe the shape whatever the include flag says (to_mask never looks at it): a third of the
        # configurations are exclusion regions, another third spell it 0
        meta = [None, {'include': False}, {'include': 0}][(route0 // 24) % 3]
        if s == 'circle':
            reg = CirclePixelRegion(c0, cfg['r'] * f, meta=meta)
        else:
            # the angle is handed over in degrees, radians, arcminutes or arcseconds (by configuration hash);
            # the conversion from radians costs at most a few ulp, far below the 1e-8 tolerance
            ang = [math.degrees(cfg['theta']) * u.deg, cfg['theta'] * u.rad, (math.degrees(cfg['theta']) * 60.0) * u.arcmin,
                   (math.degrees(cfg['theta']) * 3600.0) * u.arcsec][(route0 // 6) % 4 if cfg.get('ptype') == 'generic' else 0]
            # ('nice' phases keep degrees: the listed kernel defects sit exactly on pixel corners/edges and move with
            # every ulp of theta, so the known-finding inputs must be reproduced bit for bit)
            reg = EllipsePixelRegion(c0, 2.0 * cfg['rx'] * f, 2.0 * cfg['ry'] * f, angle=ang, meta=meta)
        if route <= 1 and max(cfg.get('r', 0), cfg.get('rx', 0), cfg.get('ry', 0)) <= 64.0:
            reg.bounding_box
            reg.to_mask('center')
        if route == 0:
            reg.center.x, reg.center.y = cx, cy
        elif route == 1:
            reg.center = PixCoord(cx, cy)
            if s == 'circle':
                reg.radius = cfg['r']
            else:
                reg.width, reg.height = 2.0 * cfg['rx'], 2.0 * cfg['ry']
        return reg
    if s == 'rectangle':
        return RectanglePixelRegion(PixCoord(cx, cy), cfg['width'], cfg['height'],
                                    angle=math.degrees(cfg['theta']) * u.deg)
    vx, vy = _poly_vertices(cfg)
    vx, vy = np.array(vx, float), np.array(vy, float)
    # construction route of the polygon (by configuration hash): absolute vertices | vertices relative to an `origin=` |
    # built with other vertices, used, then the vertices re-assigned
    import zlib
    route = zlib.crc32(repr((cfg['name'], cfg['scale'], cfg['phase'])).encode()) % 3
    if route == 1:
        ox, oy = 12.5, -7.25
        return PolygonPixelRegion(PixCoord(vx - ox, vy - oy), origin=PixCoord(ox, oy))
    if route == 2:
        reg = PolygonPixelRegion(PixCoord(vx * 1.5 + 3.0, vy * 0.75 - 2.0))
        reg.to_mask('center')
        reg.bounding_box
        reg.vertices = PixCoord(vx, vy)
        return reg
    return PolygonPixelRegion(PixCoord(vx, vy))


def _poly_vertices(cfg):
    xs, ys = K.POLYS[cfg['name']]
    s = cfg['scale']
    cx, cy = cfg['phase']
    return [cx + s * v for v in xs], [cy + s * v for v in ys]


def _ref_box(cx, cy, rx, ry, theta, rim=0):
    ex, ey = PA.ellipse_extent(rx, ry, theta)
    return (math.floor(cx - ex + 0.5) - rim, math.ceil(cx + ex + 0.5) + rim,
            math.floor(cy - ey + 0.5) - rim, math.ceil(cy + ey + 0.5) + rim)


def _oracle(cfg, ix0, iy0, nx, ny, full=True):
    rx, ry, th = _params(cfg)
    cx, cy = cfg['phase']
    dt = _LD if max(rx, ry) >= 64.0 else np.float64
    return PA.ellipse_pixels(cx, cy, rx, ry, th, ix0, iy0, nx, ny, margin=MARGIN, full=full, dtype=dt)


def _fl(v):
    v = float(v)
    return v if math.isfinite(v) else repr(v)


class _Track:
    """Per-shard maxima (Result.merge adds numbers, so maxima travel under per-shard keys and are reduced in
    finalize)."""

    def __init__(self):
        self.m = {}

    def up(self, key, v):
        v = float(v)
        if v > self.m.get(key, -1.0):
            self.m[key] = v

    def store(self, res, sid):
        for k, v in self.m.items():
            res.extra[f'max:{k}@{sid}'] = v


# ------------------------------------------------------------- part A: exact --
def _judge(res, trk, cfg, via, data, po, ix0, iy0, do_sum, count_nt=True, index=None):
    """Compare one array of pixel values with the reference (same shape); one violation per kind."""
    case = _case(cfg, via)
    shape = cfg['shape']
    v = np.asarray(data, float)
    ref, cls, robust = po.ref, po.cls, po.robust
    res.transitions += 1
    res.evaluations += int(v.size)
    ncut = int((cls == 0).sum())
    res.outcomes[str((shape, via, 'cut'))] += ncut
    res.outcomes[str((shape, via, 'in'))] += int((cls == 1).sum())
    res.outcomes[str((shape, via, 'out'))] += int((cls == -1).sum())

    def pix(j, i):              # image pixel of array cell [j, i] (``index``: explicit pixel lists)
        if index is not None:
            return int(index[0][j, i]), int(index[1][j, i])
        return ix0 + int(i), iy0 + int(j)
    res.extra['pixels_cut'] = res.extra.get('pixels_cut', 0) + ncut
    res.extra['pixels_robust_full'] = res.extra.get('pixels_robust_full', 0) + int(robust.sum())
    if count_nt and ncut:
        jj, ii = np.nonzero(cls == 0)
        idx = cfg.get('idx', 0)
        if index is None:
            for j, i in zip(jj.tolist(), ii.tolist()):
                res.nontrivial.add(f'{idx}:{ix0 + i}:{iy0 + j}')
        else:
            for j, i in zip(jj.tolist(), ii.tolist()):
                res.nontrivial.add('%d:%d:%d' % ((idx,) + pix(j, i)))
    fin = np.isfinite(v)
    with np.errstate(invalid='ignore'):
        err = np.abs(v - ref)
        bad_nf = ~fin
        bad_val = fin & (err > TOL)
        rest = fin & ~bad_val
        bad_rng = rest & ((v < -EPS) | (v > 1.0 + EPS))
        full = np.where(cls == 1, 1.0, 0.0)
        bad_full = rest & ~bad_rng & robust & (np.abs(v - full) > EPS)
    if fin.any():
        e = float(err[fin].max())
        trk.up(f'abs_err_{shape}_{cfg.get("ptype", "generic")}', e)
        ok = fin & ~bad_val
        if ok.any():
            trk.up('abs_err_conforming', float(err[ok].max()))
        rb = fin & robust
        if rb.any():
            trk.up('full_pixel_dev', float(np.abs(v - full)[rb].max()))

    def listing(mask):
        jj, ii = np.nonzero(mask)
        return [list(pix(j, i)) + [_fl(v[j, i]), float(ref[j, i])] for j, i in list(zip(jj, ii))[:MAXOBS]]

    found = []
    for kind, mask, what, exp in (
            ('exact_not_finite', bad_nf, 'are not finite', 'finite values'),
            ('exact_value_wrong', bad_val, f'differ from the true overlap area by more than {TOL:g}', f'|value - reference| <= {TOL:g}'),
            ('exact_out_of_range', bad_rng, 'lie outside [0, 1]', 'values in [0, 1]'),
            ('exact_full_pixel_not_exact', bad_full, 'are fully covered/uncovered (clearance > 1e-6) but not 1/0 to 1e-12', 'exactly 1 / 0')):
        n = int(mask.sum())
        if not n:
            continue
        obs = listing(mask)
        f = obs[0]
        worst = float(err[mask & fin].max()) if (mask & fin).any() else None
        found.append({'kind': kind, 'n_bad': n, 'pixels': obs, 'expected': exp, 'worst': worst,
                      'message': f'{shape} {_desc(cfg)} via {via}: {n} of {v.size} pixel values {what}; first pixel '
                                 f'(ix={f[0]}, iy={f[1]}): value {f[2]!r}, reference {f[3]!r}'
                                 + (f'; largest deviation {worst:.3e}' if worst is not None else '')})
    if do_sum and not found:
        rx, ry, _ = _params(cfg)
        area = math.pi * rx * ry
        tot = float(v.sum())
        trk.up('sum_rel_err', abs(tot - area) / max(1.0, area))
        if not abs(tot - area) <= TOL * max(1.0, area):
            found.append({'kind': 'exact_sum_wrong', 'sum': tot, 'expected': area,
                          'message': f'{shape} {_desc(cfg)} via {via}: mask sums to {tot!r}, analytic area {area!r}'})
    _report(res, case, found)
    return found


def _report(res, case, found):
    for f in found:
        if f['kind'] == 'exact_sum_wrong':
            res.violation(ID, f['kind'], case, f['message'], f['expected'], f['sum'])
        else:
            res.violation(ID, f['kind'], case, f['message'], f['expected'], {'n_bad': f['n_bad'], 'pixels': f['pixels']})


def _desc(cfg):
    if cfg['shape'] == 'circle':
        return f"r={cfg['r']!r} centre={tuple(cfg['phase'])!r}"
    if cfg['shape'] == 'ellipse':
        return f"rx={cfg['rx']!r} ry={cfg['ry']!r} theta={cfg['theta']!r} centre={tuple(cfg['phase'])!r}"
    return repr({k: cfg[k] for k in cfg if k not in ('idx', 'part')})


def _kernel_call(cfg, ix0, ix1, iy0, iy1):
    from regions._geometry import circular_overlap_grid, elliptical_overlap_grid
    cx, cy = cfg['phase']
    xmin, xmax = float(ix0) - 0.5 - cx, float(ix1) - 0.5 - cx
    ymin, ymax = float(iy0) - 0.5 - cy, float(iy1) - 0.5 - cy
    nx, ny = ix1 - ix0, iy1 - iy0
    if cfg['shape'] == 'circle':
        return circular_overlap_grid(xmin, xmax, ymin, ymax, nx, ny, cfg['r'], 1, 1)
    return elliptical_overlap_grid(xmin, xmax, ymin, ymax, nx, ny, cfg['rx'], cfg['ry'], cfg['theta'], 1, 1)


def _mask_arrays(res, case, m):
    """(data, ix0, iy0) of a RegionMask, or None after reporting a structural violation."""
    data = np.asarray(m.data)
    bb = m.bbox
    want = (int(bb.iymax) - int(bb.iymin), int(bb.ixmax) - int(bb.ixmin))
    if data.ndim != 2 or tuple(data.shape) != want:
        res.violation(ID, 'mask_shape', case, f'mask data shape {tuple(data.shape)} but its bbox has shape {want}',
                      list(want), list(data.shape))
        return None
    if data.dtype != np.float64:
        res.violation(ID, 'mask_dtype', case, f'the exact / subpixel mask holds {data.dtype} values, overlap fractions are double precision everywhere else',
                      'float64', str(data.dtype))
    return data, int(bb.ixmin), int(bb.iymin)


def _use_mask(m):
    """What a caller does with a mask (values under a bad-pixel mask, weighted cutout, image): none of it may change
    the mask.  Exceptions are C05's business."""
    try:
        bb = m.bbox
        ny, nx = max(int(bb.iymax) + 2, 4), max(int(bb.ixmax) + 2, 4)
        if ny * nx > 250000:
            return
        img = np.arange(ny * nx, dtype=float).reshape(ny, nx) + 1.0
        bad = (np.add.outer(np.arange(ny), np.arange(nx)) % 3) == 0
        m.get_values(img, mask=bad)
        m.get_values(img)
        m.multiply(img, fill_value=-3.0)
        m.cutout(img, fill_value=5.0)
        m.to_image((ny, nx))
    except Exception:          # noqa: BLE001
        pass


def check_on_image(res, trk, cfg):
    """The exact mask placed on an image of the given (ny, nx) shape: every image pixel holds the true overlap area."""
    ny, nx = cfg['image']
    res.states += 1
    res.axis('shape', cfg['shape'])
    res.axis('via', 'to_image')
    res.axis('image_shape', f'{ny}x{nx}')
    case = _case(cfg, 'to_image')
    try:
        m = _build(cfg).to_mask(mode='exact')
        # the image handed out is the caller's: normalised in place by its owner, then asked for again
        first = m.to_image((ny, nx))
        if first is not None and first.flags.writeable:
            first *= 0.5
            first += 3.0
        img = m.to_image((ny, nx))
    except Exception as exc:          # noqa: BLE001
        res.violation(ID, 'unexpected_exception', case, f"to_mask('exact').to_image({(ny, nx)}) raised {type(exc).__name__}: {exc}")
        return
    if not cfg.get('_cover'):
        # the same shape moved by whole pixels so that its box starts at pixel (0, 0), on an image that is exactly that box
        try:
            bb = m.bbox
            c2 = dict(cfg, phase=[cfg['phase'][0] - bb.ixmin, cfg['phase'][1] - bb.iymin], image=[int(bb.shape[0]), int(bb.shape[1])], _cover=True)
        except Exception:      # noqa: BLE001
            c2 = None
        if c2 is not None and c2['image'][0] > 0 and c2['image'][1] > 0:
            check_on_image(res, trk, c2)
    po = _oracle(cfg, 0, 0, nx, ny, full=True)
    if img is None:
        if float(np.max(po.ref)) > TOL:
            res.violation(ID, 'exact_value_wrong', case, f'{_desc(cfg)}: to_image({(ny, nx)}) returned None although the shape covers image pixels '
                                                         f'(largest true overlap {float(np.max(po.ref))!r})', 'an image', None)
        return
    img = np.asarray(img, float)
    if img.shape != (ny, nx):
        res.violation(ID, 'mask_shape', case, f'to_image({(ny, nx)}) has shape {img.shape}')
        return
    _judge(res, trk, cfg, 'to_image', img, po, 0, 0, do_sum=False)


def _exact_kwargs(cfg):
    import json
    import zlib
    h = zlib.crc32(json.dumps({k: cfg[k] for k in ('shape', 'r', 'rx', 'ry', 'theta', 'phase') if k in cfg}, sort_keys=True, default=str).encode()) % 4
    return [{}, {'subpixels': 1}, {'subpixels': 3}, {'subpixels': 50}][h]


def _exact_spelling(cfg):
    import json
    import zlib
    if max(cfg.get('r', 0), cfg.get('rx', 0), cfg.get('ry', 0)) > 10.5:
        return 'exact'
    h = zlib.crc32(json.dumps({k: cfg[k] for k in ('shape', 'r', 'rx', 'ry', 'theta', 'phase') if k in cfg}, sort_keys=True, default=str).encode()) // 4 % 8
    return {0: 'Exact', 1: 'EXACT'}.get(h, 'exact')


def check_exact(res, trk, cfg, vias=('to_mask', 'kernel')):
    rx, ry, th = _params(cfg)
    cx, cy = cfg['phase']
    shape = cfg['shape']
    res.states += 1
    res.axis('shape', shape)
    res.axis('rx', rx)
    res.axis('ry', ry)
    res.axis('theta', th)
    res.axis('phase', f"{cfg.get('ptype', '?')}:{cx!r},{cy!r}")
    res.axis('mode', cfg.get('mode', 'grid'))
    mode = cfg.get('mode', 'grid')
    if mode == 'window':
        if 'kernel_window' in vias or 'kernel' in vias:
            _check_windows(res, trk, cfg)
        return
    if mode == 'biggrid':
        _check_biggrid(res, trk, cfg)
        return
    kb = _ref_box(cx, cy, rx, ry, th, RIM)
    # semi-axes >= 64: Green's theorem only where the geometric classification is not robust (elsewhere the
    # reference is 1 / 0 by convexity); smaller shapes: Green's theorem on every pixel
    po = _oracle(cfg, kb[0], kb[2], kb[1] - kb[0], kb[3] - kb[2], full=max(rx, ry) < 64.0)
    if 'kernel' in vias:
        res.axis('via', 'kernel')
        try:
            data = _kernel_call(cfg, *kb)
        except Exception as exc:
            res.violation(ID, 'unexpected_exception', _case(cfg, 'kernel'), f'kernel raised {type(exc).__name__}: {exc}')
            data = None
        if data is not None:
            _judge(res, trk, cfg, 'kernel', data, po, kb[0], kb[2], do_sum=True)
    if 'to_mask' in vias:
        res.axis('via', 'to_mask')
        try:
            if max(cfg.get('r', 0), cfg.get('rx', 0), cfg.get('ry', 0)) <= 10.5:
                # an earlier mask of the same geometry, scribbled on by its owner, must not show in a later one
                # (masks are the caller's own arrays)
                m0 = _build(cfg).to_mask(mode='exact')
                if m0.data.flags.writeable:
                    m0.data[...] = -7.0
            # the exact mode has no sampling parameter: whatever ``subpixels`` the caller also passes (by a hash of
            # the configuration: nothing, 1, 3 or 50) the mask holds the exact overlap areas
            kw = _exact_kwargs(cfg)
            res.axis('exact_call_subpixels', str(kw.get('subpixels', 'default')))
            m = None
            spell = _exact_spelling(cfg)
            if spell != 'exact':
                # a mode name in another letter case is either refused (ValueError) or means the exact mode
                try:
                    m = _build(cfg).to_mask(mode=spell, **kw)
                    res.axis('exact_mode_spelling', spell + ': accepted')
                except ValueError:
                    res.axis('exact_mode_spelling', spell + ': refused')
            if m is None:
                m = _build(cfg).to_mask(mode='exact', **kw)
        except Exception as exc:
            res.violation(ID, 'unexpected_exception', _case(cfg, 'to_mask'), f"to_mask('exact') raised {type(exc).__name__}: {exc}")
            return
        if max(cfg.get('r', 0), cfg.get('rx', 0), cfg.get('ry', 0)) <= 10.5:
            _use_mask(m)        # the mask is judged AFTER its owner has used it on an image
        got = _mask_arrays(res, _case(cfg, 'to_mask'), m)
        if got is None:
            return
        data, ix0, iy0 = got
        ny, nx = data.shape
        if ix0 >= kb[0] and iy0 >= kb[2] and ix0 + nx <= kb[1] and iy0 + ny <= kb[3]:
            sub = _slice(po, ix0 - kb[0], iy0 - kb[2], nx, ny)
        else:
            sub = _oracle(cfg, ix0, iy0, nx, ny, full=max(rx, ry) < 64.0)
        _judge(res, trk, cfg, 'to_mask', data, sub, ix0, iy0, do_sum=True)
        # nothing of the shape may lie outside the mask's box: every reference pixel of the rim around it is empty
        if ix0 >= kb[0] and iy0 >= kb[2] and ix0 + nx <= kb[1] and iy0 + ny <= kb[3]:
            outside = np.array(po.ref, dtype=float, copy=True)
            outside[iy0 - kb[2]:iy0 - kb[2] + ny, ix0 - kb[0]:ix0 - kb[0] + nx] = 0.0
            if outside.size and float(outside.max()) > 1e-13:
                j, i = np.unravel_index(int(np.argmax(outside)), outside.shape)
                res.violation(ID, 'exact_weight_outside_box', _case(cfg, 'to_mask'),
                              f'{_desc(cfg)}: pixel ({kb[0] + int(i)}, {kb[2] + int(j)}) overlaps the shape by {float(outside[j, i])!r} but lies outside the '
                              f'mask box x[{ix0},{ix0 + nx}) y[{iy0},{iy0 + ny})', 0.0, float(outside[j, i]))


def _slice(po, i0, j0, nx, ny):
    out = PA.PixelOverlap()
    sl = (slice(j0, j0 + ny), slice(i0, i0 + nx))
    out.ref, out.cls, out.robust, out.arc = po.ref[sl], po.cls[sl], po.robust[sl], po.arc[sl]
    out.x0, out.y0 = po.x0 + i0, po.y0 + j0
    return out


def _windows(cfg):
    """6x6 pixel windows centred on 32 boundary points (16 at the axis tips/equal steps, 16 offset)."""
    rx, ry, th = _params(cfg)
    cx, cy = cfg['phase']
    c, s = math.cos(th), math.sin(th)
    out = []
    for k in range(NWIN):
        t = 2.0 * math.pi * ((k // 2) + (0.137 if k % 2 else 0.0)) / (NWIN // 2)
        u, v = rx * math.cos(t), ry * math.sin(t)
        bx, by = cx + c * u - s * v, cy + s * u + c * v
        ix0, iy0 = int(math.floor(bx + 0.5)) - WIN // 2, int(math.floor(by + 0.5)) - WIN // 2
        out.append((ix0, ix0 + WIN, iy0, iy0 + WIN))
    return out


def _check_windows(res, trk, cfg):
    """Semi-axis 1000: the kernel on windows around the boundary.  Pixels shared by overlapping windows are
    judged once (first window); all windows of a configuration are judged together (one violation per kind)."""
    res.axis('via', 'kernel_window')
    rx, ry, th = _params(cfg)
    cx, cy = cfg['phase']
    vals, IX, IY = [], [], []
    seen = set()
    for w in _windows(cfg):
        try:
            d = np.asarray(_kernel_call(cfg, *w), float)
        except Exception as exc:
            res.violation(ID, 'unexpected_exception', _case(cfg, 'kernel_window'), f'kernel raised {type(exc).__name__}: {exc}')
            return
        for j in range(WIN):
            for i in range(WIN):
                p = (w[0] + i, w[2] + j)
                if p not in seen:
                    seen.add(p)
                    IX.append(p[0])
                    IY.append(p[1])
                    vals.append(d[j, i])
    # one row of pixels with explicit indices
    IX = np.array(IX)[None, :]
    IY = np.array(IY)[None, :]
    po = PA.ellipse_pixel_list(cx, cy, rx, ry, th, IX, IY, margin=MARGIN, full=True, dtype=_LD)
    _judge(res, trk, cfg, 'kernel_window', np.array(vals)[None, :], po, 0, 0, do_sum=False, index=(IX, IY))
    res.transitions += NWIN - 1


def _check_biggrid(res, trk, cfg):
    """Whole-grid to_mask('exact') for a semi-axis of 1000; the reference is evaluated in row blocks and
    Green's theorem only where the geometric classification is not robust."""
    res.axis('via', 'to_mask')
    try:
        m = _build(cfg).to_mask(mode='exact')
    except Exception as exc:
        res.violation(ID, 'unexpected_exception', _case(cfg, 'to_mask'), f"to_mask('exact') raised {type(exc).__name__}: {exc}")
        return
    got = _mask_arrays(res, _case(cfg, 'to_mask'), m)
    if got is None:
        return
    data, ix0, iy0 = got
    ny, nx = data.shape
    po = PA.PixelOverlap()
    po.ref = np.empty((ny, nx))
    po.cls = np.empty((ny, nx), np.int8)
    po.robust = np.empty((ny, nx), bool)
    po.arc = None
    B = 128
    for j0 in range(0, ny, B):
        n = min(B, ny - j0)
        p = _oracle(cfg, ix0, iy0 + j0, nx, n, full=False)
        po.ref[j0:j0 + n], po.cls[j0:j0 + n], po.robust[j0:j0 + n] = p.ref, p.cls, p.robust
    _judge(res, trk, cfg, 'to_mask', data, po, ix0, iy0, do_sum=True)


# ------------------------------------------------------- part B: convergence --
def _conv_reference(cfg, ix0, iy0, nx, ny):
    """(true overlap, L, k) arrays of shape (ny, nx)."""
    shape = cfg['shape']
    cx, cy = cfg['phase']
    if shape in ('circle', 'ellipse'):
        rx, ry, th = _params(cfg)
        po = PA.ellipse_pixels(cx, cy, rx, ry, th, ix0, iy0, nx, ny, margin=MARGIN, full=True)
        per = PA.ellipse_perimeter_bound(rx, ry)
        arc = np.abs(po.arc)
        L = np.minimum(np.minimum(4.0, per), max(rx, ry) * arc)
        L = np.where(po.cls == 0, np.maximum(L, 0.0), 0.0)
        k = np.where(po.cls == 0, 4, 0)
        return po.ref, L, k
    if shape == 'rectangle':
        verts = PA.rectangle_vertices(cx, cy, cfg['width'], cfg['height'], cfg['theta'])
    else:
        vx, vy = _poly_vertices(cfg)
        verts = list(zip(vx, vy))
    eo = PA.EvenOdd(verts)
    ref = np.zeros((ny, nx))
    L = np.zeros((ny, nx))
    k = np.zeros((ny, nx), int)
    from fractions import Fraction
    h = Fraction(1, 2)
    for j in range(ny):
        for i in range(nx):
            x, y = ix0 + i, iy0 + j
            ref[j, i] = float(eo.area(x - h, x + h, y - h, y + h))
            L[j, i], k[j, i] = PA.boundary_in_box(verts, x - 0.5, x + 0.5, y - 0.5, y + 0.5)
    return ref, L, k


def _conv_extent(cfg):
    """(xmin, xmax, ymin, ymax) of the shape itself."""
    shape = cfg['shape']
    cx, cy = cfg['phase']
    if shape in ('circle', 'ellipse'):
        rx, ry, th = _params(cfg)
        hx = math.hypot(rx * math.cos(th), ry * math.sin(th))
        hy = math.hypot(rx * math.sin(th), ry * math.cos(th))
        return (cx - hx, cx + hx, cy - hy, cy + hy)
    if shape == 'rectangle':
        verts = PA.rectangle_vertices(cx, cy, cfg['width'], cfg['height'], cfg['theta'])
    else:
        vx, vy = _poly_vertices(cfg)
        verts = list(zip(vx, vy))
    xs = [float(v[0]) for v in verts]
    ys = [float(v[1]) for v in verts]
    return (min(xs), max(xs), min(ys), max(ys))


def check_conv(res, trk, cfg, ns=NS):
    shape = cfg['shape']
    res.states += 1
    res.axis('shape', 'conv:' + shape)
    res.axis('phase', f"generic:{cfg['phase'][0]!r},{cfg['phase'][1]!r}")
    case = {k: v for k, v in cfg.items() if k != 'idx'}
    try:
        reg = _build(cfg)
    except Exception as exc:
        res.violation(ID, 'build_failed', case, f'could not construct region: {type(exc).__name__}: {exc}')
        return
    refc = None
    bad = []
    nbad = 0
    for n in ns:
        res.axis('subpixels', n)
        try:
            m = reg.to_mask(mode='subpixels', subpixels=n)
        except Exception as exc:
            res.violation(ID, 'unexpected_exception', {**case, 'n': n}, f"to_mask('subpixels', {n}) raised {type(exc).__name__}: {exc}")
            continue
        got = _mask_arrays(res, {**case, 'n': n}, m)
        if got is None:
            continue
        data, ix0, iy0 = got
        ny, nx = data.shape
        key = (ix0, iy0, nx, ny)
        if refc is None or refc[0] != key:
            refc = (key, _conv_reference(cfg, ix0, iy0, nx, ny))
            ref, L, k = refc[1]
            cut = L > 0
            res.extra['conv_pixels_cut'] = res.extra.get('conv_pixels_cut', 0) + int(cut.sum())
            idx = cfg.get('idx', 0)
            jj, ii = np.nonzero(cut)
            for j, i in zip(jj.tolist(), ii.tolist()):
                res.nontrivial.add(f'c{idx}:{ix0 + i}:{iy0 + j}')
        ref, L, k = refc[1]
        v = np.asarray(data, float)
        res.transitions += 1
        res.evaluations += int(v.size)
        ext = _conv_extent(cfg)
        lim = (ix0 - 0.5, ix0 + nx - 0.5, iy0 - 0.5, iy0 + ny - 0.5)
        tol = 1e-9 * (1.0 + max(abs(e) for e in ext))
        if ext[0] < lim[0] - tol or ext[1] > lim[1] + tol or ext[2] < lim[2] - tol or ext[3] > lim[3] + tol:
            res.violation(ID, 'mask_box_truncates_shape', {**case, 'n': n},
                          f'{shape} {_desc(cfg)}: the mask covers x in [{lim[0]}, {lim[1]}], y in [{lim[2]}, {lim[3]}] but the shape extends '
                          f'over x in [{ext[0]!r}, {ext[1]!r}], y in [{ext[2]!r}, {ext[3]!r}]: covered pixels are missing from the mask',
                          list(ext), list(lim))
            return
        bound = 4.0 * (L + np.maximum(k, 1) / float(n)) / float(n) + EPS
        with np.errstate(invalid='ignore'):
            err = np.abs(v - ref)
            viol = ~(err <= bound)
        fin = np.isfinite(err)
        if fin.any():
            trk.up(f'conv_ratio_{shape}', float((err[fin] / bound[fin]).max()))
            trk.up(f'conv_err_n{n}', float(err[fin].max()))
        res.outcomes[str(('conv', shape, n, 'ok' if not viol.any() else 'BAD'))] += 1
        if viol.any():
            nbad += int(viol.sum())
            jj, ii = np.nonzero(viol)
            for j, i in list(zip(jj, ii))[:8]:
                bad.append([n, ix0 + int(i), iy0 + int(j), _fl(v[j, i]), float(ref[j, i]), float(bound[j, i])])
    if nbad:
        f = bad[0]
        res.violation(ID, 'subpixel_not_converging', case,
                      f'{shape} {_desc(cfg)}: {nbad} (n, pixel) pairs exceed the bound 4(L + k/n)/n; first: n={f[0]} pixel '
                      f'(ix={f[1]}, iy={f[2]}) mask {f[3]!r}, true overlap {f[4]!r}, bound {f[5]:.3e}',
                      'error <= 4 (L + max(k,1)/n)/n', {'n_bad': nbad, 'cases': bad[:MAXOBS]})


# -------------------------------------------------------------------- driver --
_selftested = False


def _selftest_once():
    global _selftested
    if not _selftested:
        PA.selftest()
        _selftested = True


def _cost(c):
    if c.get('mode') == 'biggrid':
        return 1e7
    if c['part'] == 'convergence':
        return 3e3
    rx, ry, _ = _params(c)
    return 300.0 if c.get('mode') == 'window' else (2 * max(rx, ry) + 5) ** 2 + 300.0


def shards(tier, seed):
    cfgs = configs(tier, seed)
    n = 96 if tier == 'quick' else 256
    # whole-grid runs get a shard each (first, so they start at once); the rest is dealt greedily by cost
    bigs = [c for c in cfgs if c.get('mode') == 'biggrid']
    rest = sorted((c for c in cfgs if c.get('mode') != 'biggrid'), key=lambda c: -_cost(c))
    bins = [[] for _ in range(n)]
    load = [0.0] * n
    for c in rest:
        k = load.index(min(load))
        bins[k].append(c)
        load[k] += _cost(c)
    out = [{'sid': f'b{i}', 'cases': [c]} for i, c in enumerate(bigs)]
    out += [{'sid': f's{i}', 'cases': b} for i, b in enumerate(bins) if b]
    return out


def run_shard(shard, tier, seed):
    _selftest_once()
    res = Result()
    trk = _Track()
    for cfg in shard['cases']:
        if cfg['part'] == 'exact':
            check_exact(res, trk, cfg)
        elif cfg['part'] == 'on_image':
            check_on_image(res, trk, cfg)
        else:
            check_conv(res, trk, cfg)
        if len(res.samples) < 2 and cfg['part'] == 'exact' or (cfg['part'] == 'convergence' and len(res.samples) < 3):
            res.sample({k: v for k, v in cfg.items()})
    res.extra['oracle_selftests'] = 1
    trk.store(res, shard.get('sid', '0'))
    return res


def finalize(total, tier, seed):
    red = {}
    for k in [k for k in total.extra if k.startswith('max:')]:
        name = k[4:].split('@')[0]
        red[name] = max(red.get(name, 0.0), float(total.extra.pop(k)))
    for name, v in sorted(red.items()):
        total.extra['max_' + name] = v
    total.extra['max_abs_err'] = red.get('abs_err_conforming', 0.0)
    total.extra['tolerances'] = {'value': TOL, 'range_and_full': EPS, 'clearance': MARGIN}
    total.extra['oracle_selftest_max_errors'] = {k: float(v) for k, v in sorted(PA.selftest().items())}
    total.extra['oracle_selftests'] = int(total.extra.get('oracle_selftests', 0))
    # harness self-check: both tiers must have seen cut, covered and uncovered pixels for both shapes and vias
    for shape in ('circle', 'ellipse'):
        for via in ('to_mask', 'kernel', 'kernel_window'):
            for c in ('cut', 'in', 'out'):
                if not total.outcomes.get(str((shape, via, c))):
                    raise RuntimeError(f'pixel class {c} never seen for {shape} via {via}')


def replay(case):
    _selftest_once()
    res = Result()
    trk = _Track()
    cfg = dict(case)
    if cfg.get('part') == 'convergence':
        cfg.pop('n', None)
        check_conv(res, trk, cfg)
        return res
    via = cfg.pop('via', None)
    if via == 'to_image':
        cfg['part'] = 'on_image'
        cfg['ptype'] = 'image'
        check_on_image(res, trk, cfg)
        return res
    cfg['part'] = 'exact'
    rx, ry, _ = _params(cfg)
    cfg['ptype'] = 'nice' if tuple(cfg['phase']) in NICE else 'generic'
    if via == 'kernel_window':
        cfg['mode'] = 'window'
        check_exact(res, trk, cfg, vias=('kernel_window',))
    elif max(rx, ry) >= 1000.0:
        cfg['mode'] = 'biggrid'
        check_exact(res, trk, cfg)
    else:
        cfg['mode'] = 'grid'
        check_exact(res, trk, cfg, vias=(via,) if via else ('to_mask', 'kernel'))
    return res
