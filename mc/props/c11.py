"""C11 -- CRTF text round-trips and is read according to the CASA conventions.

E2 lattice over CRTF-representable class x region frame x serialiser options
(coordsys same/different, fmt, radunit) x parameters x include x annotation
type x metadata, lists of mixed regions; read side: a grammar of CRTF lines
rendered by a small generator-predictor (global defaults vs inline keys,
coord=, +/- prefix, ann, ellipse [bmaj, bmin] semi-axes, box / centerbox /
rotbox, degree / radian / pixel / sexagesimal coordinates, length units, and
lengths without units which must be rejected).
"""
import math
import warnings
import itertools

from mc.result import Result
from mc.lattice import chunks
from mc.oracles import regdesc as RD
from mc import fingerprint as FP

ID = 'C11'
LEVEL = 'model_checking'
ENGINE = 'E2-lattice'
FILES = ['regions/io/crtf/io_core.py', 'regions/io/crtf/read.py', 'regions/io/crtf/write.py', 'regions/io/crtf/core.py']
RULE = ('write side: full product of 8 CRTF shapes x 7 region frames x {coordsys = region frame, a different celestial frame} x fmt '
        '{.3f,.6f,.10f} x radunit {deg, arcsec, arcmin, rad} x 3 positions x 2 sizes x include {absent, True, False} x type {reg, ann}, '
        'metadata sets, and all lists of length <= 2 over a catalogue; read side: every line of a CRTF grammar (shape forms x '
        'coordinate notation x length unit x sign x ann x global/inline keys). A case is non-trivial when the output frame or unit '
        'differs from the region\'s, the region is excluded/annotated, or the line uses a non-default notation')
BOUNDS = {'quick': '2 fmts, 2 radunits, 2 positions, 1 size per shape', 'thorough': 'full product'}
ASSUMPTIONS = ['astropy frame transformations (used when coordsys differs from the region frame) and Angle parsing are trusted',
               'a point region without a symbol is written as "point[...]", which is not a CRTF shape: plain points are outside the representable set',
               'ellipse axes are written as semi-axes: the full axis is demanded within one unit of the format precision']

SHAPES = ['circle', 'circleannulus', 'ellipse', 'rectangle', 'polygon', 'line', 'text', 'symbol']
SKY_FRAMES = ['fk5', 'fk4', 'icrs', 'galactic', 'supergalactic', 'geocentrictrueecliptic']
FRAMES = ['image'] + SKY_FRAMES
UNIT_DEG = {'deg': 1.0, 'arcsec': 1 / 3600.0, 'arcmin': 1 / 60.0, 'rad': 180.0 / math.pi}
POS = [(150.25, 20.5), (10.001, -35.75), (359.5, 60.125)]
PIXPOS = [(10.5, 20.25), (512.0, 0.5), (3.25, 1024.75)]
SIZES_DEG = [0.01, 0.3]
SIZES_PIX = [6.0, 40.5]


def make_region(spec):
    import astropy.units as u
    from astropy.coordinates import SkyCoord
    import regions as R
    from regions import PixCoord, RegionMeta, RegionVisual
    shape, frame = spec['shape'], spec['frame']
    meta = dict(spec.get('meta') or {})
    if spec.get('include', 'absent') != 'absent':
        meta['include'] = spec['include']
    if spec.get('type'):
        meta['type'] = spec['type']
    vis = dict(spec.get('visual') or {})
    if shape == 'symbol':
        vis['symbol'] = spec.get('symbol', '+')
    kw = {'meta': RegionMeta(meta), 'visual': RegionVisual(vis)}
    ang = spec.get('angle', 30.0) * u.deg
    if spec.get('angle_unit'):
        ang = ang.to(getattr(u, spec['angle_unit']))      # same angle, other unit (the writer must convert it)
    if frame == 'image':
        x, y = PIXPOS[spec['pos']]
        s = SIZES_PIX[spec['size']]
        c = PixCoord(x, y)
        mk = lambda dx, dy: PixCoord(x + dx * s, y + dy * s)          # noqa
        verts = lambda pts: PixCoord([x + a * s for a, b in pts], [y + b * s for a, b in pts])       # noqa
        q = lambda v: v            # noqa
        K = lambda n: getattr(R, n + 'PixelRegion')      # noqa
    else:
        lon, lat = POS[spec['pos']]
        s = SIZES_DEG[spec['size']]
        su = spec.get('size_unit', 'arcsec')
        c = SkyCoord(lon * u.deg, lat * u.deg, frame=frame)
        mk = lambda dx, dy: SkyCoord((lon + dx * s) * u.deg, (lat + dy * s) * u.deg, frame=frame)       # noqa
        verts = lambda pts: SkyCoord([lon + a * s for a, b in pts] * u.deg, [lat + b * s for a, b in pts] * u.deg, frame=frame)      # noqa
        q = lambda v: (v / UNIT_DEG[su]) * getattr(u, su)         # noqa
        K = lambda n: getattr(R, n + 'SkyRegion')         # noqa
    if shape == 'circle':
        return K('Circle')(c, q(s), **kw)
    if shape == 'circleannulus':
        return K('CircleAnnulus')(c, q(s), q(2.5 * s), **kw)
    if shape == 'ellipse':
        return K('Ellipse')(c, q(2 * s), q(s), angle=ang, **kw)
    if shape == 'rectangle':
        return K('Rectangle')(c, q(1.5 * s), q(s), angle=ang, **kw)
    if shape == 'polygon':
        pts = [(0, 0), (1, 0.125), (0.75, 1), (-0.25, 0.5)]
        if spec.get('closed'):
            pts = pts + [pts[0]]        # a closed ring: the last vertex repeats the first
        return K('Polygon')(verts(pts), **kw)
    if shape == 'line':
        return K('Line')(c, mk(1.0, 0.5), **kw)
    if shape == 'text':
        return K('Text')(c, spec.get('text', 'a label'), **kw)
    if shape == 'symbol':
        return K('Point')(c, **kw)
    raise ValueError(shape)


def _ser(regs, **kw):
    from regions import Regions
    with warnings.catch_warnings():
        warnings.simplefilter('ignore')
        return Regions(regs).serialize(format='crtf', **kw)


def _parse(text, **kw):
    from regions import Regions
    with warnings.catch_warnings():
        warnings.simplefilter('ignore')
        return list(Regions.parse(text, format='crtf', **kw))


def _decimals(fmt):
    return int(fmt.strip('.f'))


def _expected(orig, spec, coordsys):
    """Description expected after the round trip (centre transformed to the output frame by astropy)."""
    d = RD.describe(orig)
    if spec['frame'] != 'image' and coordsys != spec['frame']:
        import astropy.units as u
        from astropy.coordinates import SkyCoord
        attrs = RD.COORDS.get(d['shape'], ['center'])
        coords = []
        for a in attrs:
            c = getattr(orig, a).transform_to(coordsys)
            coords += RD._pairs(c)
        d = dict(d)
        d['coords'] = coords
        d['frame'] = coordsys
    if d['shape'] == 'point':
        d = dict(d)
    return d


def check_single(res, spec, coordsys, fmt, radunit):
    case = {'op': 'single', 'spec': spec, 'coordsys': coordsys, 'fmt': fmt, 'radunit': radunit}
    res.evaluations += 1
    orig = make_region(spec)
    fp0 = FP.fp(orig)
    kw = {'coordsys': coordsys, 'fmt': fmt}
    if radunit is not None:
        kw['radunit'] = radunit
    res.transitions += 1
    try:
        text = _ser([orig], **kw)
        text_b = _ser([orig], **kw)
    except Exception as exc:
        res.violation(ID, 'serialize_raises', case, f'{spec["shape"]}/{spec["frame"]} -> {coordsys}, {fmt}, {radunit}: {type(exc).__name__}: {exc}')
        return
    if text != text_b:
        res.violation(ID, 'serialize_not_deterministic', case, 'two serialisations differ', text, text_b)
    # the file written with the same options holds the serialised text (Regions.write and Region.write)
    import os
    from regions import Regions
    from mc import env as _env
    for who, writer in (('Regions.write', lambda p: Regions([orig]).write(p, format='crtf', overwrite=True, **kw)),
                        ('Region.write', lambda p: orig.write(p, format='crtf', overwrite=True, **kw))):
        path = os.path.join(_env.scratch(), f'c11_{os.getpid()}.crtf')
        try:
            res.transitions += 1
            with warnings.catch_warnings():
                warnings.simplefilter('ignore')
                writer(path)
            with open(path, encoding='utf-8') as fh:
                ftext = fh.read()
        except Exception as exc:          # noqa: BLE001
            res.violation(ID, 'write_raises', case, f'{who}(..., {kw}) raised {type(exc).__name__}: {exc}')
            ftext = text
        finally:
            if os.path.exists(path):
                os.remove(path)
        if ftext != text:
            res.violation(ID, 'file_differs_from_serialize', case, f'{who} with options {kw} wrote a text that differs from serialize() with the '
                                                                   f'same options', text, ftext)
    if FP.fp(orig) != fp0:
        res.violation(ID, 'serialize_mutates_input', case, 'serialising changed the region (meta/visual/parameters)')
    res.transitions += 1
    try:
        P = _parse(text)
    except Exception as exc:
        res.violation(ID, 'parse_back_raises', case, f'parsing the serialised text raised {type(exc).__name__}: {str(exc)[:200]}', None, text)
        return
    if len(P) != 1:
        res.violation(ID, 'roundtrip_count', case, f'{len(P)} regions parsed back instead of 1', 1, text)
        return
    exp = _expected(orig, spec, coordsys)
    got = RD.describe(P[0])
    p = _decimals(fmt)
    half = 0.5 * 10.0 ** -p
    if spec['frame'] == 'image':
        tsz = half
    else:
        tsz = half * UNIT_DEG[radunit or 'deg']
    if exp['shape'] == 'ellipse':
        tsz = 2 * tsz
    ts = [tsz] * len(exp['sizes'])
    diffs = RD.compare(exp, got, half + (1e-9 if coordsys != spec['frame'] else 0.0), ts, half)
    if diffs:
        res.violation(ID, 'roundtrip_geometry', case, f'{spec["shape"]}/{spec["frame"]} -> coordsys={coordsys} fmt={fmt} radunit={radunit}: ' + '; '.join(diffs[:4]),
                      exp, {'desc': got, 'text': text})
    if got['include'] != exp['include']:
        res.violation(ID, 'roundtrip_include', case, f'include {exp["include"]} came back as {got["include"]}', exp['include'], {'got': got['include'], 'text': text})
    t0 = orig.meta.get('type', 'reg')
    t1 = P[0].meta.get('type', 'reg')
    if t0 != t1:
        res.violation(ID, 'roundtrip_type', case, f'annotation type {t0!r} came back as {t1!r}', t0, {'got': t1, 'text': text})
    if spec['shape'] == 'text':
        if got['text_param'] != orig.text:
            res.violation(ID, 'roundtrip_text', case, f'text {orig.text!r} came back as {got["text_param"]!r}', orig.text, {'got': got['text_param'], 'text': text})
    elif orig.meta.get('label') is not None and P[0].meta.get('label') != orig.meta.get('label'):
        res.violation(ID, 'roundtrip_label', case, f'label {orig.meta.get("label")!r} came back as {P[0].meta.get("label")!r}', orig.meta.get('label'),
                      {'got': P[0].meta.get('label'), 'text': text})
    if spec['shape'] == 'symbol' and P[0].visual.get('symbol') != orig.visual.get('symbol'):
        res.violation(ID, 'roundtrip_meta', case, f'symbol {orig.visual.get("symbol")!r} came back as {P[0].visual.get("symbol")!r}')
    for k, v in (spec.get('meta') or {}).items():
        if k in ('label',):
            continue
        g = P[0].meta.get(k, P[0].visual.get(k))
        if not _meta_eq(k, v, g):
            res.violation(ID, 'roundtrip_meta', case, f'meta {k}={v!r} came back as {g!r}', repr(v), {'got': repr(g), 'text': text})
    for k, v in (spec.get('visual') or {}).items():
        g = P[0].visual.get(k, P[0].meta.get(k))
        if not _meta_eq(k, v, g):
            res.violation(ID, 'roundtrip_meta', case, f'visual {k}={v!r} came back as {g!r}', repr(v), {'got': repr(g), 'text': text})
    # fixed point
    try:
        res.transitions += 2
        text2 = _ser([P[0]], **kw)
        P2 = _parse(text2)
        text3 = _ser(P2, **kw)
    except Exception as exc:
        res.violation(ID, 'fixed_point_raises', case, f'parse->serialise->parse raised {type(exc).__name__}: {str(exc)[:200]}', None, text)
        return
    if len(P2) != 1 or not (P2[0] == P[0]):
        g2 = RD.describe(P2[0]) if len(P2) == 1 else None
        res.violation(ID, 'not_fixed_point', case, f'parse(serialize(P)) != P: {RD.compare(got, g2, 0, 0, 0)[:3] if g2 else "count"}; meta {dict(P[0].meta)} -> '
                      f'{dict(P2[0].meta) if len(P2) == 1 else None}; visual {dict(P[0].visual)} -> {dict(P2[0].visual) if len(P2) == 1 else None}', text, text2)
    if text3 != text2:
        res.violation(ID, 'not_fixed_point', case, 'serialize(parse(serialize(P))) != serialize(P)', text2, text3)
    # a parsed region is a region like any other: what is written after an edit is its CURRENT state
    if spec['shape'] == 'text' and len(P2) == 1:
        try:
            res.transitions += 1
            P2[0].text = 'renamed after parsing'
            P3 = _parse(_ser([P2[0]], **kw))
            back = P3[0].text if len(P3) == 1 else None
        except Exception as exc:
            res.violation(ID, 'fixed_point_raises', case, f'serialising a parsed text region after editing its text raised {type(exc).__name__}: {str(exc)[:200]}')
            return
        if back != 'renamed after parsing':
            res.violation(ID, 'edit_after_parse_lost', case, f'a parsed text region whose text was changed to \'renamed after parsing\' is written and read '
                                                            f'back with text {back!r}', 'renamed after parsing', back)
    nontriv = coordsys != spec['frame'] or (radunit not in (None, 'deg')) or spec.get('include') is False or spec.get('type') == 'ann'
    if nontriv:
        res.nontriv(('single', spec, coordsys, fmt, radunit))
    res.outcome(('single', spec['shape'], spec['frame'] == 'image', coordsys != spec['frame'], radunit, spec.get('include', 'absent') is False))
    res.axis('shape', spec['shape'])
    res.axis('frame', spec['frame'])
    res.axis('coordsys', coordsys)
    res.axis('radunit', radunit)


def _meta_eq(k, v, g):
    if g is None:
        return False
    if k == 'range':
        try:
            return [str(x).replace(' ', '') for x in g] == [str(x).replace(' ', '') for x in v]
        except Exception:
            return False
    if k == 'corr':
        return list(g) == list(v)
    return str(g) == str(v)


METAS = [
    ({}, {}),
    ({'label': 'my label'}, {}),
    ({}, {'color': 'red', 'linewidth': 2}),
    ({'frame': 'BARY', 'veltype': 'RADIO', 'restfreq': '1.42GHz'}, {}),
    ({'corr': ['I', 'Q']}, {'linestyle': '--'}),
    ({'label': 'lbl'}, {'labelpos': 'top', 'font': 'Helvetica', 'fontsize': '12', 'fontstyle': 'bold', 'usetex': 'false'}),
    ({}, {'symsize': 3, 'symthick': 2}),
    # '#' starts a comment only at the beginning of a line: inside values it is an ordinary character
    ({'label': 'src #3'}, {'color': '#ff8800'}),
    # zero and False are values like any other
    ({}, {'linewidth': 0}),
    ({}, {'symsize': 0, 'symthick': 0}),
    ({'label': 'l0'}, {'usetex': False, 'fontsize': 0}),
    # a backslash (a TeX label) and a no-break space are characters like any other
    ({'label': '$\\alpha$ Cen\u00a0A'}, {'usetex': True}),
]


def feasible(spec, fmt, radunit):
    """Inside the lattice?  Sizes that the requested format would write as zero (or annulus radii that would
    coincide) cannot be read back as a region at all and are outside it."""
    if spec['frame'] == 'image' or spec['shape'] in ('polygon', 'line', 'text', 'symbol'):
        return True
    s = SIZES_DEG[spec['size']] / UNIT_DEG[radunit or 'deg']
    written = {'circle': [s], 'circleannulus': [s, 2.5 * s], 'ellipse': [s, 0.5 * s], 'rectangle': [1.5 * s, s]}[spec['shape']]
    r = [float(format(v, fmt)) for v in written]
    if any(v <= 0 for v in r):
        return False
    if spec['shape'] == 'circleannulus' and not r[0] < r[1]:
        return False
    return True


def single_cases(tier):
    out = []
    fmts = ['.3f', '.6f'] if tier == 'quick' else ['.3f', '.6f', '.10f']
    rus = ['deg', 'arcsec'] if tier == 'quick' else ['deg', 'arcsec', 'arcmin', 'rad']
    poss = [0, 1] if tier == 'quick' else [0, 1, 2]
    sizes = [0] if tier == 'quick' else [0, 1]
    for shape in SHAPES:
        for frame in FRAMES:
            for pos in poss:
                for size in sizes:
                    if frame != 'image' and shape in ('polygon', 'line') and abs(POS[pos][1]) + 1.1 * SIZES_DEG[size] > 89:
                        continue
                    for inc in ('absent', True, False, 0, 1):
                        for typ in (None, 'ann'):
                            if tier == 'quick' and typ == 'ann' and inc is True:
                                continue
                            if isinstance(inc, int) and not isinstance(inc, bool) and (pos != poss[0] or typ):
                                continue        # include given as the integers 0 / 1 (what the DS9 reader stores)
                            spec = {'shape': shape, 'frame': frame, 'pos': pos, 'size': size, 'include': inc, 'type': typ}
                            if shape in ('ellipse', 'rectangle') and pos == 1:
                                spec['angle_unit'] = 'rad' if inc is False else 'arcmin'
                            if frame == 'image':
                                for fmt in fmts:
                                    out.append([spec, 'image', fmt, None])
                            else:
                                others = [f for f in SKY_FRAMES if f != frame]
                                cs = [frame, others[(pos + size) % len(others)]]
                                for coordsys in cs:
                                    for fmt in fmts:
                                        for ru in rus:
                                            if feasible(spec, fmt, ru):
                                                out.append([spec, coordsys, fmt, ru])
    # closed polygon rings (the last vertex repeats the first): every vertex is written and read back
    for frame in ('image', 'fk5', 'galactic'):
        spec = {'shape': 'polygon', 'frame': frame, 'pos': 0, 'size': 0, 'include': 'absent', 'type': None, 'closed': True}
        out.append([spec, 'image' if frame == 'image' else frame, '.6f', None if frame == 'image' else 'arcsec'])
    # metadata
    for shape in SHAPES:
        for frame in ('image', 'fk5', 'galactic'):
            for mi, (m, v) in enumerate(METAS):
                if shape == 'text' and 'label' in m:
                    continue
                spec = {'shape': shape, 'frame': frame, 'pos': 0, 'size': 0, 'include': 'absent', 'type': None, 'meta': m, 'visual': v}
                out.append([spec, 'image' if frame == 'image' else frame, '.6f', None if frame == 'image' else 'arcsec'])
    for t in ('plain', 'two words', 'with, comma', "it's", 'semi; colon', '30"', "5'", '"core"', 'beam 12" x 8"', 'field #7', '#1', 'RADIO CORE', 'KONRAD 7 FMT'):
        for frame in ('image', 'icrs'):
            spec = {'shape': 'text', 'frame': frame, 'pos': 0, 'size': 0, 'include': 'absent', 'type': None, 'text': t}
            out.append([spec, frame, '.6f', None if frame == 'image' else 'deg'])
    for sym in ('+', 'o', '*', 'D', 's', '.'):
        spec = {'shape': 'symbol', 'frame': 'fk5', 'pos': 0, 'size': 0, 'include': 'absent', 'type': None, 'symbol': sym}
        out.append([spec, 'fk5', '.6f', 'deg'])
    return out


# ------------------------------------------------------------------ lists ----
def check_list(res, specs, coordsys, radunit):
    case = {'op': 'list', 'specs': specs, 'coordsys': coordsys, 'radunit': radunit}
    res.evaluations += 1
    regs = [make_region(s) for s in specs]
    kw = {'coordsys': coordsys, 'fmt': '.6f'}
    if radunit:
        kw['radunit'] = radunit
    res.transitions += 1
    try:
        text = _ser(regs, **kw)
        P = _parse(text)
    except Exception as exc:
        res.violation(ID, 'list_raises', case, f'list round trip raised {type(exc).__name__}: {str(exc)[:200]}')
        return
    if len(P) != len(regs):
        res.violation(ID, 'roundtrip_count', case, f'{len(regs)} regions written, {len(P)} parsed', len(regs), text)
        return
    for k, (o, s, b) in enumerate(zip(regs, specs, P)):
        exp = _expected(o, s, coordsys if s['frame'] != 'image' else 'image')
        got = RD.describe(b)
        tsz = 0.5e-6 * (UNIT_DEG[radunit or 'deg'] if s['frame'] != 'image' else 1.0) * (2 if exp['shape'] == 'ellipse' else 1)
        diffs = RD.compare(exp, got, 0.5e-6 + 1e-9, [tsz] * len(exp['sizes']), 0.5e-6)
        if diffs:
            res.violation(ID, 'roundtrip_geometry', case, f'list member {k}: ' + '; '.join(diffs[:3]), exp, {'desc': got, 'text': text})
        if got['include'] != exp['include']:
            res.violation(ID, 'roundtrip_include', case, f'list member {k}: include {exp["include"]} came back as {got["include"]}')
    res.nontriv(('list', specs, coordsys, radunit))
    res.outcome(('list', len(specs), coordsys))


def list_cases(tier):
    cat = [
        {'shape': 'circle', 'frame': 'fk5', 'pos': 0, 'size': 0, 'include': 'absent', 'type': None},
        {'shape': 'ellipse', 'frame': 'galactic', 'pos': 1, 'size': 0, 'include': False, 'type': None},
        {'shape': 'rectangle', 'frame': 'icrs', 'pos': 0, 'size': 1, 'include': 'absent', 'type': 'ann'},
        {'shape': 'polygon', 'frame': 'fk5', 'pos': 0, 'size': 0, 'include': False, 'type': None},
        {'shape': 'circleannulus', 'frame': 'fk4', 'pos': 1, 'size': 0, 'include': 'absent', 'type': None},
        {'shape': 'text', 'frame': 'fk5', 'pos': 0, 'size': 0, 'include': 'absent', 'type': None, 'text': 'list text'},
        {'shape': 'symbol', 'frame': 'supergalactic', 'pos': 0, 'size': 0, 'include': 'absent', 'type': None},
        {'shape': 'line', 'frame': 'geocentrictrueecliptic', 'pos': 0, 'size': 0, 'include': 'absent', 'type': 'ann'},
    ]
    out = []
    for L in (1, 2) if tier == 'quick' else (1, 2, 3):
        for idx in itertools.product(range(len(cat)), repeat=L):
            if L == 3 and len(set(idx)) < 3:
                continue
            for coordsys, ru in (('fk5', 'arcsec'), ('galactic', 'deg')):
                out.append([[cat[i] for i in idx], coordsys, ru])
    return out


# ---------------------------------------------------------- read-side grammar --
LEN_UNITS = {'deg': 1.0, 'arcmin': 1 / 60.0, 'arcsec': 1 / 3600.0, '"': 1 / 3600.0, "'": 1 / 60.0, 'rad': 180.0 / math.pi}


def _coord_text(lon, lat, notation):
    """(text_lon, text_lat, expected_lon_deg, expected_lat_deg)."""
    if notation == 'deg':
        return f'{lon!r}deg', f'{lat!r}deg', lon, lat
    if notation == 'rad':
        a, b = math.radians(lon), math.radians(lat)
        return f'{a!r}rad', f'{b!r}rad', math.degrees(a), math.degrees(b)
    if notation == 'sexagesimal':      # h:m:s  and  d.m.s
        return '10:01:00.0', '+20.30.00.0', (10 + 1 / 60.0) * 15.0, 20.5
    if notation == 'hms':
        return '10h01m00.0s', '-20d30m00.0s', (10 + 1 / 60.0) * 15.0, -20.5
    raise ValueError(notation)


def _sexa(v_as, per=1):
    """(sign, whole, minutes, seconds) of an angle given in integer arcseconds (per=15: hours, minutes, seconds of time)."""
    sign = '-' if v_as < 0 else ''
    n = abs(v_as)
    assert n % per == 0
    n //= per
    return sign, n // 3600, (n // 60) % 60, n % 60


def _coord_text_as(lon_as, lat_as, notation):
    """(text_lon, text_lat, expected_lon_deg, expected_lat_deg) for whole-arcsecond positions."""
    lon, lat = lon_as / 3600.0, lat_as / 3600.0
    if notation == 'deg':
        return f'{lon!r}deg', f'{lat!r}deg', lon, lat
    if notation == 'rad':
        a, b = math.radians(lon), math.radians(lat)
        return f'{a!r}rad', f'{b!r}rad', math.degrees(a), math.degrees(b)
    _, h, hm, hs = _sexa(lon_as, 15)
    sg, d, dm, ds = _sexa(lat_as)
    if notation == 'sexagesimal':      # hh:mm:ss.s and (CASA) dd.mm.ss.s
        return f'{h:02d}:{hm:02d}:{hs:02d}.0', f'{sg or "+"}{d:02d}.{dm:02d}.{ds:02d}.0', lon, lat
    if notation == 'hms':
        return f'{h:d}h{hm:02d}m{hs:02d}.0s', f'{sg}{d:d}d{dm:02d}m{ds:02d}.0s', lon, lat
    if notation == 'dms_colon':        # unsigned-zero padding as CARTA writes it: -000.30.00.000
        return f'{h:02d}:{hm:02d}:{hs:02d}.000', f'{sg or "+"}{d:03d}.{dm:02d}.{ds:02d}.000', lon, lat
    raise ValueError(notation)


def read_lines():
    """(name, text, expected list or 'ERROR')."""
    out = []
    hdr = '#CRTFv0\n'
    lon, lat = 150.25, 20.5
    for cn in ('deg', 'rad', 'sexagesimal', 'hms'):
        a, b, elon, elat = _coord_text(lon, lat, cn)
        for un, f in LEN_UNITS.items():
            r = 30.0 if f < 0.5 else 0.01
            for coord, fr in (('J2000', 'fk5'), ('GALACTIC', 'galactic'), ('ICRS', 'icrs'), ('B1950', 'fk4')):
                base = {'kind': 'sky', 'frame': fr, 'include': True}
                out.append((f'circle/{cn}/{un}/{coord}', f'{hdr}circle[[{a}, {b}], {r!r}{un}], coord={coord}\n',
                            [{**base, 'shape': 'circle', 'coords': [(elon, elat)], 'sizes': [r * f], 'angle': None}]))
            base = {'kind': 'sky', 'frame': 'fk5', 'include': True}
            out.append((f'ellipse/{cn}/{un}', f'{hdr}global coord=J2000\nellipse[[{a}, {b}], [{2 * r!r}{un}, {r!r}{un}], 40.0deg]\n',
                        [{**base, 'shape': 'ellipse', 'coords': [(elon, elat)], 'sizes': [2 * r * f, 4 * r * f], 'angle': 40.0}]))
            out.append((f'rotbox/{cn}/{un}', f'{hdr}global coord=J2000\nrotbox[[{a}, {b}], [{3 * r!r}{un}, {r!r}{un}], 25.0deg]\n',
                        [{**base, 'shape': 'rectangle', 'coords': [(elon, elat)], 'sizes': [3 * r * f, r * f], 'angle': 25.0}]))
            out.append((f'centerbox/{cn}/{un}', f'{hdr}global coord=J2000\ncenterbox[[{a}, {b}], [{3 * r!r}{un}, {r!r}{un}]]\n',
                        [{**base, 'shape': 'rectangle', 'coords': [(elon, elat)], 'sizes': [3 * r * f, r * f], 'angle': 0.0}]))
            out.append((f'annulus/{cn}/{un}', f'{hdr}global coord=J2000\nannulus[[{a}, {b}], [{r!r}{un}, {2 * r!r}{un}]]\n',
                        [{**base, 'shape': 'circleannulus', 'coords': [(elon, elat)], 'sizes': [r * f, 2 * r * f], 'angle': None}]))
    # positions: every notation x longitudes x latitudes on both sides of zero, incl. |lat| < 1 deg (the sign then sits on a
    # zero degree field) -- all values whole arcseconds, so every notation writes them exactly
    for lon_as in (540900, 450, 1294200):
        for lat_as in (73800, -73800, -1800, 36, -36, 0, 322200, -3599):
            for cn in ('deg', 'rad', 'sexagesimal', 'hms', 'dms_colon'):
                a, b, elon, elat = _coord_text_as(lon_as, lat_as, cn)
                for coord, fr in (('J2000', 'fk5'), ('ICRS', 'icrs')):
                    out.append((f'pos/{cn}/{lon_as}/{lat_as}/{coord}', f'{hdr}circle[[{a}, {b}], 30.0arcsec], coord={coord}\n',
                                [{'kind': 'sky', 'frame': fr, 'include': True, 'shape': 'circle', 'coords': [(elon, elat)],
                                  'sizes': [30.0 / 3600], 'angle': None}]))
    base = {'kind': 'sky', 'frame': 'fk5', 'include': True}
    # box given by two corners
    out.append(('box/corners', f'{hdr}box[[150.0deg, 20.0deg], [150.5deg, 21.0deg]], coord=J2000\n',
                [{**base, 'shape': 'rectangle', 'coords': [(150.25, 20.5)], 'sizes': [0.5, 1.0], 'angle': 0.0}]))
    out.append(('box/corners_swapped', f'{hdr}box[[150.5deg, 21.0deg], [150.0deg, 20.0deg]], coord=J2000\n',
                [{**base, 'shape': 'rectangle', 'coords': [(150.25, 20.5)], 'sizes': [0.5, 1.0], 'angle': 0.0}]))
    # sign / ann
    for sign, inc in (('', True), ('+', True), ('-', False)):
        for ann in ('', 'ann '):
            out.append((f'sign{sign}/{ann.strip()}', f'{hdr}{sign}{ann}circle[[150.0deg, 20.0deg], 30.0arcsec], coord=J2000\n',
                        [{**base, 'shape': 'circle', 'coords': [(150.0, 20.0)], 'sizes': [30.0 / 3600], 'angle': None, 'include': inc,
                          'type': 'ann' if ann else 'reg'}]))
    # white space between the sign and the region keyword (accepted by the line grammar)
    for sp, nm in ((' ', 'blank'), ('\t', 'tab')):
        for sign, inc in (('+', True), ('-', False)):
            out.append((f'sign{sign}{nm}', f'{hdr}{sign}{sp}circle[[150.0deg, 20.0deg], 30.0arcsec], coord=J2000\n',
                        [{**base, 'shape': 'circle', 'coords': [(150.0, 20.0)], 'sizes': [30.0 / 3600], 'angle': None, 'include': inc, 'type': 'reg'}]))
    # list-valued defaults of the global line belong to each region separately
    out.append(('global/lists_not_shared', f'{hdr}global coord=J2000, corr=[I, Q], labeloff=[1, 2]\ncircle[[150.0deg, 20.0deg], 30.0arcsec]\n'
                'circle[[151.0deg, 20.0deg], 30.0arcsec]\ncircle[[152.0deg, 20.0deg], 30.0arcsec], corr=[V]\n',
                [{**base, 'shape': 'circle', 'coords': [(150.0 + k, 20.0)], 'sizes': [30.0 / 3600], 'angle': None} for k in range(3)]))
    # global defaults and inline override
    out.append(('global/override', f'{hdr}global coord=GALACTIC, color=blue, linewidth=3\ncircle[[10.0deg, 5.0deg], 1.0deg], color=red\n'
                'circle[[11.0deg, 5.0deg], 1.0deg]\ncircle[[12.0deg, 5.0deg], 1.0deg], coord=J2000, linewidth=1\n',
                [{'kind': 'sky', 'frame': 'galactic', 'include': True, 'shape': 'circle', 'coords': [(10.0, 5.0)], 'sizes': [1.0], 'angle': None, 'visual': {'color': 'red', 'linewidth': '3'}},
                 {'kind': 'sky', 'frame': 'galactic', 'include': True, 'shape': 'circle', 'coords': [(11.0, 5.0)], 'sizes': [1.0], 'angle': None, 'visual': {'color': 'blue', 'linewidth': '3'}},
                 {'kind': 'sky', 'frame': 'fk5', 'include': True, 'shape': 'circle', 'coords': [(12.0, 5.0)], 'sizes': [1.0], 'angle': None, 'visual': {'color': 'blue', 'linewidth': '1'}}]))
    # several global lines: a later one overrides the keys it names and keeps the others
    out.append(('global/two', f'{hdr}global coord=GALACTIC, color=blue, linewidth=3\nglobal color=green, symsize=2\ncircle[[10.0deg, 5.0deg], 1.0deg]\n'
                'global coord=J2000\ncircle[[12.0deg, 5.0deg], 1.0deg], linewidth=1\n',
                [{'kind': 'sky', 'frame': 'galactic', 'include': True, 'shape': 'circle', 'coords': [(10.0, 5.0)], 'sizes': [1.0], 'angle': None, 'visual': {'color': 'green', 'linewidth': '3'}},
                 {'kind': 'sky', 'frame': 'fk5', 'include': True, 'shape': 'circle', 'coords': [(12.0, 5.0)], 'sizes': [1.0], 'angle': None, 'visual': {'color': 'green', 'linewidth': '1'}}]))
    # pixels
    pb = {'kind': 'pixel', 'frame': 'image', 'include': True}
    out.append(('pix/circle', f'{hdr}circle[[10.5pix, 20.25pix], 5.0pix], coord=image\n', [{**pb, 'shape': 'circle', 'coords': [(10.5, 20.25)], 'sizes': [5.0], 'angle': None}]))
    out.append(('pix/nocoord', f'{hdr}circle[[10.5pix, 20.25pix], 5.0pix]\n', [{**pb, 'shape': 'circle', 'coords': [(10.5, 20.25)], 'sizes': [5.0], 'angle': None}]))
    out.append(('pix/ellipse', f'{hdr}ellipse[[10.5pix, 20.25pix], [8.0pix, 3.0pix], 30.0deg], coord=image\n',
                [{**pb, 'shape': 'ellipse', 'coords': [(10.5, 20.25)], 'sizes': [6.0, 16.0], 'angle': 30.0}]))
    out.append(('pix/poly', f'{hdr}poly[[1.0pix, 2.0pix], [8.0pix, 3.0pix], [5.0pix, 9.0pix]], coord=image\n',
                [{**pb, 'shape': 'polygon', 'coords': [(1.0, 2.0), (8.0, 3.0), (5.0, 9.0)], 'sizes': [], 'angle': None}]))
    out.append(('pix/line', f'{hdr}line[[1.0pix, 2.0pix], [8.0pix, 3.0pix]], coord=image\n',
                [{**pb, 'shape': 'line', 'coords': [(1.0, 2.0), (8.0, 3.0)], 'sizes': [], 'angle': None}]))
    out.append(('sky/poly', f'{hdr}poly[[150.0deg, 20.0deg], [150.5deg, 20.0deg], [150.25deg, 20.5deg], [150.0deg, 20.25deg]], coord=J2000\n',
                [{**base, 'shape': 'polygon', 'coords': [(150.0, 20.0), (150.5, 20.0), (150.25, 20.5), (150.0, 20.25)], 'sizes': [], 'angle': None}]))
    # every point of a multi-point shape carries its own notation
    mixed = [_coord_text_as(540900, 73800, 'deg'), _coord_text_as(541800, 75600, 'sexagesimal'), _coord_text_as(541350, 77400, 'rad'),
             _coord_text_as(540000, 75600, 'hms')]
    out.append(('sky/poly_mixed_notations', f'{hdr}poly[' + ', '.join(f'[{a}, {b}]' for a, b, _, _ in mixed) + '], coord=J2000\n',
                [{**base, 'shape': 'polygon', 'coords': [(lo, la) for _, _, lo, la in mixed], 'sizes': [], 'angle': None}]))
    out.append(('sky/poly_mixed_notations_rev', f'{hdr}poly[' + ', '.join(f'[{a}, {b}]' for a, b, _, _ in mixed[::-1]) + '], coord=ICRS\n',
                [{'kind': 'sky', 'frame': 'icrs', 'include': True, 'shape': 'polygon', 'coords': [(lo, la) for _, _, lo, la in mixed[::-1]],
                  'sizes': [], 'angle': None}]))
    out.append(('sky/line_mixed_notations', f'{hdr}line[[{mixed[1][0]}, {mixed[1][1]}], [{mixed[0][0]}, {mixed[0][1]}]], coord=J2000\n',
                [{**base, 'shape': 'line', 'coords': [(mixed[1][2], mixed[1][3]), (mixed[0][2], mixed[0][3])], 'sizes': [], 'angle': None}]))
    # spectral metadata given on the global line reaches the region in the same form as when it is given inline
    out.append(('global/range', f'{hdr}global coord=J2000, range=[-1240km/s, 1240km/s], corr=[I, Q]\ncircle[[150.0deg, 20.0deg], 30.0arcsec]\n',
                [{**base, 'shape': 'circle', 'coords': [(150.0, 20.0)], 'sizes': [30.0 / 3600], 'angle': None,
                  'same_as': f'{hdr}circle[[150.0deg, 20.0deg], 30.0arcsec], coord=J2000, range=[-1240km/s, 1240km/s], corr=[I, Q]\n'}]))
    out.append(('sky/line', f'{hdr}line[[150.0deg, 20.0deg], [150.5deg, 20.25deg]], coord=ICRS\n',
                [{'kind': 'sky', 'frame': 'icrs', 'include': True, 'shape': 'line', 'coords': [(150.0, 20.0), (150.5, 20.25)], 'sizes': [], 'angle': None}]))
    out.append(('text', f"{hdr}text[[150.0deg, 20.0deg], 'some words'], coord=J2000\n",
                [{**base, 'shape': 'text', 'coords': [(150.0, 20.0)], 'sizes': [], 'angle': None, 'text_param': 'some words'}]))
    out.append(('symbol', f'{hdr}symbol[[150.0deg, 20.0deg], +], coord=J2000\n',
                [{**base, 'shape': 'point', 'coords': [(150.0, 20.0)], 'sizes': [], 'angle': None, 'visual': {'symbol': '+'}}]))
    out.append(('label', f"{hdr}circle[[150.0deg, 20.0deg], 30.0arcsec], coord=J2000, label='my label', color=green\n",
                [{**base, 'shape': 'circle', 'coords': [(150.0, 20.0)], 'sizes': [30.0 / 3600], 'angle': None, 'label': 'my label', 'visual': {'color': 'green'}}]))
    out.append(('comment_and_blank', f'{hdr}# a comment\n\ncircle[[150.0deg, 20.0deg], 30.0arcsec], coord=J2000\n',
                [{**base, 'shape': 'circle', 'coords': [(150.0, 20.0)], 'sizes': [30.0 / 3600], 'angle': None}]))
    # lengths require units
    out.append(('nounit/circle', f'{hdr}circle[[150.0deg, 20.0deg], 30.0], coord=J2000\n', 'ERROR'))
    out.append(('nounit/ellipse', f'{hdr}ellipse[[150.0deg, 20.0deg], [30.0, 15.0], 10.0deg], coord=J2000\n', 'ERROR'))
    out.append(('nounit/annulus', f'{hdr}annulus[[150.0deg, 20.0deg], [10.0, 20.0arcsec]], coord=J2000\n', 'ERROR'))
    out.append(('invalid/shape', f'{hdr}hexagon[[150.0deg, 20.0deg], 30.0arcsec], coord=J2000\n', 'ERROR'))
    out.append(('invalid/line', f'{hdr}this is not a region\n', 'ERROR'))
    return out


def check_read(res, name):
    table = {n: (t, e) for n, t, e in read_lines()}
    text, exp = table[name]
    case = {'op': 'read', 'name': name}
    res.evaluations += 1
    res.transitions += 1
    try:
        P = _parse(text)
    except Exception as exc:
        if exp == 'ERROR':
            from regions.io.crtf.core import CRTFRegionParserError
            if not isinstance(exc, (CRTFRegionParserError, ValueError)):
                res.violation(ID, 'read_wrong_exception', case, f'{text!r}: raised {type(exc).__name__}: {exc}')
            res.outcome(('read', 'error'))
            res.nontriv(('read', name))
            return
        res.violation(ID, 'read_raises', case, f'{text!r}: {type(exc).__name__}: {str(exc)[:200]}', None, text)
        return
    if exp == 'ERROR':
        res.violation(ID, 'read_accepts_invalid', case, f'{text!r} was accepted ({len(P)} regions) although the CASA rules require an error')
        return
    if len(P) != len(exp):
        res.violation(ID, 'read_count', case, f'{text!r}: expected {len(exp)} regions, got {len(P)}', len(exp), len(P))
        return
    if name == 'global/lists_not_shared':
        # the caller edits the list-valued metadata of the first region in place: the second region and a later parse are unaffected
        try:
            snap = [FP.fp(dict(r.meta)) for r in P]
            for key in ('corr', 'labeloff', 'range'):
                v = P[0].meta.get(key)
                if isinstance(v, list):
                    v.append('edited by the caller')
            now = [FP.fp(dict(r.meta)) for r in P]
            again = [FP.fp(dict(r.meta)) for r in _parse(text)]
        except Exception as exc:          # noqa: BLE001
            res.violation(ID, 'read_raises', case, f'{text!r}: editing the parsed metadata / parsing again raised {type(exc).__name__}: {exc}')
            return
        if now[1:] != snap[1:]:
            res.violation(ID, 'read_meta', case, f'{text!r}: appending to a list in the metadata of region 0 changed the metadata of another region: '
                                                 f'{[dict(r.meta) for r in P[1:]]!r}')
        if again != snap:
            res.violation(ID, 'read_meta', case, f'{text!r}: after the caller edited a parsed region, parsing the same text again gives other metadata')
    for k, (e, r) in enumerate(zip(exp, P)):
        g = RD.describe(r)
        diffs = RD.compare(e, g, 1e-9, 1e-9, 1e-9)
        if diffs:
            res.violation(ID, 'read_geometry', case, f'{text!r} region {k}: ' + '; '.join(diffs[:3]), e, g)
        if g['include'] != e['include']:
            res.violation(ID, 'read_include', case, f'{text!r} region {k}: include {g["include"]}, expected {e["include"]}')
        if 'type' in e and r.meta.get('type', 'reg') != e['type']:
            res.violation(ID, 'read_type', case, f'{text!r} region {k}: type {r.meta.get("type")!r}, expected {e["type"]!r}')
        if 'text_param' in e and g['text_param'] != e['text_param']:
            res.violation(ID, 'read_text', case, f'{text!r}: text {g["text_param"]!r}, expected {e["text_param"]!r}')
        if 'label' in e and r.meta.get('label') != e['label']:
            res.violation(ID, 'read_text', case, f'{text!r}: label {r.meta.get("label")!r}, expected {e["label"]!r}')
        if 'same_as' in e:
            try:
                twin = _parse(e['same_as'])[0]
                same = (FP.fp({k: v for k, v in r.meta.items()}) == FP.fp({k: v for k, v in twin.meta.items()})) and bool(r == twin)
            except Exception as exc:          # noqa: BLE001
                same = False
                twin = exc
            if not same:
                res.violation(ID, 'read_meta', case, f'{text!r}: region differs from the one read from the inline spelling {e["same_as"]!r}: '
                                                     f'meta {dict(r.meta)!r} vs {getattr(twin, "meta", twin)!r}')
        for vk, vv in (e.get('visual') or {}).items():
            if str(r.visual.get(vk)) != str(vv):
                res.violation(ID, 'read_meta', case, f'{text!r} region {k}: {vk} = {r.visual.get(vk)!r}, expected {vv!r} (global vs inline precedence)')
    res.outcome(('read', name.split('/')[0]))
    res.nontriv(('read', name))


# ------------------------------------------------------------------ driver --
def shards(tier, seed):
    out = []
    for ch in chunks(single_cases(tier), 64 if tier == 'quick' else 192):
        out.append({'kind': 'single', 'cases': ch['cases']})
    for ch in chunks(list_cases(tier), 16 if tier == 'quick' else 48):
        out.append({'kind': 'lists', 'cases': ch['cases']})
    names = [n for n, _, _ in read_lines()]
    for ch in chunks(names, 8):
        out.append({'kind': 'read', 'cases': ch['cases']})
    return out


def run_shard(shard, tier, seed):
    res = Result()
    k = shard['kind']
    if k == 'single':
        for spec, cs, fmt, ru in shard['cases']:
            res.states += 1
            check_single(res, spec, cs, fmt, ru)
        res.sample({'op': 'single', 'case': shard['cases'][0]})
    elif k == 'lists':
        for specs, cs, ru in shard['cases']:
            res.states += 1
            check_list(res, specs, cs, ru)
        res.sample({'op': 'list', 'case': shard['cases'][-1]})
    else:
        for n in shard['cases']:
            res.states += 1
            check_read(res, n)
        table = {n: t for n, t, _ in read_lines()}
        res.sample({'op': 'read', 'name': shard['cases'][0], 'text': table[shard['cases'][0]]})
    return res


def replay(case):
    res = Result()
    if case['op'] == 'single':
        check_single(res, case['spec'], case['coordsys'], case['fmt'], case['radunit'])
    elif case['op'] == 'list':
        check_list(res, case['specs'], case['coordsys'], case['radunit'])
    else:
        check_read(res, case['name'])
    return res
