"""C08 -- compound regions and annuli obey set algebra.

Engine E2 (bounded-exhaustive lattice), three sub-lattices.  Nothing is random.

PAIRS.  A catalogue of 8 maskable pixel regions around (50, 50) -- circle, ellipse, rectangle, polygon,
regular polygon, circle annulus, ellipse annulus, rectangle annulus -- arranged so that the 64 ordered pairs
contain partially overlapping, nested, identical, disjoint (the union box needs a different padding on every
side) and nearly touching operands (gaps of 0.01 / 0.02 pixel; never an exact contact, so no position is
ever generated on a boundary).  One *configuration* = ordered pair x operator {and, or, xor} x include flag of
operand 1 {absent, False} x include flag of operand 2 {absent, False} x way the compound is made
{``a & b`` / ``a | b`` / ``a ^ b`` (real Python operators), ``a.intersection(b)`` / ``union`` /
``symmetric_difference``, ``CompoundPixelRegion(a, b, op)``, the constructor with meta include=False, the
constructor with meta include=True}.  Per configuration, against the reference model:

* membership   ``contains`` on the union of the two operands' shape-frame query lattices (C01's lattice, both
               sides of every boundary down to 2^-10 relative) plus a 24 x 24 grid over the union extent, as a
               flat array, as a 2-d array and as scalars (one per Venn cell; a scalar query must give a scalar
               bool, also through ``in``).  Reference: op(m1, m2), where m_k is the reference membership of
               operand k (``mc.oracles.geometry.Ref`` of the *simple* spec; the operand's own include flag
               applied by the driver), negated iff the compound's observable include flag is falsy.  The
               compound made without an explicit meta shares ``region1.meta`` (deliberate library behaviour),
               so its observable flag is operand 1's: modelled, not flagged.  Only positions where both
               operands are ``sure`` (outside the reference's guard band) are compared.
* bounding box ``compound.bounding_box`` == union (own min/max) of the operands' ``bounding_box`` values, and
               == union of the reference boxes floor(lo + 1/2), ceil(hi + 1/2) of the operands' true extents
               (sides whose true extent is within 1e-9 of a pixel edge are not judged by the second form).
* centre mask  ``to_mask('center')``: ``mask.bbox`` == bounding box, shape == box shape, values in {0, 1}, and
               data == op applied to the operands' REFERENCE centre masks (geometric pixel-centre membership,
               include flags ignored -- ``to_mask`` never looks at them and the statement speaks of "the
               operands' masks"), each embedded into the union box by the driver's own index arithmetic
               (row = iy - iymin, column = ix - ixmin).  Pixel centres inside an operand's guard band are
               skipped.
* rotation     for 2 pivots x 3 angles: ``(a op b).rotate(c, t)`` is a CompoundPixelRegion with the same
               operator object, meta/visual equal in content to the original compound's, and operands equal
               (class, centre/vertices, sizes, angle to 1e-12 relative, meta, visual) to ``a.rotate(c, t)`` and
               ``b.rotate(c, t)``; additionally its membership at the ORACLE-rotated query positions equals
               the reference membership of the un-rotated positions (positions nearer than 0.02 pixel to a
               boundary are left out: the rotated coordinates carry rounding).
* conversion   for every WCS of the tier: ``(a op b).to_sky(w)`` is a CompoundSkyRegion with the same operator
               object, meta/visual equal in content to the pixel compound's, operands equal to ``a.to_sky(w)``
               and ``b.to_sky(w)`` (1e-12 relative), and ``contains(w.pixel_to_world(q), w)`` equal to the
               reference membership at q; the reverse: the sky compound built with the real *sky* operators /
               methods / constructor from ``a.to_sky(w)``, ``b.to_sky(w)`` has the reference membership, and
               its ``to_pixel(w)`` is a CompoundPixelRegion with the same operator, meta/visual content,
               operands equal to ``a.to_sky(w).to_pixel(w)`` ... and the reference membership.  Positions
               nearer than 0.02 pixel (1% of the smallest size in the catalogue) to a boundary are left out
               (the conversion round trip is exact to ~1e-10 pixel only).

TREES.  Leaves A (circle), B (ellipse), C (rectangle), mutually overlapping with all 8 Venn cells populated.
All 2700 expressions op(e1, e2) with e1, e2 of depth <= 1 (depth <= 2 overall), built with the real operators
&, |, ^ (shared leaf objects where a leaf occurs twice), x include-flag patterns on the leaves.  Depth 3
(thorough tier): the complete "spine" family op(T, leaf) and op(leaf, T) for every T of depth exactly 2
(2673 x 3 leaves x 2 sides x 3 operators = 48114), x 4 flag patterns.  Per tree: membership (flat + two
scalars) against the recursively evaluated reference (every inner node inherits the flag of its left-most
leaf), bounding box and centre mask as above; thorough, depth <= 2, first flag pattern: additionally one
rotation and one WCS conversion (structure recursively, membership).

ANNULI.  The three annulus classes over a size/angle/centre lattice (mc.catalog) x the 5 include values:
membership == (inside outer) and not (inside inner), where outer and inner are references of two SIMPLE specs
built from the annulus' sizes (geometry.py's own annulus branch is not used), the include flag applied once;
``area`` == area(outer) - area(inner) with the analytic formulas pi r^2, pi/4 w h, w h, to 1e-12 relative of
the difference + 16 ulp of the outer area (the two terms are rounded separately).

Tiers.  thorough = everything above for every configuration.  quick = the same configurations, with the
expensive sub-checks thinned by rule: every pair configuration is converted with ONE WCS (the two WCS of the
seed -- one TAN, one SIN, different rotations -- alternate with the configuration index inside each (pair,
operator) block); the reverse direction (sky operators, to_pixel) is run for the constructions ``operator`` and
``constructor + include=False``; membership after rotation for 2 of the 6 rotations (90 deg about (50, 50) and
-123.4 deg about (0, 0); the structural comparison for all 6); trees of depth <= 2 only, 3 leaf-flag patterns.
In both tiers the bounding box / centre mask of a tree is checked under the first flag pattern only (masks do
not look at include flags; flagged masks are covered by the pairs).

VERIF_SEED selects, in the quick tier only, which 2 of the 6 WCS are used; the thorough tier uses all 6 and
does not depend on it.  Nothing else depends on it.
"""
import math
import operator

import numpy as np

from mc.result import Result
from mc import catalog as K
from mc.oracles import geometry as G
from mc.oracles import regdesc as RD

ID = 'C08'
LEVEL = 'model_checking'
ENGINE = 'E2-lattice'
FILES = ['regions/core/compound.py', 'regions/core/core.py', 'regions/shapes/annulus.py',
         'regions/core/bounding_box.py']
RULE = ('pairs: full Cartesian product of ordered operand pair (8 x 8 catalogue regions: overlapping, nested, identical, '
        'disjoint, nearly touching) x operator {and, or, xor} x include of operand 1 {absent, False} x include of '
        'operand 2 {absent, False} x construction {operator, method, constructor, constructor+include=False, '
        'constructor+include=True, constructor + explicit empty meta}; one state = one such configuration; per state contains (flat, 2-d, scalars, in), '
        'bounding_box, to_mask(center), rotate (2 pivots x 3 angles, structure + membership), to_sky / sky contains / '
        'sky operators / to_pixel for every WCS of the tier.  trees: every expression of depth <= 2 over 3 leaves and 3 '
        'operators (2700), thorough: every depth-3 spine tree op(T, leaf) / op(leaf, T) with T of depth exactly 2 '
        '(48114), x leaf include patterns; one state = one (tree, pattern).  annuli: full product class x size pairs x '
        'angle x centre; one state = one spec, checked with all 5 include values.  annulus masks: small annuli of the 3 classes on centres '
        'whose fractional parts place the inner box symmetrically and asymmetrically inside the outer one; the centre mask is compared '
        'pixel by pixel with xor(inner mask, outer mask) on the union box and with the reference membership of the pixel centres.  A pair state is non-trivial when sure '
        'queries exist in all four Venn cells (A only, B only, both, neither); a tree state when its reference answer has '
        'sure members and sure non-members; an annulus state when sure queries exist in the hole, in the ring and outside')
BOUNDS = {
    'quick': '64 ordered pairs x 3 operators x 4 operand-flag patterns x 6 constructions (4608 configurations), 6 rotations '
             'each (membership after rotation for 2 of them), one of 2 WCS (chosen by VERIF_SEED) per configuration, reverse '
             'conversion for 2 of the 5 constructions; 2700 trees of depth <= 2 x 3 leaf-flag patterns; annuli: sizes '
             '{1, 2^-10, 2.5, 1.75*2^20} (all inner<outer radius pairs; all inner width x height pairs x 3 outer factors), 6 '
             'angles (deg Quantity / rad Angle), 2 centres, 5 include values; annulus masks: 10 centres (fractions {0, .5, .8}^2 + one '
             'negative) x (10 radius pairs | 3 inner sizes x 3 factors x 4 angles, 2 classes)',
    'thorough': '4608 pair configurations, 6 rotations each, all 6 WCS (TAN/SIN x rotation {0, 30, 137} deg, 1e-3 deg/pixel); '
                '2700 trees of depth <= 2 x all 8 leaf-flag patterns (first pattern: + rotation and conversion), 48114 depth-3 '
                'spine trees x 4 flag patterns; annuli: 18 radii (all 153 pairs), 9 x 9 inner width x height pairs x 3 outer '
                'factors x 20 angle representations (11 angles in deg; 123.4 deg in rad/arcmin/arcsec/hourangle as Quantity '
                'and Angle; 30 deg as Angle) x 4 centres, 5 include values; annulus masks: 26 centres (fractions {0, .2, .5, .8, .125}^2 + one '
                'negative) x (10 radius pairs | 3 inner sizes x 3 factors x 10 angles, 2 classes)',
}
ASSUMPTIONS = [
    'numpy elementwise arithmetic and math.cos/sin are trusted (the oracle is vectorised)',
    'positions inside the reference guard band of an operand (1e-9 relative + 64 ulp of the largest coordinate) are excepted',
    'membership after rotation / WCS conversion is compared only at positions at least 0.02 pixel away from every operand '
    'boundary (rounding of the rotated / converted parameters; measured round-trip error ~1e-11 pixel)',
    'operands of converted / rotated compounds are compared with the separately converted / rotated operands to 1e-12 relative '
    '(a differential relation between two library paths, as the statement "commutes with" demands); the correctness of the '
    "operands' own conversion and rotation is C06/C07/C15's business",
    'astropy WCS pixel_to_world defines the sky position corresponding to a pixel position (trusted)',
    'to_mask ignores include flags (the statement speaks of the operands\' masks); the reference mask is geometric',
    'bounding-box sides whose true extent lies within 1e-9 of a pixel edge are judged only through the operands\' own boxes',
]

OPS = {'and': operator.and_, 'or': operator.or_, 'xor': operator.xor}
NPOP = {'and': np.logical_and, 'or': np.logical_or, 'xor': np.logical_xor}
PYOP = {'and': lambda a, b: a and b, 'or': lambda a, b: a or b, 'xor': lambda a, b: a != b}
METHOD = {'and': 'intersection', 'or': 'union', 'xor': 'symmetric_difference'}
OPNAMES = ['and', 'or', 'xor']


def _deg(d):
    return [d, 'deg', 'quantity']


# ---- the catalogue -------------------------------------------------------------------------------------------
# circle / circleannulus: gap 0.01 (x = 43.99 | 44);  circle / polygon: gap 0.01 (x = 56 | 56.01);  circle in the
# hole of the rectangle annulus: gap 0.02 on both sides (disjoint sets, nested boxes);  polygon edge 0.01 inside
# that hole's edge;  rectangle nested in the circle;  ellipse, ellipse annulus: partial overlaps;  regular polygon and
# polygon: disjoint from the circle towards different corners (different padding on each side of the union box).
CAT = {
    'circle': {'cls': 'circle', 'center': [50.0, 50.0], 'radius': 6.0},
    'ellipse': {'cls': 'ellipse', 'center': [54.5, 51.25], 'width': 14.0, 'height': 5.0, 'angle': _deg(30.0)},
    'rectangle': {'cls': 'rectangle', 'center': [50.5, 49.75], 'width': 3.0, 'height': 2.0, 'angle': _deg(20.0)},
    'polygon': {'cls': 'polygon', 'vertices': [[56.01, 64.0, 66.25, 60.0, 56.01], [44.0, 41.0, 52.0, 49.5, 53.0]]},
    'regpoly': {'cls': 'regpoly', 'center': [41.0, 59.5], 'n': 5, 'radius': 4.0, 'angle': _deg(12.0)},
    'circleannulus': {'cls': 'circleannulus', 'center': [37.99, 50.0], 'inner_radius': 3.0, 'outer_radius': 6.0},
    'ellipseannulus': {'cls': 'ellipseannulus', 'center': [52.0, 47.0], 'inner_width': 4.0, 'inner_height': 2.0,
                       'outer_width': 18.0, 'outer_height': 12.0, 'angle': _deg(45.0)},
    'rectangleannulus': {'cls': 'rectangleannulus', 'center': [50.0, 50.0], 'inner_width': 12.04, 'inner_height': 16.0,
                         'outer_width': 30.0, 'outer_height': 24.0, 'angle': _deg(0.0)},
    # leaves of the expression trees: all 8 Venn cells are populated
    'A': {'cls': 'circle', 'center': [50.0, 50.0], 'radius': 6.0},
    'B': {'cls': 'ellipse', 'center': [54.5, 51.25], 'width': 14.0, 'height': 5.0, 'angle': _deg(30.0)},
    'C': {'cls': 'rectangle', 'center': [54.0, 54.0], 'width': 12.0, 'height': 4.0, 'angle': _deg(10.0)},
}
PAIR_NAMES = ['circle', 'ellipse', 'rectangle', 'polygon', 'regpoly', 'circleannulus', 'ellipseannulus', 'rectangleannulus']
TREE_LEAVES = ['A', 'B', 'C']
COLORS = {'circle': 'red', 'ellipse': 'green', 'rectangle': 'blue', 'polygon': 'cyan', 'regpoly': 'magenta',
          'circleannulus': 'yellow', 'ellipseannulus': 'white', 'rectangleannulus': 'black', 'A': 'red', 'B': 'green',
          'C': 'blue'}
NEAR = {frozenset(('circle', 'circleannulus')): 0.01, frozenset(('circle', 'polygon')): 0.01,
        frozenset(('circle', 'rectangleannulus')): 0.02, frozenset(('polygon', 'rectangleannulus')): 0.01}
WIDE_D = 0.02            # pixel; 1% of the smallest full size in the catalogue (2.0)

# 'empty': the constructor is given an explicit EMPTY meta and visual -- the compound is then included, whatever operand 1 says
VARIANTS = [['operator', 'inherit'], ['method', 'inherit'], ['ctor', 'inherit'], ['ctor', False], ['ctor', True], ['ctor', 'empty'],
            ['ctor_np', 'inherit']]      # ctor_np: the operator spelt as the numpy function (np.logical_and / _or / _xor)
OPERAND_INCS = ['absent', False]
WCSS = [[proj, rot] for proj in ('TAN', 'SIN') for rot in (0.0, 30.0, 137.0)]
# latitude on the first world axis (CTYPE1 = DEC--TAN): the 7th WCS, used for one configuration in three of the quick tier
WCSS_LATFIRST = len(WCSS)
WCSS.append(['TAN', 30.0, 'latfirst'])
ROTS = [[pv, _deg(a)] for pv in ([50.0, 50.0], [0.0, 0.0]) for a in (30.0, 90.0, -123.4)]
CMETA = {'text': 'cmp'}
CVISUAL = {'color': 'orange'}


def leaf_spec(name, inc):
    s = dict(CAT[name])
    if inc != 'absent':
        s['include'] = inc
    s['meta'] = {'text': name}
    s['visual'] = {'color': COLORS[name]}
    return s


def leaf(name, inc='absent'):
    return {'leaf': name, 'inc': inc}


def node(op, a, b, form='operator', inc='inherit'):
    return {'op': op, 'a': a, 'b': b, 'form': form, 'inc': inc}


def leaves_of(e):
    if 'leaf' in e:
        return [e['leaf']]
    return leaves_of(e['a']) + leaves_of(e['b'])


def depth_of(e):
    if 'leaf' in e:
        return 0
    return 1 + max(depth_of(e['a']), depth_of(e['b']))


def short(e):
    if 'leaf' in e:
        return e['leaf'] + ('' if e['inc'] == 'absent' else '!')
    sym = {'and': '&', 'or': '|', 'xor': '^'}[e['op']]
    tail = '' if e['inc'] == 'inherit' else f"[include={e['inc']}]"
    return f"({short(e['a'])} {sym} {short(e['b'])}){tail}"


# ---- real objects ---------------------------------------------------------------------------------------------
class Built:
    """A built expression: the real region plus the built operands."""

    def __init__(self, e, reg, a=None, b=None):
        self.e, self.reg, self.a, self.b = e, reg, a, b


def _cmeta(inc):
    from regions import RegionMeta, RegionVisual
    meta = RegionMeta()
    meta['include'] = inc
    for k, v in CMETA.items():
        meta[k] = v
    vis = RegionVisual()
    for k, v in CVISUAL.items():
        vis[k] = v
    return meta, vis


def _combine(e, ra, rb, sky=False):
    """The real compound of two real regions, made the way the expression says."""
    import regions as R
    op, form, inc = e['op'], e['form'], e['inc']
    if form == 'operator':
        if op == 'and':
            return ra & rb
        if op == 'or':
            return ra | rb
        return ra ^ rb
    if form == 'method':
        return getattr(ra, METHOD[op])(rb)
    cls = R.CompoundSkyRegion if sky else R.CompoundPixelRegion
    if form == 'ctor_np':
        return cls(ra, rb, {'and': np.logical_and, 'or': np.logical_or, 'xor': np.logical_xor}[op])
    if inc == 'inherit':
        return cls(ra, rb, OPS[op])
    if inc == 'empty':
        return cls(ra, rb, OPS[op], meta=R.RegionMeta(), visual=R.RegionVisual())
    meta, vis = _cmeta(inc)
    return cls(ra, rb, OPS[op], meta=meta, visual=vis)


def build_expr(e, cache):
    """Build the real pixel region of an expression; the same (leaf, include) is the same object throughout."""
    if 'leaf' in e:
        key = (e['leaf'], str(e['inc']))
        if key not in cache:
            cache[key] = Built(e, G.build(leaf_spec(e['leaf'], e['inc'])))
        return cache[key]
    a = build_expr(e['a'], cache)
    b = build_expr(e['b'], cache)
    return Built(e, _combine(e, a.reg, b.reg), a, b)


def build_sky_expr(e, leafsky):
    if 'leaf' in e:
        return Built(e, leafsky(e))
    a = build_sky_expr(e['a'], leafsky)
    b = build_sky_expr(e['b'], leafsky)
    return Built(e, _combine(e, a.reg, b.reg, sky=True), a, b)


# ---- reference model ------------------------------------------------------------------------------------------
def _box(bb):
    return (int(bb.ixmin), int(bb.ixmax), int(bb.iymin), int(bb.iymax))


def _union(b1, b2):
    return (min(b1[0], b2[0]), max(b1[1], b2[1]), min(b1[2], b2[2]), max(b1[3], b2[3]))


def oracle_box(name):
    """Reference integer box of a leaf and whether any side is within 1e-9 of a pixel edge."""
    ext, _ = G.Ref(CAT[name]).extent()
    amb = any(abs((v + 0.5) - round(v + 0.5)) < 1e-9 * (1.0 + abs(v)) for v in ext)
    return tuple(int(v) for v in G.bbox_from_extent(ext)), amb


class Model:
    """Reference values of a set of leaves on one fixed query array (built once per shard / process)."""

    def __init__(self, names):
        from regions import PixCoord
        self.names = sorted(set(names))
        xs, ys, ext = [], [], None
        for n in self.names:
            qx, qy = G.shape_frame_queries(CAT[n])
            xs.append(qx)
            ys.append(qy)
            e, _ = G.Ref(CAT[n]).extent()
            ext = e if ext is None else (min(ext[0], e[0]), max(ext[1], e[1]), min(ext[2], e[2]), max(ext[3], e[3]))
        n = 24
        x0, x1, y0, y1 = ext[0] - 1.5, ext[1] + 1.5, ext[2] - 1.5, ext[3] + 1.5
        gx = x0 + (np.arange(n) + 0.37) / n * (x1 - x0)
        gy = y0 + (np.arange(n) + 0.61) / n * (y1 - y0)
        GX, GY = np.meshgrid(gx, gy)
        self.qx = np.concatenate(xs + [GX.ravel()])
        self.qy = np.concatenate(ys + [GY.ravel()])
        self.pix = PixCoord(self.qx, self.qy)
        self.leaf = {}
        for nme in self.names:
            ref = G.Ref(CAT[nme])
            ins, sure = ref.member(self.qx, self.qy)
            ins, sure = np.array(ins, bool), np.array(sure, bool)
            wide = sure.copy()
            for k in range(8):
                a = 2.0 * math.pi * k / 8.0
                i2, s2 = ref.member(self.qx + WIDE_D * math.cos(a), self.qy + WIDE_D * math.sin(a))
                wide &= np.asarray(s2, bool) & (np.asarray(i2, bool) == ins)
            self.leaf[nme] = (ins, sure, wide)
        self.boxes = {nme: oracle_box(nme) for nme in self.names}
        self._masks = {}
        self._sky = {}
        self._wcs = {}
        self._rot = {}

    def wcs(self, k):
        if k not in self._wcs:
            from mc.pool import wcs_simple
            proj, rot = WCSS[k][:2]
            self._wcs[k] = wcs_simple(rot_deg=rot, cdelt=1e-3, proj=proj, lat_first=len(WCSS[k]) > 2)
        return self._wcs[k]

    def sky(self, k):
        """The sky positions corresponding to the pixel queries under WCS k (astropy, trusted)."""
        if k not in self._sky:
            self._sky[k] = self.wcs(k).pixel_to_world(self.qx, self.qy)
        return self._sky[k]

    def rotated(self, r):
        if r not in self._rot:
            from regions import PixCoord
            (px, py), ang = ROTS[r]
            rx, ry = G.rot(self.qx, self.qy, px, py, G.rad(ang))
            self._rot[r] = PixCoord(rx, ry)
        return self._rot[r]

    def leaf_mask(self, name, box):
        """Reference centre mask of a leaf on an integer box: (data, sure), row = iy - iymin, column = ix - ixmin."""
        key = (name, box)
        if key not in self._masks:
            xs = np.arange(box[0], box[1], dtype=float)
            ys = np.arange(box[2], box[3], dtype=float)
            ins, sure = G.Ref(CAT[name]).member(xs[None, :], ys[:, None])
            self._masks[key] = (np.array(ins, bool), np.array(sure, bool))
        return self._masks[key]


def obs_flag(e):
    """The observable include flag of an expression (a compound made without meta shares operand 1's meta)."""
    if 'leaf' in e:
        return True if e['inc'] == 'absent' else bool(e['inc'])
    if e['inc'] == 'inherit':
        return obs_flag(e['a'])
    if e['inc'] == 'empty':
        return True
    return bool(e['inc'])


def ref_member(e, M):
    """(membership incl. every include flag, sure, wide-sure) of an expression on M's queries."""
    if 'leaf' in e:
        ins, sure, wide = M.leaf[e['leaf']]
        return (ins if obs_flag(e) else ~ins), sure, wide
    a = ref_member(e['a'], M)
    b = ref_member(e['b'], M)
    v = NPOP[e['op']](a[0], b[0])
    if not obs_flag(e):
        v = ~v
    return v, a[1] & b[1], a[2] & b[2]


def _embed(box, data, ubox, fill):
    out = np.full((ubox[3] - ubox[2], ubox[1] - ubox[0]), fill, dtype=bool)
    r0, c0 = box[2] - ubox[2], box[0] - ubox[0]
    out[r0:r0 + data.shape[0], c0:c0 + data.shape[1]] = data
    return out


def ref_mask(bt, M, libbox):
    """Geometric reference centre mask of a built expression: (box, data, sure).  The box of a leaf is the real
    leaf's own ``bounding_box`` (libbox), the box of a node the own min/max union of its operands' boxes."""
    e = bt.e
    if 'leaf' in e:
        box = libbox(bt)
        data, sure = M.leaf_mask(e['leaf'], box)
        return box, data, sure
    ba, da, sa = ref_mask(bt.a, M, libbox)
    bb, db, sb = ref_mask(bt.b, M, libbox)
    ub = _union(ba, bb)
    data = NPOP[e['op']](_embed(ba, da, ub, False), _embed(bb, db, ub, False))
    sure = _embed(ba, sa, ub, True) & _embed(bb, sb, ub, True)
    return ub, data, sure


def oracle_union_box(e, M):
    if 'leaf' in e:
        return M.boxes[e['leaf']]
    (b1, a1), (b2, a2) = oracle_union_box(e['a'], M), oracle_union_box(e['b'], M)
    return _union(b1, b2), (a1 or a2)


# ---- comparison helpers ---------------------------------------------------------------------------------------
class Ctx:
    def __init__(self, res, case):
        self.res, self.case, self.ok = res, case, True

    def bad(self, kind, msg, expected=None, observed=None, **extra):
        self.ok = False
        case = dict(self.case)
        case.update(extra)
        self.res.violation(ID, kind, case, msg, expected, observed)


def _isboolscalar(v):
    return isinstance(v, (bool, np.bool_)) and np.ndim(v) == 0


def _call(cx, what, fn, **extra):
    """Run a library call that the property says must succeed."""
    try:
        return True, fn()
    except Exception as exc:          # noqa: BLE001 -- any exception here is a finding, not a harness error
        cx.bad('unexpected_exception', f'{what} raised {type(exc).__name__}: {exc}', 'no exception',
               type(exc).__name__, **extra)
        return False, None


def cmp_membership(cx, kind, what, got, want, mask, qx, qy, shape=None, **extra):
    shape = tuple(qx.shape if shape is None else shape)
    if not isinstance(got, np.ndarray) or got.shape != shape or got.dtype != np.bool_:
        cx.bad('answer_shape', f'{what}: answer is {type(got).__name__} shape {np.shape(got)} dtype '
                               f'{getattr(got, "dtype", None)}; expected a bool array of shape {shape}',
               list(shape), [type(got).__name__, list(np.shape(got))], **extra)
        return False
    bad = (got != want) & mask
    cx.res.extra['positions_compared'] = cx.res.extra.get('positions_compared', 0) + int(mask.sum())
    if bad.any():
        k = tuple(np.argwhere(bad)[0])
        cx.bad(kind, f'{what}: {int(bad.sum())} of {int(mask.sum())} compared positions answered wrongly; first at '
                     f'({float(qx[k])!r}, {float(qy[k])!r}): got {bool(got[k])}, reference {bool(want[k])}',
               bool(want[k]), bool(got[k]), **extra)
        return False
    return True


def _dicts_equal(m1, m2):
    return dict(m1) == dict(m2)


def region_diffs(exp, got):
    """Differences between two simple regions (class, geometry to 1e-12 relative, meta, visual)."""
    if type(exp) is not type(got):
        return [f'class: expected {type(exp).__name__}, got {type(got).__name__}']
    de, dg = RD.describe(exp), RD.describe(got)
    big = max([1.0] + [abs(v) for p in de.get('coords', []) for v in p])
    tol_sizes = [1e-12 * abs(s) for s in de.get('sizes', [])]
    diffs = RD.compare(de, dg, 1e-12 * big, tol_sizes, 1e-12 * (1.0 + abs(de.get('angle') or 0.0)))
    if de.get('nvertices') != dg.get('nvertices'):
        diffs.append(f"nvertices: expected {de.get('nvertices')}, got {dg.get('nvertices')}")
    if not _dicts_equal(exp.meta, got.meta):
        diffs.append(f'meta: expected {dict(exp.meta)!r}, got {dict(got.meta)!r}')
    if not _dicts_equal(exp.visual, got.visual):
        diffs.append(f'visual: expected {dict(exp.visual)!r}, got {dict(got.visual)!r}')
    return diffs


def cmp_struct(cx, got, bt, leaf_expect, want_cls, prefix, path, **extra):
    """``got`` must be the transform of the built expression ``bt``: compounds of class want_cls with the same
    operator object and meta/visual equal in content to the source node's; leaves equal to leaf_expect(leaf expr)."""
    cx.res.transitions += 1
    e = bt.e
    if 'leaf' in e:
        exp = leaf_expect(e)
        if exp is None:
            return
        diffs = region_diffs(exp, got)
        if diffs:
            cx.bad(prefix + '_operand', f'{path}: differs from the separately transformed operand {e["leaf"]}: '
                   + '; '.join(diffs[:4]), repr(exp)[:300], repr(got)[:300], **extra)
        return
    if type(got) is not want_cls:
        cx.bad(prefix + '_structure', f'{path}: is a {type(got).__name__}, expected {want_cls.__name__}',
               want_cls.__name__, type(got).__name__, **extra)
        return
    want_op = OPS[e['op']] if e.get('form') != 'ctor_np' else {'and': np.logical_and, 'or': np.logical_or, 'xor': np.logical_xor}[e['op']]
    if got.operator is not want_op:
        cx.bad(prefix + '_structure', f'{path}: operator is {got.operator!r}, expected {want_op!r}',
               repr(want_op), repr(got.operator), **extra)
    if not _dicts_equal(got.meta, bt.reg.meta):
        cx.bad(prefix + '_meta', f'{path}: meta {dict(got.meta)!r} != meta of the source compound {dict(bt.reg.meta)!r}',
               repr(dict(bt.reg.meta)), repr(dict(got.meta)), **extra)
    if not _dicts_equal(got.visual, bt.reg.visual):
        cx.bad(prefix + '_meta', f'{path}: visual {dict(got.visual)!r} != visual of the source compound '
                                 f'{dict(bt.reg.visual)!r}', repr(dict(bt.reg.visual)), repr(dict(got.visual)), **extra)
    cmp_struct(cx, got.region1, bt.a, leaf_expect, want_cls, prefix, path + '.region1', **extra)
    cmp_struct(cx, got.region2, bt.b, leaf_expect, want_cls, prefix, path + '.region2', **extra)


class LeafCache:
    """Separately transformed operands (the other library path of the differential relations)."""

    def __init__(self, cx_ref):
        self.store = {}
        self.cx_ref = cx_ref

    def get(self, e, what, key, fn):
        k = (e['leaf'], str(e['inc']), what, key)
        if k not in self.store:
            try:
                self.store[k] = fn(G.build(leaf_spec(e['leaf'], e['inc'])))
            except Exception as exc:       # noqa: BLE001
                self.cx_ref[0].bad('unexpected_exception', f'{what} of the operand {e["leaf"]} alone raised '
                                                           f'{type(exc).__name__}: {exc}')
                self.store[k] = None
        return self.store[k]


# ---- the checks on one expression -------------------------------------------------------------------------------
def check_mask_bbox(cx, bt, M):
    """bounding_box and centre mask of the built compound ``bt`` against the reference."""
    res = cx.res
    comp = bt.reg
    boxes = {}

    def libbox(b):
        if id(b) not in boxes:
            boxes[id(b)] = _box(b.reg.bounding_box)
        return boxes[id(b)]

    ok, bb = _call(cx, 'bounding_box', lambda: comp.bounding_box, check='bbox')
    res.transitions += 1
    if not ok:
        return
    try:
        got = _box(bb)
    except Exception:      # noqa: BLE001 -- e.g. None instead of a box
        cx.bad('bbox_wrong', f'bounding_box is {bb!r}, not a bounding box', 'RegionBoundingBox', repr(bb), check='bbox')
        return
    ok, ob = _call(cx, 'bounding_box of the operands', lambda: (libbox(bt.a), libbox(bt.b)), check='bbox')
    if not ok:
        return
    want = _union(*ob)
    if got != want:
        cx.bad('bbox_wrong', f'bounding_box {got} != union {want} of the operand boxes {ob[0]} and {ob[1]} '
                             '(ixmin, ixmax, iymin, iymax)', list(want), list(got), check='bbox')
        return
    obox, amb = oracle_union_box(bt.e, M)
    if amb:
        res.extra['bbox_ambiguous_skipped'] = res.extra.get('bbox_ambiguous_skipped', 0) + 1
    elif got != obox:
        cx.bad('bbox_vs_extent', f'bounding_box {got} != union {obox} of the reference boxes of the leaves',
               list(obox), list(got), check='bbox')
        return
    ok, m = _call(cx, "to_mask('center')", lambda: comp.to_mask('center'), check='mask')
    res.transitions += 1
    if not ok:
        return
    data = np.asarray(getattr(m, 'data', None))
    mb = getattr(m, 'bbox', None)
    if data.dtype == object or mb is None:
        cx.bad('mask_shape', f'to_mask returned {type(m).__name__}', 'RegionMask', type(m).__name__, check='mask')
        return
    if _box(mb) != got:
        cx.bad('mask_bbox', f'mask.bbox {_box(mb)} != bounding_box {got}', list(got), list(_box(mb)), check='mask')
        return
    shape = (got[3] - got[2], got[1] - got[0])
    if tuple(data.shape) != shape:
        cx.bad('mask_shape', f'mask data shape {tuple(data.shape)} != box shape {shape}', list(shape), list(data.shape),
               check='mask')
        return
    nonbin = ~((data == 0) | (data == 1))
    if nonbin.any():
        j, i = np.argwhere(nonbin)[0]
        cx.bad('mask_not_binary', f'centre mask holds {data[j, i]!r} at data[{j},{i}]', [0, 1], repr(data[j, i]), check='mask')
        return
    rbox, rdata, rsure = ref_mask(bt, M, libbox)
    if rbox != got:
        cx.bad('bbox_wrong', f'bounding_box {got} != union {rbox} of the boxes of all leaves (a nested operand reports a box '
                             'that is not the union of its own operands)', list(rbox), list(got), check='bbox')
        return
    bad = ((data != 0) != rdata) & rsure
    res.extra['pixels_compared'] = res.extra.get('pixels_compared', 0) + int(rsure.sum())
    if bad.any():
        j, i = np.argwhere(bad)[0]
        cx.bad('mask_wrong', f'{int(bad.sum())} of {int(rsure.sum())} pixels of the centre mask differ from '
                             f'{bt.e["op"]}(reference masks of the operands) on the union box {got}; first at data[{j},{i}] = pixel '
                             f'(ix={got[0] + int(i)}, iy={got[2] + int(j)}): mask {data[j, i]!r}, reference {int(rdata[j, i])}',
               int(rdata[j, i]), repr(data[j, i]), check='mask')
        return
    return data


def check_contains(cx, bt, M, want, sure, scalar_picks, two_d=True):
    from regions import PixCoord
    res = cx.res
    comp = bt.reg
    ok, got = _call(cx, 'contains(array)', lambda: comp.contains(M.pix), check='contains')
    res.transitions += 1
    good = ok and cmp_membership(cx, 'membership_wrong', 'contains(flat array)', got, want, sure, M.qx, M.qy, check='contains')
    if two_d:
        k = 24
        x2, y2 = M.qx[:2 * k].reshape(2, k), M.qy[:2 * k].reshape(2, k)
        ok, got2 = _call(cx, 'contains(2-d array)', lambda: comp.contains(PixCoord(x2, y2)), check='contains2d')
        res.transitions += 1
        if ok:
            cmp_membership(cx, 'membership_wrong', 'contains(2-d array)', got2, want[:2 * k].reshape(2, k),
                           sure[:2 * k].reshape(2, k), x2, y2, shape=(2, k), check='contains2d')
    for k in scalar_picks:
        pc = PixCoord(float(M.qx[k]), float(M.qy[k]))
        w = bool(want[k])
        ok, g = _call(cx, 'contains(scalar)', lambda: comp.contains(pc), check='scalar', index=int(k))
        res.transitions += 1
        if ok:
            if not _isboolscalar(g):
                cx.bad('scalar_answer_not_bool', f'contains(scalar) returned {type(g).__name__} of shape {np.shape(g)}: {g!r}',
                       'scalar bool', repr(g), check='scalar', index=int(k))
            elif bool(g) != w:
                cx.bad('membership_wrong', f'scalar query ({float(M.qx[k])!r}, {float(M.qy[k])!r}): got {bool(g)}, reference {w}', w, bool(g),
                       check='scalar', index=int(k))
        ok, g2 = _call(cx, '`coord in region`', lambda: pc in comp, check='scalar', index=int(k))
        res.transitions += 1
        if ok and (not _isboolscalar(g2) or bool(g2) != w):
            cx.bad('in_operator_wrong', f'`coord in region` at ({float(M.qx[k])!r}, {float(M.qy[k])!r}) gave {g2!r}, reference {w}', w, repr(g2),
                   check='scalar', index=int(k))
    return good


def check_rotations(cx, bt, M, want, wide, rots, lc, membership=None):
    import regions as R
    from regions import PixCoord
    res = cx.res
    for r in rots:
        (px, py), ang = ROTS[r]
        res.axis('rotation', f'({px},{py}) {ang[0]} deg')
        ok, rot = _call(cx, 'rotate', lambda: bt.reg.rotate(PixCoord(px, py), G._angle_obj(ang)), check='rotate', rot=r)
        res.transitions += 1
        if not ok:
            continue

        def expect(e, r=r, px=px, py=py, ang=ang):
            return lc.get(e, 'rotate', r, lambda reg: reg.rotate(PixCoord(px, py), G._angle_obj(ang)))
        cmp_struct(cx, rot, bt, expect, R.CompoundPixelRegion, 'rotate', 'rotated', check='rotate', rot=r)
        if (membership is None or r in membership) and type(rot) is R.CompoundPixelRegion:
            ok, got = _call(cx, 'contains of the rotated compound', lambda: rot.contains(M.rotated(r)), check='rotate', rot=r)
            res.transitions += 1
            if ok:
                cmp_membership(cx, 'rotate_membership', 'rotated compound at the oracle-rotated positions', got, want, wide,
                               M.qx, M.qy, check='rotate', rot=r)


def check_conversions(cx, bt, M, want, wide, wcs_ids, lc, reverse=True):
    import regions as R
    res = cx.res
    for k in wcs_ids:
        w = M.wcs(k)
        res.axis('wcs', f'{WCSS[k][0]} rot {WCSS[k][1]}' + (' latitude-first' if len(WCSS[k]) > 2 else ''))
        ok, csky = _call(cx, 'to_sky', lambda: bt.reg.to_sky(w), check='to_sky', wcs=k)
        res.transitions += 1

        def leafsky(e, k=k, w=w):
            return lc.get(e, 'to_sky', k, lambda reg: reg.to_sky(w))

        if ok:
            cmp_struct(cx, csky, bt, leafsky, R.CompoundSkyRegion, 'to_sky', 'to_sky(w)', check='to_sky', wcs=k)
            if type(csky) is R.CompoundSkyRegion:
                ok, got = _call(cx, 'contains of the converted sky compound', lambda: csky.contains(M.sky(k), w), check='to_sky', wcs=k)
                res.transitions += 1
                if ok:
                    cmp_membership(cx, 'sky_membership', 'to_sky(w).contains(pixel_to_world(q), w)', got, want, wide, M.qx, M.qy,
                                   check='to_sky', wcs=k)
        if not reverse:
            continue
        # ---- the reverse: the same expression built from the converted leaves with the real sky operators
        try:
            sbt = build_sky_expr(bt.e, leafsky)
        except Exception as exc:          # noqa: BLE001
            cx.bad('unexpected_exception', f'building the sky compound raised {type(exc).__name__}: {exc}', check='to_pixel', wcs=k)
            continue
        ok, got = _call(cx, 'contains of the sky compound', lambda: sbt.reg.contains(M.sky(k), w), check='to_pixel', wcs=k)
        res.transitions += 1
        if ok:
            cmp_membership(cx, 'sky_operator_membership', 'sky compound .contains(pixel_to_world(q), w)', got, want, wide,
                           M.qx, M.qy, check='to_pixel', wcs=k)
        ok, back = _call(cx, 'to_pixel', lambda: sbt.reg.to_pixel(w), check='to_pixel', wcs=k)
        res.transitions += 1
        if not ok:
            continue

        def leafpix(e, k=k, w=w):
            sk = leafsky(e)
            if sk is None:
                return None
            return lc.get(e, 'to_pixel', k, lambda reg: sk.to_pixel(w))
        cmp_struct(cx, back, sbt, leafpix, R.CompoundPixelRegion, 'to_pixel', 'to_pixel(w)', check='to_pixel', wcs=k)
        if type(back) is R.CompoundPixelRegion:
            ok, got = _call(cx, 'contains of the back-converted compound', lambda: back.contains(M.pix), check='to_pixel', wcs=k)
            res.transitions += 1
            if ok:
                cmp_membership(cx, 'to_pixel_membership', 'sky compound .to_pixel(w).contains(q)', got, want, wide, M.qx, M.qy,
                               check='to_pixel', wcs=k)


# ---- PAIRS ----------------------------------------------------------------------------------------------------
_MODELS = {}


def model_for(names):
    key = tuple(sorted(set(names)))
    if key not in _MODELS:
        if len(_MODELS) > 4:
            _MODELS.clear()
        _MODELS[key] = Model(key)
    return _MODELS[key]


def relation(M, n1, n2):
    """(relation tag, all four Venn cells present, one sure query index per present cell)."""
    i1, s1, _ = M.leaf[n1]
    i2, s2, _ = M.leaf[n2]
    s = s1 & s2
    cells = {'A': i1 & ~i2 & s, 'B': ~i1 & i2 & s, 'AB': i1 & i2 & s, 'none': ~i1 & ~i2 & s}
    has = {k: bool(v.any()) for k, v in cells.items()}
    if n1 == n2:
        tag = 'identical'
    elif not has['AB']:
        tag = 'disjoint'
    elif has['A'] and has['B']:
        tag = 'overlap'
    else:
        tag = 'nested'
    gap = NEAR.get(frozenset((n1, n2)))
    if gap is not None:
        tag += f'+near({gap})'
    picks = [int(np.flatnonzero(v)[0]) for v in cells.values() if v.any()]
    return tag, all(has.values()), picks


def wcs_ids(tier, seed):
    if tier == 'quick':
        return [int(seed) % 3, 3 + (int(seed) + 1) % 3]
    return list(range(len(WCSS)))


def check_pair_config(res, e, wcss, rots, lc_holder=None, only=None, reverse=True, rot_membership=None):
    n1, n2 = e['a']['leaf'], e['b']['leaf']
    M = model_for([n1, n2])
    case = {'part': 'pair', 'expr': e, 'text': short(e)}
    cx = Ctx(res, case)
    res.states += 1
    res.evaluations += 1
    tag, full, picks = relation(M, n1, n2)
    res.axis('part', 'pair')
    res.axis('op', e['op'])
    res.axis('relation', tag)
    res.axis('operand1', n1)
    res.axis('operand2', n2)
    res.axis('include1', e['a']['inc'])
    res.axis('include2', e['b']['inc'])
    res.axis('construction', f"{e['form']}/{e['inc']}")
    if full:
        res.nontriv(('pair', e))
    if lc_holder is None:
        lc_holder = {}
    lc = lc_holder.setdefault('lc', LeafCache([cx]))
    lc.cx_ref[0] = cx
    try:
        bt = build_expr(e, {})
    except Exception as exc:          # noqa: BLE001
        cx.bad('build_failed', f'could not build {short(e)}: {type(exc).__name__}: {exc}')
        return
    comp = bt.reg
    import regions as R
    res.transitions += 1
    if type(comp) is not R.CompoundPixelRegion or (comp.operator is not OPS[e['op']] and e.get('form') != 'ctor_np'):
        cx.bad('compound_structure', f'{short(e)} is a {type(comp).__name__} with operator {getattr(comp, "operator", None)!r}; '
                                     f'expected a CompoundPixelRegion with {OPS[e["op"]]!r}', repr(OPS[e['op']]),
               repr(getattr(comp, 'operator', None)))
        return
    want, sure, wide = ref_member(e, M)
    flag = obs_flag(e)
    good = True
    if only in (None, 'contains', 'contains2d', 'scalar'):
        good = check_contains(cx, bt, M, want, sure, picks)
    if only in (None, 'bbox', 'mask'):
        check_mask_bbox(cx, bt, M)
    if only in (None, 'rotate'):
        check_rotations(cx, bt, M, want, wide, rots, lc, membership=rot_membership)
    if only in (None, 'to_sky', 'to_pixel'):
        check_conversions(cx, bt, M, want, wide, wcss, lc, reverse=reverse)
    res.outcome(('pair', e['op'], tag, obs_flag(e['a']), obs_flag(e['b']), flag, 'ok' if cx.ok else 'BAD'))
    if res.states <= 2:
        res.sample({'case': case, 'relation': tag, 'n_queries': int(M.qx.size), 'n_sure': int(sure.sum()),
                    'n_wide': int(wide.sum()), 'observable_include': flag, 'members_among_sure': int((want & sure).sum())})
    return good


def pair_exprs(n1, n2, op):
    out = []
    for i1 in OPERAND_INCS:
        for i2 in OPERAND_INCS:
            for form, inc in VARIANTS:
                out.append(node(op, leaf(n1, i1), leaf(n2, i2), form, inc))
    return out


# ---- TREES ----------------------------------------------------------------------------------------------------
def _tdepth(t):
    return 0 if isinstance(t, str) else 1 + max(_tdepth(t[1]), _tdepth(t[2]))


def trees_depth2():
    """All op(e1, e2) with e1, e2 of depth <= 1 over the three leaves: 3 * 30 * 30 = 2700 (compact list form)."""
    d1 = list(TREE_LEAVES) + [[op, x, y] for op in OPNAMES for x in TREE_LEAVES for y in TREE_LEAVES]
    return [[op, e1, e2] for op in OPNAMES for e1 in d1 for e2 in d1]


def trees_depth3():
    """Spine trees op(T, leaf), op(leaf, T) for every T of depth exactly 2: 2673 * 3 * 2 * 3 = 48114."""
    t2 = [t for t in trees_depth2() if _tdepth(t) == 2]
    out = []
    for op in OPNAMES:
        for t in t2:
            for lf in TREE_LEAVES:
                out.append([op, t, lf])
                out.append([op, lf, t])
    return out


def flag_patterns(tier, deep=False):
    a, f = 'absent', False
    if deep:
        return [[a, a, a], [f, a, a], [a, f, a], [a, a, f]]
    if tier == 'quick':
        return [[a, a, a], [f, a, a], [a, f, a]]
    return [[x, y, z] for x in (a, f) for y in (a, f) for z in (a, f)]


def tree_expr(t, flags):
    if isinstance(t, str):
        return leaf(t, flags[TREE_LEAVES.index(t)])
    return node(t[0], tree_expr(t[1], flags), tree_expr(t[2], flags))


def truth_table(e):
    """The Boolean function of (in A, in B, in C) an expression denotes, include flags applied: 8-bit integer."""
    def ev(x, cell):
        if 'leaf' in x:
            v = bool(cell >> TREE_LEAVES.index(x['leaf']) & 1)
            return v if obs_flag(x) else not v
        v = PYOP[x['op']](ev(x['a'], cell), ev(x['b'], cell))
        return v if obs_flag(x) else not v
    return sum(int(ev(e, c)) << c for c in range(8))


def check_tree(res, t, flags, extras=False, only=None, masks=True):
    e = tree_expr(t, flags)
    M = model_for(TREE_LEAVES)
    case = {'part': 'tree', 'tree': t, 'flags': list(flags), 'text': short(e), 'extras': bool(extras)}
    cx = Ctx(res, case)
    res.states += 1
    res.evaluations += 1
    d = _tdepth(t)
    res.axis('part', 'tree')
    res.axis('tree_depth', d)
    res.axis('tree_root_op', t[0])
    res.axis('tree_flags', '/'.join(str(f) for f in flags))
    try:
        bt = build_expr(e, {})
    except Exception as exc:          # noqa: BLE001
        cx.bad('build_failed', f'could not build {short(e)}: {type(exc).__name__}: {exc}')
        return
    want, sure, wide = ref_member(e, M)
    mem = np.flatnonzero(want & sure)
    non = np.flatnonzero(~want & sure)
    if mem.size and non.size:
        res.nontriv(('tree', t, list(flags)))
    picks = ([int(mem[0])] if mem.size else []) + ([int(non[-1])] if non.size else [])
    if only in (None, 'contains', 'scalar', 'contains2d'):
        check_contains(cx, bt, M, want, sure, picks if d <= 2 else [], two_d=False)
    if masks and only in (None, 'bbox', 'mask'):
        check_mask_bbox(cx, bt, M)
    if extras:
        lc = LeafCache([cx])
        if only in (None, 'rotate'):
            check_rotations(cx, bt, M, want, wide, [5], lc)
        if only in (None, 'to_sky', 'to_pixel'):
            check_conversions(cx, bt, M, want, wide, [1], lc, reverse=False)
    res.outcome(('tree', d, truth_table(e), 'ok' if cx.ok else 'BAD'))
    if res.states <= 2:
        res.sample({'case': case, 'truth_table_over_ABC_cells': truth_table(e), 'n_queries': int(M.qx.size),
                    'n_sure': int(sure.sum()), 'observable_include': obs_flag(e)})


def tree_cells_present():
    """How many of the 8 Venn cells of (A, B, C) hold a sure query (evidence only)."""
    M = model_for(TREE_LEAVES)
    vals = [M.leaf[n] for n in TREE_LEAVES]
    s = vals[0][1] & vals[1][1] & vals[2][1]
    code = vals[0][0].astype(int) + 2 * vals[1][0].astype(int) + 4 * vals[2][0].astype(int)
    return len(set(code[s].tolist()))


# ---- ANNULI ---------------------------------------------------------------------------------------------------
FACTORS = [(1.25, 1.25), (4.0, 1.5), (1.0 + 2.0 ** -8, 3.0)]


def annulus_specs(tier):
    if tier == 'quick':
        centres = [K.CENTRES[1], K.CENTRES[2]]
        radii = K.sizes('quick')
        pairs = K.pair_sizes('quick')
        angles = [_deg(0.0), _deg(30.0), K.angle_spec(123.4, 'rad', 'angle'), _deg(270.0), K.angle_spec(-60.0, 'arcsec', 'quantity'),
                  [725.0, 'deg', 'angle']]
    else:
        centres = K.CENTRES
        radii = K.sizes('thorough')
        pairs = K.pair_sizes('thorough')
        angles = [_deg(d) for d in K.ANGLES_DEG]
        angles += [K.angle_spec(123.4, u, k) for u in K.UNITS[1:] for k in ('quantity', 'angle')]
        angles += [[30.0, 'deg', 'angle']]
    out = []
    for c in centres:
        for ri in radii:
            for ro in radii:
                if ri < ro:
                    out.append({'cls': 'circleannulus', 'center': list(c), 'inner_radius': ri, 'outer_radius': ro})
    for cls in ('ellipseannulus', 'rectangleannulus'):
        for c in centres:
            for w in pairs:
                for h in pairs:
                    for (fw, fh) in FACTORS:
                        for a in angles:
                            out.append({'cls': cls, 'center': list(c), 'inner_width': w, 'inner_height': h,
                                        'outer_width': w * fw, 'outer_height': h * fh, 'angle': a})
    # integral sizes given as narrow numpy integer scalars (their squares and products do not fit the type); also with an integer centre
    for dt, (iw, ih, ow, oh) in (('uint8', (20, 10, 40, 30)), ('int8', (10, 12, 100, 90)), ('int16', (150, 100, 300, 200)), ('uint16', (200, 100, 300, 260))):
        for c in (centres[0], (12, 7)):
            out.append({'cls': 'circleannulus', 'center': list(c), 'inner_radius': ih, 'outer_radius': oh, 'size_dtype': dt})
            for cls in ('ellipseannulus', 'rectangleannulus'):
                for a in angles[:2]:
                    out.append({'cls': cls, 'center': list(c), 'inner_width': iw, 'inner_height': ih, 'outer_width': ow, 'outer_height': oh,
                                'angle': a, 'size_dtype': dt})
    return out


def annulus_parts(spec):
    """The two SIMPLE specs (inner, outer) of an annulus spec."""
    c = spec['cls']
    if c == 'circleannulus':
        return ({'cls': 'circle', 'center': spec['center'], 'radius': spec['inner_radius']},
                {'cls': 'circle', 'center': spec['center'], 'radius': spec['outer_radius']})
    base = 'ellipse' if c == 'ellipseannulus' else 'rectangle'
    return ({'cls': base, 'center': spec['center'], 'width': spec['inner_width'], 'height': spec['inner_height'],
             'angle': spec['angle']},
            {'cls': base, 'center': spec['center'], 'width': spec['outer_width'], 'height': spec['outer_height'],
             'angle': spec['angle']})


def simple_area(s):
    if s['cls'] == 'circle':
        return math.pi * s['radius'] ** 2
    if s['cls'] == 'ellipse':
        return math.pi / 4.0 * s['width'] * s['height']
    return s['width'] * s['height']


def check_annulus(res, spec, includes=K.INCLUDES):
    from regions import PixCoord
    inner, outer = annulus_parts(spec)
    xi, yi = G.shape_frame_queries(inner)
    xo, yo = G.shape_frame_queries(outer)
    qx, qy = np.concatenate([xi, xo]), np.concatenate([yi, yo])
    ii, si = G.Ref(inner).member(qx, qy)
    io, so = G.Ref(outer).member(qx, qy)
    ii, io = np.array(ii, bool), np.array(io, bool)
    sure = np.array(si, bool) & np.array(so, bool)
    ring = io & ~ii
    res.states += 1
    res.axis('part', 'annulus')
    res.axis('annulus_cls', spec['cls'])
    if 'angle' in spec:
        res.axis('annulus_angle_unit', spec['angle'][1] + '/' + spec['angle'][2])
    hole, ringp, outside = bool((ii & sure).any()), bool((ring & sure).any()), bool((~io & sure).any())
    if hole and ringp and outside:
        res.nontriv(('annulus', spec))
    pc = PixCoord(qx, qy)
    picks = [int(np.flatnonzero(v & sure)[0]) for v in (ii, ring, ~io) if (v & sure).any()]
    allok = True
    for inc in includes:
        s = dict(spec)
        if inc != 'absent':
            s['include'] = inc
        case = {'part': 'annulus', 'spec': s}
        cx = Ctx(res, case)
        res.evaluations += 1
        res.axis('annulus_include', str(inc))
        flag = G.included(s)
        try:
            reg = G.build_routed(s)     # by hash: fresh | parameters re-assigned after use | modified in place
        except Exception as exc:          # noqa: BLE001
            cx.bad('build_failed', f'could not construct the annulus: {type(exc).__name__}: {exc}')
            continue
        want = ring if flag else ~ring
        ok, got = _call(cx, 'contains(array)', lambda: reg.contains(pc), check='contains')
        res.transitions += 1
        if ok:
            cmp_membership(cx, 'annulus_membership', 'annulus contains vs (inside outer) and not (inside inner)', got, want, sure,
                           qx, qy, check='contains')
        if inc in ('absent', False):
            for k in picks:
                w = bool(want[k])
                ok, g = _call(cx, 'contains(scalar)', lambda: reg.contains(PixCoord(float(qx[k]), float(qy[k]))), check='scalar')
                res.transitions += 1
                if ok and not _isboolscalar(g):
                    cx.bad('scalar_answer_not_bool', f'contains(scalar) returned {type(g).__name__} of shape {np.shape(g)}',
                           'scalar bool', repr(g), check='scalar')
                elif ok and bool(g) != w:
                    cx.bad('annulus_membership', f'scalar query ({float(qx[k])!r}, {float(qy[k])!r}): got {bool(g)}, reference {w}', w, bool(g),
                           check='scalar')
        if inc == 'absent':
            ao, ai = simple_area(outer), simple_area(inner)
            ok, area = _call(cx, 'area', lambda: reg.area, check='area')
            res.transitions += 1
            if ok:
                tol = 1e-12 * abs(ao - ai) + 16.0 * math.ulp(ao)
                if not abs(float(area) - (ao - ai)) <= tol:
                    cx.bad('annulus_area', f'area {float(area)!r} != area(outer) - area(inner) = {ao!r} - {ai!r} = {ao - ai!r} '
                                           f'(tolerance {tol:.3g})', ao - ai, float(area), check='area')
        allok = allok and cx.ok
    res.outcome(('annulus', spec['cls'], hole, ringp, outside, 'ok' if allok else 'BAD'))
    if res.states <= 1:
        res.sample({'annulus_spec': spec, 'n_queries': int(qx.size), 'n_sure': int(sure.sum())})


# ---- ANNULUS MASKS ----------------------------------------------------------------------------------------------
# small annuli (the masks are compared pixel by pixel) on centres whose fractional parts put the inner box
# asymmetrically inside the outer one (left pad != right pad), on pixel centres, on pixel edges and in between
MASK_FRACS = {'quick': [0.0, 0.5, 0.8], 'thorough': [0.0, 0.2, 0.5, 0.8, 0.125]}
MASK_RADII = [0.4, 1.0, 2.0, 2.5, 3.4]
MASK_INNER = [(1.0, 2.5), (2.0, 2.0), (3.4, 0.75)]
MASK_FACTORS = [(1.25, 1.25), (4.0, 1.5), (1.5, 2.2)]


def annulus_mask_specs(tier):
    fr = MASK_FRACS[tier]
    centres = [(3.0 + fx, 4.0 + fy) for fx in fr for fy in fr] + [(-7.0 + fr[-1], -2.0 + fr[1])]
    if tier == 'quick':
        angles = [_deg(0.0), _deg(30.0), K.angle_spec(123.4, 'rad', 'angle'), _deg(-90.0)]
    else:
        angles = [_deg(d) for d in (0.0, 30.0, 45.0, 90.0, -60.0, 123.4, 180.0, 270.0)] + [K.angle_spec(123.4, 'rad', 'angle'),
                                                                                           K.angle_spec(-60.0, 'arcmin', 'quantity')]
    out = []
    for c in centres:
        for ri in MASK_RADII:
            for ro in MASK_RADII:
                if ri < ro:
                    out.append({'cls': 'circleannulus', 'center': list(c), 'inner_radius': ri, 'outer_radius': ro})
    for cls in ('ellipseannulus', 'rectangleannulus'):
        for c in centres:
            for (w, h) in MASK_INNER:
                for (fw, fh) in MASK_FACTORS:
                    for a in angles:
                        out.append({'cls': cls, 'center': list(c), 'inner_width': w, 'inner_height': h,
                                    'outer_width': w * fw, 'outer_height': h * fh, 'angle': a})
    return out


def check_annulus_mask(res, spec, includes=('absent', False)):
    """Centre-mode mask of an annulus: on the annulus' own box (= the union of the boxes of the two shapes), equal to
    xor(mask of the inner shape, mask of the outer shape) placed on that box, and equal to the reference membership
    (inside outer, not inside inner) of every pixel centre that is not within the guard band of a boundary."""
    inner, outer = annulus_parts(spec)
    res.states += 1
    res.axis('part', 'annulus_mask')
    res.axis('annulus_cls', spec['cls'])
    res.axis('centre_fraction', f"{spec['center'][0] % 1.0:g}/{spec['center'][1] % 1.0:g}")
    allok = True
    pads = None
    for inc in includes:
        s = dict(spec)
        if inc != 'absent':
            s['include'] = inc
        case = {'part': 'annulus_mask', 'spec': s}
        cx = Ctx(res, case)
        res.evaluations += 1
        try:
            reg = G.build_routed(s)
            rin, rout = G.build(inner), G.build(outer)
        except Exception as exc:          # noqa: BLE001
            cx.bad('build_failed', f'could not construct the annulus: {type(exc).__name__}: {exc}')
            continue
        ok, got = _call(cx, "to_mask('center')", lambda: (reg.to_mask('center'), reg.bounding_box), check='annulus_mask')
        res.transitions += 1
        if not ok:
            allok = False
            continue
        m, bb = got
        ok, parts = _call(cx, "to_mask('center') of the two shapes", lambda: (rin.to_mask('center'), rout.to_mask('center')),
                          check='annulus_mask')
        if not ok:
            allok = False
            continue
        mi, mo = parts
        data = np.asarray(getattr(m, 'data', None))
        if data.dtype == object or getattr(m, 'bbox', None) is None:
            cx.bad('mask_shape', f'to_mask returned {type(m).__name__}', 'RegionMask', type(m).__name__, check='annulus_mask')
            continue
        box, bi, bo = _box(m.bbox), _box(mi.bbox), _box(mo.bbox)
        ub = _union(bi, bo)
        pads = (bi[0] - ub[0], ub[1] - bi[1], bi[2] - ub[2], ub[3] - bi[3])
        if box != ub or _box(bb) != ub:
            cx.bad('mask_bbox', f'annulus mask box {box} / bounding_box {_box(bb)} != union {ub} of the boxes of its two shapes',
                   list(ub), list(box), check='annulus_mask')
            continue
        shape = (ub[3] - ub[2], ub[1] - ub[0])
        if tuple(data.shape) != shape:
            cx.bad('mask_shape', f'mask data shape {tuple(data.shape)} != box shape {shape}', list(shape), list(data.shape),
                   check='annulus_mask')
            continue
        nonbin = ~((data == 0) | (data == 1))
        if nonbin.any():
            j, i = np.argwhere(nonbin)[0]
            cx.bad('mask_not_binary', f'centre mask holds {data[j, i]!r} at data[{j},{i}]', [0, 1], repr(data[j, i]),
                   check='annulus_mask')
            continue
        want = np.logical_xor(_embed(bi, np.asarray(mi.data) != 0, ub, False), _embed(bo, np.asarray(mo.data) != 0, ub, False))
        bad = (data != 0) != want
        res.transitions += 1
        if bad.any():
            j, i = np.argwhere(bad)[0]
            cx.bad('annulus_mask_wrong', f'{int(bad.sum())} pixels of the annulus centre mask differ from xor(inner mask, outer mask) '
                                         f'on the box {ub} (inner box {bi}, outer box {bo}); first at pixel (ix={ub[0] + int(i)}, '
                                         f'iy={ub[2] + int(j)}): mask {data[j, i]!r}, xor {int(want[j, i])}',
                   int(want[j, i]), repr(data[j, i]), check='annulus_mask')
            continue
        xs = np.arange(ub[0], ub[1], dtype=float)
        ys = np.arange(ub[2], ub[3], dtype=float)
        ii, si = G.Ref(inner).member(xs[None, :], ys[:, None])
        io, so = G.Ref(outer).member(xs[None, :], ys[:, None])
        ring = np.array(io, bool) & ~np.array(ii, bool)
        sure = np.array(si, bool) & np.array(so, bool)
        bad = ((data != 0) != ring) & sure
        res.transitions += 1
        res.extra['annulus_pixels_compared'] = res.extra.get('annulus_pixels_compared', 0) + int(sure.sum())
        if bad.any():
            j, i = np.argwhere(bad)[0]
            cx.bad('annulus_mask_wrong', f'{int(bad.sum())} of {int(sure.sum())} pixels of the annulus centre mask differ from the '
                                         f'reference membership of the pixel centres; first at pixel (ix={ub[0] + int(i)}, '
                                         f'iy={ub[2] + int(j)}): mask {data[j, i]!r}, reference {int(ring[j, i])}',
                   int(ring[j, i]), repr(data[j, i]), check='annulus_mask')
        allok = allok and cx.ok
        if inc == 'absent' and ring.any() and (np.array(ii, bool) & sure).any():
            res.nontriv(('annulus_mask', spec))
    if pads is not None:
        res.axis('inner_box_pads', 'symmetric' if (pads[0] == pads[1] and pads[2] == pads[3]) else 'asymmetric')
    res.outcome(('annulus_mask', spec['cls'], pads, 'ok' if allok else 'BAD'))


# ---- SKY ANNULI ---------------------------------------------------------------------------------------------------
# "An annulus contains exactly the positions inside its outer shape and not inside its inner shape" for the sky classes:
# the answer of the sky annulus for sky positions against outer_sky.contains & ~inner_sky.contains, where the two simple sky
# shapes are built from the same centre, sizes and angle (they are converted by other code than the annulus).
SKY_ANN_UNITS = {'arcsec': ['arcsec'] * 4, 'arcmin': ['arcmin'] * 4, 'deg': ['deg'] * 4, 'mixed': ['arcmin', 'deg', 'arcsec', 'rad']}
SKY_ANN_SIZES = [((6.0, 4.0), (14.0, 9.0)), ((5.0, 5.0), (9.0, 12.0))]       # (inner w, h), (outer w, h) in pixel equivalents


def sky_annulus_cases():
    out = []
    for cls in ('circleannulus', 'ellipseannulus', 'rectangleannulus'):
        for si, _ in enumerate(SKY_ANN_SIZES):
            for ang in (0.0, 35.0):
                if cls == 'circleannulus' and ang:
                    continue
                for un in SKY_ANN_UNITS:
                    for inc in ('absent', False):
                        for wk in (1, 5):
                            out.append({'part': 'sky_annulus', 'cls': cls, 'size': si, 'angle': ang, 'units': un, 'include': inc, 'wcs': wk})
                        # oblong pixels (the scale along y is 1.6 times the scale along x): whatever the conversion of a simple sky shape
                        # gives there, the annulus is still its outer shape minus its inner shape
                        out.append({'part': 'sky_annulus', 'cls': cls, 'size': si, 'angle': ang, 'units': un, 'include': inc, 'wcs': 1, 'aniso': 1.6})
    return out


def check_sky_annulus(res, c):
    import astropy.units as u
    import regions as R
    from regions import PixCoord
    from mc.pool import wcs_simple
    proj, rot = WCSS[c['wcs']][:2]
    scale = 1e-3
    w = wcs_simple(rot_deg=rot, cdelt=scale, proj=proj, aniso=c.get('aniso', 1.0))
    res.axis('sky_annulus_pixels', 'oblong' if c.get('aniso') else 'square')
    case = dict(c)
    cx = Ctx(res, case)
    res.states += 1
    res.evaluations += 1
    res.axis('part', 'sky_annulus')
    res.axis('sky_annulus_units', c['units'])
    (iw, ih), (ow, oh) = SKY_ANN_SIZES[c['size']]
    names = SKY_ANN_UNITS[c['units']]
    q = lambda v, k: (v * scale * u.deg).to(getattr(u, names[k]))      # noqa
    centre = w.pixel_to_world(61.25, 48.5)
    meta = {} if c['include'] == 'absent' else {'include': c['include']}
    ang = c['angle'] * u.deg
    try:
        if c['cls'] == 'circleannulus':
            ann = R.CircleAnnulusSkyRegion(centre, q(iw / 2, 0), q(ow / 2, 1), meta=meta)
            inner, outer = R.CircleSkyRegion(centre, q(iw / 2, 0)), R.CircleSkyRegion(centre, q(ow / 2, 1))
        else:
            K1 = R.EllipseAnnulusSkyRegion if c['cls'] == 'ellipseannulus' else R.RectangleAnnulusSkyRegion
            K2 = R.EllipseSkyRegion if c['cls'] == 'ellipseannulus' else R.RectangleSkyRegion
            ann = K1(centre, q(iw, 0), q(ow, 1), q(ih, 2), q(oh, 3), angle=ang, meta=meta)
            inner, outer = K2(centre, q(iw, 0), q(ih, 2), angle=ang), K2(centre, q(ow, 1), q(oh, 3), angle=ang)
    except Exception as exc:          # noqa: BLE001
        cx.bad('build_failed', f'could not construct the sky annulus: {type(exc).__name__}: {exc}')
        return
    n = 41
    gx = 61.25 + (np.arange(n) - (n - 1) / 2.0) * (1.3 * ow / n) + 0.013
    gy = 48.5 + (np.arange(n) - (n - 1) / 2.0) * (1.3 * max(oh, ow) / n) - 0.007
    GX, GY = np.meshgrid(gx, gy)
    sc = w.pixel_to_world(GX.ravel(), GY.ravel())
    ok, got = _call(cx, 'sky annulus contains', lambda: ann.contains(sc, w))
    ok2, parts_ = _call(cx, 'simple sky shapes contains', lambda: (np.asarray(inner.contains(sc, w), bool), np.asarray(outer.contains(sc, w), bool)))
    res.transitions += 2
    if not (ok and ok2):
        return
    ii, io = parts_
    # robust positions: not within 1e-6 of a boundary of the converted simple shapes (their own conversion is C06/C07's matter)
    try:
        pi_, po_ = inner.to_pixel(w), outer.to_pixel(w)
        def spec_of(p):
            if c['cls'] == 'circleannulus':
                return {'cls': 'circle', 'center': [float(p.center.x), float(p.center.y)], 'radius': float(p.radius)}
            return {'cls': 'ellipse' if c['cls'] == 'ellipseannulus' else 'rectangle', 'center': [float(p.center.x), float(p.center.y)],
                    'width': float(p.width), 'height': float(p.height), 'angle': [float(p.angle.to_value(u.deg)), 'deg', 'quantity']}
        pc = PixCoord.from_sky(sc, w)
        px, py = np.asarray(pc.x, float), np.asarray(pc.y, float)
        sure = np.ones(px.shape, bool)
        for p in (pi_, po_):
            sp = spec_of(p)
            base, _ = G.Ref(sp).member(px, py)
            for k in range(8):
                a = 2.0 * math.pi * k / 8.0
                i2, s2 = G.Ref(sp).member(px + 1e-3 * math.cos(a), py + 1e-3 * math.sin(a))
                sure &= np.asarray(s2, bool) & (np.asarray(i2, bool) == np.asarray(base, bool))
    except Exception as exc:          # noqa: BLE001
        cx.bad('unexpected_exception', f'converting the simple sky shapes raised {type(exc).__name__}: {exc}')
        return
    ring = io & ~ii
    want = ring if c['include'] == 'absent' else ~ring
    got = np.asarray(got, bool)
    if got.shape != want.shape:
        cx.bad('annulus_membership', f'sky annulus answer has shape {got.shape}, query shape {want.shape}')
        return
    bad = (got != want) & sure
    if (ring & sure).any() and (ii & sure).any() and (~io & sure).any():
        res.nontriv(('sky_annulus', json_key(c)))
    res.outcome(('sky_annulus', c['cls'], c['units'], 'ok' if not bad.any() else 'BAD'))
    if bad.any():
        k = int(np.flatnonzero(bad)[0])
        cx.bad('annulus_membership', f'sky {c["cls"]} (sizes in {names}) answers {int(bad.sum())} of {int(sure.sum())} robust sky positions differently '
                                     f'from (inside the outer sky shape) and not (inside the inner sky shape); first: pixel ({GX.ravel()[k]!r}, {GY.ravel()[k]!r}), '
                                     f'annulus {bool(got[k])}, expected {bool(want[k])}', bool(want[k]), bool(got[k]))


# ---- compounds of shapes without area ---------------------------------------------------------------------------
AF_NAMES = ['point', 'line', 'text']


def areal_free_cases():
    out = []
    for n1 in AF_NAMES:
        for n2 in AF_NAMES:
            for op in OPNAMES:
                for i1 in ('absent', False):
                    for i2 in ('absent', False):
                        for cinc in ('inherit', False, True):
                            out.append({'part': 'areal_free', 'n1': n1, 'n2': n2, 'op': op, 'i1': i1, 'i2': i2, 'cinc': cinc})
    return out


def check_areal_free(res, c):
    """Points, lines and labels contain nothing (excluded: everything); their pixel classes answer with one boolean for a
    scalar position, their sky classes with one boolean for anything.  A compound of two of them is the operator applied to
    those answers, negated when the compound's own flag (given, or inherited from the first operand) says excluded --
    and the answer is a boolean, whatever the operands hand to the operator."""
    import regions as R
    from regions import PixCoord
    from mc.pool import wcs_simple
    cx = Ctx(res, dict(c))
    res.states += 1
    res.evaluations += 1
    res.axis('part', 'areal_free')

    def leaf(name, inc, x, y):
        meta = {} if inc == 'absent' else {'include': inc}
        if name == 'point':
            return R.PointPixelRegion(PixCoord(x, y), meta=meta)
        if name == 'line':
            return R.LinePixelRegion(PixCoord(x, y), PixCoord(x + 3.0, y - 1.5), meta=meta)
        return R.TextPixelRegion(PixCoord(x, y), 'a label', meta=meta)
    try:
        ra, rb = leaf(c['n1'], c['i1'], 61.25, 48.5), leaf(c['n2'], c['i2'], 58.0, 50.25)
        kw = {} if c['cinc'] == 'inherit' else {'meta': R.RegionMeta({'include': c['cinc']})}
        comp = R.CompoundPixelRegion(ra, rb, OPS[c['op']], **kw)
        w = wcs_simple(rot_deg=30.0, cdelt=1e-3, proj='TAN')
        sa, sb = ra.to_sky(w), rb.to_sky(w)
        scomp = R.CompoundSkyRegion(sa, sb, OPS[c['op']], **({} if c['cinc'] == 'inherit' else {'meta': R.RegionMeta({'include': c['cinc']})}))
    except Exception as exc:          # noqa: BLE001
        cx.bad('build_failed', f'could not build the compound: {type(exc).__name__}: {exc}')
        return
    v1, v2 = c['i1'] is False, c['i2'] is False
    v = {'and': v1 and v2, 'or': v1 or v2, 'xor': v1 != v2}[c['op']]
    flag = (c['i1'] is not False) if c['cinc'] == 'inherit' else bool(c['cinc'])
    want = v if flag else (not v)
    qx, qy = np.array([61.25, 58.0, 10.0]), np.array([48.5, 50.25, 90.0])
    res.transitions += 5
    for k in range(3):
        pc = PixCoord(float(qx[k]), float(qy[k]))
        ok, g = _call(cx, 'contains(scalar)', lambda: comp.contains(pc), check='scalar')
        if ok and (not _isboolscalar(g) or bool(g) != want):
            cx.bad('scalar_answer_not_bool' if not _isboolscalar(g) else 'membership_wrong',
                   f'pixel compound, scalar query ({qx[k]}, {qy[k]}): got {g!r}, expected the boolean {want}', want, repr(g), check='scalar')
        ok, g = _call(cx, '`coord in region`', lambda: pc in comp, check='scalar')
        if ok and (not _isboolscalar(g) or bool(g) != want):
            cx.bad('in_operator_wrong', f'pixel compound, `coord in region` at ({qx[k]}, {qy[k]}): got {g!r}, expected {want}', want, repr(g), check='scalar')
    ok, g = _call(cx, 'contains(array)', lambda: comp.contains(PixCoord(qx, qy)), check='array')
    if ok:
        arr = np.asarray(g)
        if arr.dtype != bool or arr.shape != qx.shape or not bool(np.all(arr == want)):
            cx.bad('membership_wrong', f'pixel compound, array query: got {g!r}, expected three times {want}', want, repr(g), check='array')
    for what, q in (('scalar', w.pixel_to_world(float(qx[0]), float(qy[0]))), ('array', w.pixel_to_world(qx, qy))):
        ok, g = _call(cx, f'sky contains({what})', lambda: scomp.contains(q, w), check='sky_' + what)
        if not ok:
            continue
        arr = np.asarray(g)
        if arr.dtype != bool or arr.shape not in ((), qx.shape) or not bool(np.all(arr == want)):
            cx.bad('membership_wrong', f'sky compound, {what} query: got {g!r}, expected the boolean {want}', want, repr(g), check='sky_' + what)
    res.nontriv(('areal_free', json_key(c)))
    res.outcome(('areal_free', c['op'], c['cinc'], want, cx.ok))


def json_key(c):
    import json
    return json.dumps(c, sort_keys=True)


# ---- framework ------------------------------------------------------------------------------------------------
def shards(tier, seed):
    out = []
    for n1 in PAIR_NAMES:
        for n2 in PAIR_NAMES:
            for op in OPNAMES:
                out.append({'part': 'pair', 'n1': n1, 'n2': n2, 'op': op})
    nt2 = len(trees_depth2())
    pats = flag_patterns(tier)
    step = 180
    for p in range(len(pats)):
        for lo in range(0, nt2, step):
            out.append({'part': 'tree2', 'pattern': p, 'lo': lo, 'hi': min(nt2, lo + step)})
    if tier == 'thorough':
        nt3 = len(trees_depth3())
        step = 802
        for p in range(len(flag_patterns(tier, deep=True))):
            for lo in range(0, nt3, step):
                out.append({'part': 'tree3', 'pattern': p, 'lo': lo, 'hi': min(nt3, lo + step)})
    ann = annulus_specs(tier)
    n = 16 if tier == 'quick' else 96
    for k in range(n):
        out.append({'part': 'annulus', 'k': k, 'n': n})
    nm = 8 if tier == 'quick' else 32
    for k in range(nm):
        out.append({'part': 'annulus_mask', 'k': k, 'n': nm})
    out.append({'part': 'sky_annulus'})
    out.append({'part': 'areal_free'})
    # heavy shards first
    order = {'pair': 0, 'tree3': 1, 'tree2': 2, 'annulus': 3, 'annulus_mask': 4, 'sky_annulus': 5, 'areal_free': 6}
    out.sort(key=lambda s: order[s['part']])
    return out


_TREES = {}


def run_shard(shard, tier, seed):
    res = Result()
    part = shard['part']
    if part == 'pair':
        holder = {}
        ids = wcs_ids(tier, seed)
        for k, e in enumerate(pair_exprs(shard['n1'], shard['n2'], shard['op'])):
            if tier == 'quick':
                # one WCS per configuration (the two of the seed alternate with the configuration index); the reverse
                # direction for the operator and constructor+include=False constructions; membership after rotation for
                # 2 of the 6 rotations (the structure is compared for all 6)
                check_pair_config(res, e, [ids[k % 2] if k % 3 else WCSS_LATFIRST], list(range(len(ROTS))), holder,
                                  reverse=[e['form'], e['inc']] in (VARIANTS[0], VARIANTS[3]), rot_membership=(1, 5))
            else:
                check_pair_config(res, e, ids, list(range(len(ROTS))), holder)
    elif part in ('tree2', 'tree3'):
        if part not in _TREES:
            _TREES[part] = trees_depth2() if part == 'tree2' else trees_depth3()
        flags = flag_patterns(tier, deep=(part == 'tree3'))[shard['pattern']]
        extras = tier == 'thorough' and part == 'tree2' and shard['pattern'] == 0
        for t in _TREES[part][shard['lo']:shard['hi']]:
            check_tree(res, t, flags, extras=extras, masks=(shard['pattern'] == 0))
        res.axis('tree_venn_cells_populated', tree_cells_present())
    elif part == 'sky_annulus':
        for c in sky_annulus_cases():
            check_sky_annulus(res, c)
    elif part == 'areal_free':
        for c in areal_free_cases():
            check_areal_free(res, c)
    elif part == 'annulus_mask':
        for spec in annulus_mask_specs(tier)[shard['k']::shard['n']]:
            check_annulus_mask(res, spec)
    else:
        for spec in annulus_specs(tier)[shard['k']::shard['n']]:
            check_annulus(res, spec)
    return res


def replay(case):
    res = Result()
    only = case.get('check')
    if case['part'] == 'pair':
        wcss = [case['wcs']] if 'wcs' in case else list(range(len(WCSS)))
        rots = [case['rot']] if 'rot' in case else list(range(len(ROTS)))
        check_pair_config(res, case['expr'], wcss, rots, only=only)
    elif case['part'] == 'tree':
        check_tree(res, case['tree'], case['flags'], extras=case.get('extras', False), only=only)
    elif case['part'] == 'sky_annulus':
        check_sky_annulus(res, {k: case[k] for k in ('part', 'cls', 'size', 'angle', 'units', 'include', 'wcs', 'aniso') if k in case})
    elif case['part'] == 'areal_free':
        check_areal_free(res, {k: case[k] for k in ('part', 'n1', 'n2', 'op', 'i1', 'i2', 'cinc')})
    elif case['part'] == 'annulus_mask':
        s = dict(case['spec'])
        inc = s.pop('include', 'absent')
        check_annulus_mask(res, s, includes=[inc])
    else:
        s = dict(case['spec'])
        inc = s.pop('include', 'absent')
        check_annulus(res, s, includes=[inc])
    return res
