"""C02 -- centre and subpixel masks are the sampled membership function.

Engine E2 (bounded-exhaustive lattice).  For every region configuration
(spec x position of the region relative to the pixel grid) the real
``to_mask`` is called in every mode / with every ``subpixels`` value of the
tier and every pixel of every returned mask is compared with the reference
membership of ``mc.oracles.geometry`` sampled at the sub-sample centres.

Reference model.  Mask cell ``data[iy - bbox.iymin, ix - bbox.ixmin]`` is image
pixel (ix, iy).  Sub-sample (j, k), 0 <= j, k < n, of that pixel sits at

    x = ix - 1/2 + (j + 1/2)/n,      y = iy - 1/2 + (k + 1/2)/n.

``Ref(spec).member(x, y)`` gives ``inside`` and ``sure`` (False inside the
guard band around the boundary: 1e-9 relative + 64 ulp of the largest
coordinate, which also covers the few-ulp difference between the kernels'
accumulated sample positions and the closed form above).  Required for every
pixel:   sure_in/n^2 - eps <= mask <= (sure_in + unsure)/n^2 + eps,  eps = 1e-12.

Readings of the statement (where it is silent, every reasonable reading is
accepted):

* "(included) region": ``to_mask`` never looks at ``meta['include']``; the
  mask samples the geometric shape.  Regions are built without an include flag
  and, on the auxiliary positions, with include=True/False too; the geometric
  mask is what is demanded (never the complement).  For compounds whose
  operands carry include=False both the geometric reading and the reading in
  which the operands' flags are honoured are accepted.
* mask shape == bounding box shape and mask.bbox == region.bounding_box are
  demanded in 'center' mode as stated; in 'subpixels' mode a shape different
  from the box makes "every pixel" uncomparable and is reported as well.
* "1 exactly when the pixel centre is a member": also for pixels outside the
  box (they are implicitly 0) -- no reference member may exist at a pixel
  centre in a 2-pixel rim around the box ('center' mode only).
* supported combinations (center for every maskable class; subpixels for the
  simple classes) must return a mask.  Combinations the library documents as
  unsupported (exact for rectangle/polygon/annuli/compounds, everything for
  point/line/text) must raise NotImplementedError.  'subpixels' for
  annuli/compounds: NotImplementedError, *or* a mask that is the correct
  sampled fraction (either satisfies the statement).  'exact' for
  circle/ellipse is supported; its values are property C03's business: only
  "returns a mask or raises NotImplementedError" is demanded here.
* invalid ``mode`` strings and invalid ``subpixels`` (with mode='subpixels')
  must not produce a mask: ValueError for the simple classes (documented
  behaviour), ValueError or NotImplementedError for annuli/compounds/
  point-likes (which refuse before validating).
* additionally the literal statement is cross-checked against the
  implementation's own ``contains`` at pixel centres outside the guard band
  (regions without include flag only): a differential relation between two
  library paths, not the oracle.

VERIF_SEED selects which three of the seven vetted grid phases per axis (and
which far centre) the *quick* tier uses; the thorough tier is the full product
and does not depend on it.  Nothing is random.
"""
import numpy as np

from mc.result import Result
from mc import catalog as K
from mc.lattice import chunks
from mc.oracles import geometry as G

ID = 'C02'
LEVEL = 'model_checking'
ENGINE = 'E2-lattice'
FILES = ['regions/shapes/circle.py', 'regions/shapes/ellipse.py', 'regions/shapes/rectangle.py',
         'regions/shapes/polygon.py', 'regions/shapes/annulus.py', 'regions/shapes/point.py',
         'regions/shapes/line.py', 'regions/shapes/text.py', 'regions/core/compound.py',
         'regions/core/core.py', 'regions/core/mask.py',
         'regions/_geometry/circular_overlap.pyx', 'regions/_geometry/elliptical_overlap.pyx',
         'regions/_geometry/rectangular_overlap.pyx', 'regions/_geometry/polygonal_overlap.pyx']
RULE = ('full Cartesian product of region spec (class x size or size pair x angle; catalogue polygons x scale; '
        'annulus size pairs x angle; ordered operand pairs x {and,or,xor}) x position of the region relative to the '
        'pixel grid (grid phase of the centre in both axes, far centres); one state = one (spec, position); per '
        "state to_mask is called for mode 'center', mode 'subpixels' with every n of the tier, and mode 'exact', "
        'and every pixel of every returned mask is compared with the reference membership sampled at the n x n '
        'sub-sample centres (interval for samples inside the guard band).  On the auxiliary positions (first and '
        "far centre) additionally: include=True/False variants, 'center' with an explicit subpixels argument, invalid "
        'mode strings and invalid subpixels values.  A compared mask is non-trivial when it has both 0 and 1 pixels '
        'and (n > 1) at least one fractional pixel')
BOUNDS = {
    'quick': 'sizes {0.75, 2.5, 11} (radii for circle/regular polygon, full widths otherwise) + thin/nested annuli; '
             'angles {0, 30, 123.4} deg; 7 catalogue polygons x scales {1, 2.5}; regular polygons n in {3,5,6}; 18 '
             'ordered compound operand pairs (overlapping/disjoint/nested/annulus operand/nested compound) x 3 '
             'operators; 3 grid phases per axis (chosen by VERIF_SEED from {0, 1/4, 1/2, -1/2, 3/4, 0.1, 0.37}) '
             "squared + 1 far centre; subpixels n in {1,2,3,5,12}; modes center/subpixels/exact + invalid arguments",
    'thorough': 'sizes {0.75, 2.5, 5.25, 11} (all width x height pairs) + one 40-pixel case per class; angles '
                '{0, 30, 45, 90, 123.4, -60} deg; 7 catalogue polygons x scales {0.75, 1, 2.5} + 5x dodecagon; regular '
                'polygons n in {3,5,6}; annulus size pairs incl. thin; 18 ordered compound operand pairs x 3 operators; '
                'grid phase {0, 1/4, 1/2, -1/2, 3/4, 0.1, 0.37}^2 + centres (4096.25, -4096.25), (1e6+0.5, 1e6+0.5); '
                'subpixels n in 1..12; modes center/subpixels/exact + invalid mode strings and subpixels values',
}
ASSUMPTIONS = ['numpy elementwise arithmetic is trusted (the oracle is vectorised)',
               'sub-samples closer to the region boundary than the guard band (1e-9 relative + 64 ulp of the largest '
               'coordinate; 1e-12 relative extra for regular polygons) may be counted either way',
               "values of 'exact' masks are not judged here (property C03)",
               'compiled overlap kernels are checked as built (Cython sources cannot be rebuilt in the sandbox)']

EPS = 1e-12
PHASES = [0.0, 0.25, 0.5, -0.5, 0.75, 0.1, 0.37]
FAR = [(4096.25, -4096.25), (1e6 + 0.5, 1e6 + 0.5), (-2e6 + 0.25, 3e6 - 0.25)]
SIZES = {'quick': [0.75, 2.5, 11.0], 'thorough': [0.75, 2.5, 5.25, 11.0]}
# 90 / 270: exact quarter turns exchange the roles of width and height
ANGLES = {'quick': [0.0, 30.0, 123.4, 90.0], 'thorough': [0.0, 30.0, 45.0, 90.0, 123.4, -60.0, 270.0]}
NS = {'quick': [1, 2, 3, 5, 12], 'thorough': list(range(1, 13))}
BAD_SUBPIXELS = [0, -1, 2.0, '3']
BAD_MODES = ['centre', 'CENTER', '', 'subpixel', 'Exact', 'sub-pixels']

SIMPLE = G.SIMPLE
EXACT_OK = ('circle', 'ellipse')          # classes whose 'exact' mode is implemented


# ------------------------------------------------------------------ lattice --
_ANG_REPS = {270.0: ('deg', 'angle'), 0.0: ('deg', 'quantity'), 30.0: ('arcmin', 'quantity'), 45.0: ('rad', 'angle'), 90.0: ('arcsec', 'quantity'),
             123.4: ('rad', 'quantity'), -60.0: ('arcmin', 'angle')}


def _ang(d):
    # the same angle expressed in another unit (the unit is part of the path: raw values must never be used)
    unit, kind = _ANG_REPS.get(float(d), ('deg', 'quantity'))
    from mc import catalog as _K
    return _K.angle_spec(float(d), unit, kind)


def _templates(tier):
    """Specs with the centre at the origin (placed on the grid by ``_place``)."""
    S, A = SIZES[tier], ANGLES[tier]
    big = tier == 'thorough'
    T = []
    for r in S + ([20.0] if big else []):
        T.append({'cls': 'circle', 'center': [0.0, 0.0], 'radius': r})
    for cls in ('ellipse', 'rectangle'):
        for w in S:
            for h in S:
                for a in A:
                    T.append({'cls': cls, 'center': [0.0, 0.0], 'width': w, 'height': h, 'angle': _ang(a)})
        if big:
            T.append({'cls': cls, 'center': [0.0, 0.0], 'width': 40.0, 'height': 17.5, 'angle': _ang(30.0)})
    for name in K.POLYS:
        for s in ([0.75, 1.0, 2.5] if big else [1.0, 2.5]):
            T.append(K.polygon_spec(name, s, (0.0, 0.0)))
    if big:
        T.append(K.polygon_spec('dodecagon', 5.0, (0.0, 0.0)))
    for n in (3, 5, 6):
        for r in S:
            for a in A:
                T.append({'cls': 'regpoly', 'center': [0.0, 0.0], 'n': n, 'radius': r, 'angle': _ang(a)})
    if big:
        T.append({'cls': 'regpoly', 'center': [0.0, 0.0], 'n': 5, 'radius': 20.0, 'angle': _ang(30.0)})
    cann = [(0.75, 2.5), (2.5, 2.75), (2.5, 11.0)] if not big else \
        [(0.75, 2.5), (0.75, 11.0), (2.5, 2.75), (2.5, 5.25), (5.25, 11.0), (11.0, 20.0)]
    for ri, ro in cann:
        T.append({'cls': 'circleannulus', 'center': [0.0, 0.0], 'inner_radius': ri, 'outer_radius': ro})
    wann = [((0.75, 2.5), (2.5, 5.25)), ((5.25, 2.5), (5.5, 3.0)), ((5.25, 2.5), (11.0, 5.25))] if not big else \
        [((0.75, 2.5), (2.5, 5.25)), ((2.5, 2.5), (5.25, 11.0)), ((5.25, 2.5), (5.5, 3.0)), ((5.25, 2.5), (11.0, 5.25))]
    for cls in ('ellipseannulus', 'rectangleannulus'):
        for (iw, ih), (ow, oh) in wann:
            for a in A:
                T.append({'cls': cls, 'center': [0.0, 0.0], 'inner_width': iw, 'inner_height': ih,
                          'outer_width': ow, 'outer_height': oh, 'angle': _ang(a)})
        if big:
            T.append({'cls': cls, 'center': [0.0, 0.0], 'inner_width': 11.0, 'inner_height': 5.25,
                      'outer_width': 40.0, 'outer_height': 17.5, 'angle': _ang(30.0)})
    T.extend(_compound_templates())
    T.append({'cls': 'point', 'center': [0.0, 0.0]})
    T.append({'cls': 'text', 'center': [0.0, 0.0], 'text': 'a label'})
    T.append({'cls': 'line', 'start': [0.0, 0.0], 'end': [3.0, -1.5]})
    return T


def _operands():
    def circ(x, y, r):
        return {'cls': 'circle', 'center': [x, y], 'radius': r}

    def ell(x, y, w, h, a):
        return {'cls': 'ellipse', 'center': [x, y], 'width': w, 'height': h, 'angle': _ang(a)}

    def rect(x, y, w, h, a):
        return {'cls': 'rectangle', 'center': [x, y], 'width': w, 'height': h, 'angle': _ang(a)}
    tri = K.polygon_spec('triangle', 2.5, (-6.0, 1.0))
    ann = {'cls': 'circleannulus', 'center': [0.0, 0.0], 'inner_radius': 2.5, 'outer_radius': 5.25}
    # unordered pairs: (tag, a, b); the box of b sticks out of the box of a asymmetrically in x and y
    pairs = [
        ('overlap', circ(0.0, 0.0, 2.5), ell(1.75, -0.5, 5.25, 2.5, 30.0)),
        ('overlap', rect(-1.25, 0.75, 5.25, 2.5, 45.0), circ(1.0, 1.0, 2.5)),
        ('overlap', tri, rect(0.0, 3.0, 11.0, 2.5, 0.0)),
        ('disjoint', circ(0.0, 0.0, 2.5), circ(8.25, 3.0, 1.5)),
        ('disjoint', rect(0.0, 0.0, 2.5, 5.25, 123.4), ell(-7.0, -9.5, 5.25, 0.75, -60.0)),
        ('nested', circ(0.0, 0.0, 5.25), rect(0.5, -0.25, 2.5, 2.5, 30.0)),
        ('nested', ell(0.0, 0.0, 11.0, 5.25, 123.4), circ(-1.0, 0.5, 0.75)),
        ('annulus_operand', ann, rect(3.0, 0.0, 5.25, 2.5, 0.0)),
        # an operand too small to cover a pixel centre (for most phases): its mask is all zero, which matters for '&'
        ('empty_mask_operand', circ(0.0, 0.0, 2.5), circ(0.5, 0.5, 0.1875)),
        ('empty_mask_operand', rect(0.0, 0.0, 2.5, 5.25, 30.0), circ(6.5, 3.5, 0.1875)),
        # the same shape twice, half a pixel apart: at the far centres the two operands are `==` under the position tolerance
        # of 1e-5 relative, yet they cover different pixels
        ('dithered', circ(0.0, 0.0, 2.625), circ(0.5, 0.25, 2.625)),
        ('dithered', rect(0.0, 0.0, 5.25, 2.5, 30.0), rect(-0.5, 0.5, 5.25, 2.5, 30.0)),
    ]
    inner = {'cls': 'compound', 'op': 'or', 'r1': circ(0.0, 0.0, 2.5), 'r2': rect(3.0, 1.0, 5.25, 0.75, 30.0)}
    pairs.append(('nested_compound', inner, ell(1.0, -2.0, 2.5, 11.0, 45.0)))
    return pairs


def _compound_templates():
    T = []
    for tag, a, b in _operands():
        for (r1, r2) in ((a, b), (b, a)):
            for op in ('and', 'or', 'xor'):
                T.append({'cls': 'compound', 'tag': tag, 'op': op, 'r1': r1, 'r2': r2})
    # an unmaskable operand makes the whole compound unmaskable
    pt = {'cls': 'point', 'center': [1.0, 1.0]}
    T.append({'cls': 'compound', 'tag': 'unmaskable_operand', 'op': 'or',
              'r1': {'cls': 'circle', 'center': [0.0, 0.0], 'radius': 2.5}, 'r2': pt})
    return T


def _place(t, c):
    """Template translated so that its origin sits at c (float addition; the result is the spec)."""
    s = dict(t)
    if t['cls'] == 'compound':
        s['r1'] = _place(t['r1'], c)
        s['r2'] = _place(t['r2'], c)
        return s
    if 'center' in t:
        s['center'] = [t['center'][0] + c[0], t['center'][1] + c[1]]
    if 'vertices' in t:
        s['vertices'] = [[v + c[0] for v in t['vertices'][0]], [v + c[1] for v in t['vertices'][1]]]
    if 'start' in t:
        s['start'] = [t['start'][0] + c[0], t['start'][1] + c[1]]
        s['end'] = [t['end'][0] + c[0], t['end'][1] + c[1]]
    return s


def _centres(tier, seed):
    if tier == 'quick':
        k = int(seed) % len(PHASES)
        ax = [PHASES[k], PHASES[(k + 2) % 7], PHASES[(k + 5) % 7]]
        return [(a, b) for a in ax for b in ax] + FAR
    return [(a, b) for a in PHASES for b in PHASES] + FAR


def _include_variants(spec):
    """include=True/False variants checked on the auxiliary positions."""
    out = []
    if spec['cls'] == 'compound':
        if spec.get('tag') == 'unmaskable_operand':
            return out
        for where in ('r1', 'r2'):
            s = dict(spec)
            s[where] = _with_inc(spec[where], False)
            out.append(s)
        s = dict(spec)
        s['include'] = False          # explicit meta on the compound itself
        out.append(s)
    elif spec['cls'] not in G.EMPTY:
        out.append(_with_inc(spec, False))
        out.append(_with_inc(spec, True))
    return out


def _with_inc(spec, inc):
    s = dict(spec)
    if s['cls'] == 'compound':
        s['r1'] = _with_inc(s['r1'], inc)
    else:
        s['include'] = inc
    return s


def configs(tier, seed):
    C = _centres(tier, seed)
    T = _templates(tier)
    out = []
    for t in T:
        for k, c in enumerate(C):
            aux = k == 0 or k == len(C) - 1
            spec = _place(t, c)
            out.append({'spec': spec, 'aux': aux, 'phase': list(c)})
            if aux:
                for v in _include_variants(spec):
                    out.append({'spec': v, 'aux': False, 'phase': list(c), 'variant': True})
    return out


# ------------------------------------------------------------------- oracle --
def _strip(spec):
    s = {k: v for k, v in spec.items() if k != 'include'}
    if s['cls'] == 'compound':
        s['r1'] = _strip(s['r1'])
        s['r2'] = _strip(s['r2'])
    return s


def _has_flag(spec):
    if spec['cls'] == 'compound':
        return ('include' in spec) or _has_flag(spec['r1']) or _has_flag(spec['r2'])
    return 'include' in spec


def _maskable(spec):
    if spec['cls'] == 'compound':
        return _maskable(spec['r1']) and _maskable(spec['r2'])
    return spec['cls'] not in G.EMPTY


def _kind_of(spec):
    c = spec['cls']
    if c in SIMPLE:
        return 'simple'
    if c in G.EMPTY:
        return 'empty'
    return 'composite'          # annuli and compounds


def sampled(ref, x0, y0, nx, ny, n):
    """Reference counts for the pixel box [x0, x0+nx) x [y0, y0+ny): (sure members, unsure samples) per
    pixel, both of shape (ny, nx)."""
    off = (np.arange(n, dtype=float) + 0.5) / n
    xs = ((np.arange(nx, dtype=float) + float(x0) - 0.5)[:, None] + off[None, :]).ravel()
    ys = ((np.arange(ny, dtype=float) + float(y0) - 0.5)[:, None] + off[None, :]).ravel()
    ins, sure = ref.member(xs[None, :], ys[:, None])
    ins = np.asarray(ins).reshape(ny, n, nx, n)
    sure = np.asarray(sure).reshape(ny, n, nx, n)
    lo = (ins & sure).sum(axis=(1, 3))
    un = (~sure).sum(axis=(1, 3))
    return lo, un


class _Cfg:
    """Everything derived once per configuration."""

    def __init__(self, spec):
        self.spec = spec
        self.kind = _kind_of(spec)
        self.maskable = _maskable(spec)
        self.flagged = _has_flag(spec)
        self.ref = G.Ref(_strip(spec))
        self.ref_flag = G.Ref(spec) if (self.flagged and spec['cls'] == 'compound') else None
        self._cache = {}

    def counts(self, box, n, flagged=False):
        key = (n, flagged)
        if key not in self._cache:
            ref = self.ref_flag if flagged else self.ref
            self._cache[key] = sampled(ref, box[0], box[2], box[1] - box[0], box[3] - box[2], n)
        return self._cache[key]


# -------------------------------------------------------------------- checks --
def _box(bb):
    return (int(bb.ixmin), int(bb.ixmax), int(bb.iymin), int(bb.iymax))


def _do_call(reg, mode, n, form):
    if form == 'default':
        return reg.to_mask(mode=mode)
    if form == 'positional':
        return reg.to_mask(mode, n)
    return reg.to_mask(mode=mode, subpixels=n)


def _interval_bad(data, lo, un, n):
    n2 = float(n * n)
    ok = (data >= lo / n2 - EPS) & (data <= (lo + un) / n2 + EPS)     # NaN -> not ok
    return ~ok


def _first(bad, box):
    j, i = np.argwhere(bad)[0]
    return int(j), int(i), int(i) + box[0], int(j) + box[2]


def _check_values(res, cfg, case, data, box, n, kind):
    """Compare mask values with the sampled reference; returns True when they conform."""
    lo, un = cfg.counts(box, n)
    bad = _interval_bad(data, lo, un, n)
    res.extra['pixels_compared'] = res.extra.get('pixels_compared', 0) + int(data.size)
    res.extra['samples_compared'] = res.extra.get('samples_compared', 0) + int(data.size) * n * n
    res.extra['samples_in_guard_band'] = res.extra.get('samples_in_guard_band', 0) + int(un.sum())
    if not bad.any():
        return True
    if cfg.ref_flag is not None:
        # operands with include=False: the reading that honours the operands' flags is accepted too
        lo2, un2 = cfg.counts(box, n, flagged=True)
        if not _interval_bad(data, lo2, un2, n).any():
            res.outcome(('flag_honouring_reading', cfg.spec['cls']))
            return True
    j, i, ix, iy = _first(bad, box)
    n2 = n * n
    res.violation(ID, kind, case,
                  f"{int(bad.sum())} of {data.size} pixels differ from the sampled membership; first at "
                  f"data[{j},{i}] = pixel (ix={ix}, iy={iy}): mask value {float(data[j, i])!r}, reference "
                  f"{int(lo[j, i])}/{n2} sure members + {int(un[j, i])} samples in the guard band",
                  [int(lo[j, i]) / n2, int(lo[j, i] + un[j, i]) / n2], float(data[j, i]))
    return False


def _structure(res, case, m, bb, box, kind_shape):
    """RegionMask-ness, shape and bbox of a returned mask; returns the data array or None."""
    data = getattr(m, 'data', None)
    if data is None or not hasattr(m, 'bbox'):
        res.violation(ID, 'not_a_mask', case, f'to_mask returned {type(m).__name__}', 'RegionMask', type(m).__name__)
        return None
    data = np.asarray(data)
    want = (box[3] - box[2], box[1] - box[0])
    if tuple(data.shape) != want or tuple(bb.shape) != want:
        res.violation(ID, kind_shape, case,
                      f'mask data shape {tuple(data.shape)}, region.bounding_box {box} has shape {want} '
                      f'(bounding_box.shape reports {tuple(bb.shape)})', list(want), list(data.shape))
        return None
    mb = m.bbox
    got = (int(mb.ixmin), int(mb.ixmax), int(mb.iymin), int(mb.iymax))
    if got != box:
        res.violation(ID, 'mask_bbox', case, f'mask.bbox {got} != region.bounding_box {box} (ixmin, ixmax, iymin, iymax)',
                      list(box), list(got))
        return None
    return data


def _sig(data, n):
    has0 = bool((data == 0).any())
    has1 = bool((data == 1).any())
    frac = bool(((data > 0) & (data < 1)).any())
    return has0, has1, frac


def check_config(res, spec, ns, aux=False, only=None, count_state=True):
    from regions import PixCoord
    cls = spec['cls']
    cfg = _Cfg(spec)
    if count_state:
        res.states += 1
        res.axis('cls', cls)
        if cls == 'compound':
            res.axis('compound', f"{spec.get('tag')}/{spec['op']}")
        if 'angle' in spec:
            res.axis('angle_deg', spec['angle'][0])
        res.axis('include', 'flagged' if cfg.flagged else 'absent')
    try:
        reg = G.build_routed(spec)       # every 4th spec (by hash) is reached by re-assignment
    except Exception as exc:
        res.violation(ID, 'build_failed', {'spec': spec}, f'could not construct region: {type(exc).__name__}: {exc}')
        return
    bb = box = None
    if cfg.maskable:
        bb = reg.bounding_box
        box = _box(bb)

    calls = [('center', None, 'default')]
    calls += [('subpixels', n, 'kw') for n in ns]
    calls += [('exact', None, 'default')]
    if aux:
        calls += [('center', 5, 'kw'), ('subpixels', 3, 'positional'), ('exact', 3, 'kw')]
        calls += [('subpixels', b, 'kw') for b in BAD_SUBPIXELS]
        calls += [(b, None, 'default') for b in BAD_MODES]
    if only is not None:
        # replay: the reference 'center' call (needed by the n=1 comparison) plus the one call of the case
        first = ('center', None, 'default')
        calls = [first] + ([tuple(only)] if tuple(only) != first else [])

    center = None
    for mode, n, form in calls:
        case = {'spec': spec, 'mode': mode, 'n': n, 'form': form}
        res.evaluations += 1
        res.transitions += 1
        valid_mode = mode in ('center', 'subpixels', 'exact')
        valid_n = isinstance(n, int) and not isinstance(n, bool) and n > 0
        valid = valid_mode and (mode != 'subpixels' or valid_n)
        res.axis('mode', mode if valid_mode else 'invalid:' + repr(mode))
        if mode == 'subpixels':
            res.axis('subpixels', repr(n))
        try:
            if valid and mode == 'center' and form == 'default':
                # an earlier mask of the same region, modified in place by its owner, must not show in a later one
                m0 = _do_call(reg, mode, n, form)
                if getattr(m0, 'data', None) is not None and m0.data.flags.writeable:
                    m0.data[...] = 9
            m = _do_call(reg, mode, n, form)
            exc = None
        except Exception as e:        # judged below
            m, exc = None, e
        ename = type(exc).__name__ if exc is not None else None

        # ---------------- invalid arguments: never a mask
        if not valid:
            what = f'mode={mode!r}, subpixels={n!r}'
            if exc is None:
                res.violation(ID, 'invalid_args_accepted', case, f'to_mask({what}) returned a mask instead of raising',
                              'ValueError', type(m).__name__)
            elif cfg.kind == 'simple' and not isinstance(exc, ValueError):
                res.violation(ID, 'invalid_args_wrong_exception', case, f'to_mask({what}) raised {ename}: {exc}',
                              'ValueError', ename)
            elif not isinstance(exc, (ValueError, NotImplementedError)):
                res.violation(ID, 'invalid_args_wrong_exception', case, f'to_mask({what}) raised {ename}: {exc}',
                              'ValueError or NotImplementedError', ename)
            res.outcome((cls, 'invalid', ename))
            continue

        # ---------------- what the combination must do
        if not cfg.maskable:
            must = 'nie'
        elif mode == 'center':
            must = 'mask'
        elif mode == 'subpixels':
            must = 'mask' if cfg.kind == 'simple' else 'nie_or_correct'
        else:
            must = 'mask_or_nie' if cls in EXACT_OK else 'nie'

        if exc is not None:
            if isinstance(exc, NotImplementedError):
                if must == 'mask':
                    res.violation(ID, 'supported_mode_not_implemented', case,
                                  f'to_mask(mode={mode!r}, subpixels={n!r}) raised NotImplementedError for a supported '
                                  'shape/mode combination', 'a mask', 'NotImplementedError')
                res.outcome((cls, mode, n if mode == 'subpixels' else None, 'NotImplementedError'))
            else:
                res.violation(ID, 'unexpected_exception', case,
                              f'to_mask(mode={mode!r}, subpixels={n!r}) raised {ename}: {exc}',
                              'a mask' if must == 'mask' else 'a mask or NotImplementedError', ename)
            continue
        if must == 'nie':
            res.violation(ID, 'unsupported_returned_mask', case,
                          f'to_mask(mode={mode!r}, subpixels={n!r}) returned a mask for an unsupported shape/mode '
                          f'combination ({cls})', 'NotImplementedError', type(m).__name__)
            continue

        # ---------------- a mask came back
        if mode == 'exact':
            # values are C03's business; only "is a mask" is judged
            if getattr(m, 'data', None) is None:
                res.violation(ID, 'not_a_mask', case, f'to_mask returned {type(m).__name__}', 'RegionMask', type(m).__name__)
            res.outcome((cls, 'exact', None, 'mask'))
            continue
        neff = 1 if mode == 'center' else n
        data = _structure(res, case, m, bb, box, 'center_shape' if mode == 'center' else 'mask_shape')
        if data is None:
            continue
        ok = True
        if mode == 'center':
            nonbin = ~((data == 0) | (data == 1))
            if nonbin.any():
                j, i, ix, iy = _first(nonbin, box)
                res.violation(ID, 'center_not_binary', case,
                              f"'center' mask holds {float(data[j, i])!r} at data[{j},{i}] (pixel ix={ix}, iy={iy})",
                              [0, 1], float(data[j, i]))
                ok = False
        ok = _check_values(res, cfg, case, data, box, neff,
                           'center_value_wrong' if mode == 'center' else
                           ('subpixel_value_wrong' if must == 'mask' else 'unsupported_mode_wrong_mask')) and ok
        if mode == 'center' and form == 'default':
            center = data
            if ok:
                _center_extras(res, cfg, reg, case, data, box, PixCoord)
        if mode == 'subpixels' and neff == 1 and center is not None:
            res.transitions += 1
            if not np.array_equal(np.asarray(data, float), np.asarray(center, float)):
                diff = np.asarray(data, float) != np.asarray(center, float)
                j, i, ix, iy = _first(diff, box)
                res.violation(ID, 'n1_differs_from_center', case,
                              f"'subpixels' with n=1 differs from 'center' in {int(diff.sum())} pixels; first at data[{j},{i}] "
                              f"(pixel ix={ix}, iy={iy}): {float(data[j, i])!r} vs {float(center[j, i])!r}",
                              float(center[j, i]), float(data[j, i]))
                ok = False
        has0, has1, frac = _sig(data, neff)
        if ok and has0 and has1 and (neff == 1 or frac):
            res.nontriv(('mask', spec, mode, neff))
        res.outcome((cls, mode, neff, 'ones' if has1 else 'no-ones', 'fraction' if frac else 'binary', 'ok' if ok else 'BAD'))


def _center_extras(res, cfg, reg, case, data, box, PixCoord):
    """Rim (no member pixel centre outside the box) and the differential check against ``contains``."""
    x0, x1, y0, y1 = box
    R = 2
    nx, ny = x1 - x0 + 2 * R, y1 - y0 + 2 * R
    xs = np.arange(nx, dtype=float) + (x0 - R)
    ys = np.arange(ny, dtype=float) + (y0 - R)
    ins, sure = cfg.ref.member(xs[None, :], ys[:, None])
    ins = np.array(ins, bool)
    sure = np.array(sure, bool)
    outside = np.ones((ny, nx), bool)
    outside[R:ny - R, R:nx - R] = False
    lost = ins & sure & outside
    res.transitions += 1
    if lost.any() and cfg.ref_flag is None:
        j, i = np.argwhere(lost)[0]
        res.violation(ID, 'member_outside_bbox', {**case, 'check': 'rim'},
                      f'pixel centre (ix={int(xs[i])}, iy={int(ys[j])}) is a member of the region but lies outside the '
                      f"mask's box {box}: its weight is lost ({int(lost.sum())} such pixels in a 2-pixel rim)",
                      0, int(lost.sum()))
    if cfg.flagged:
        return
    X, Y = np.meshgrid(xs[R:nx - R], ys[R:ny - R])
    got = reg.contains(PixCoord(X.ravel(), Y.ravel()))
    res.transitions += 1
    got = np.asarray(got).reshape(X.shape)
    s = sure[R:ny - R, R:nx - R]
    bad = (got.astype(bool) != (data != 0)) & s
    if bad.any():
        j, i, ix, iy = _first(bad, box)
        res.violation(ID, 'center_vs_contains', {**case, 'check': 'contains'},
                      f"'center' mask and region.contains disagree at {int(bad.sum())} pixel centres away from the "
                      f'boundary; first (ix={ix}, iy={iy}): mask {float(data[j, i])!r}, contains {bool(got[j, i])}',
                      bool(got[j, i]), float(data[j, i]))


# -------------------------------------------------------------------- driver --
AXIS_CENTRES = [(0.0, 0.0), (0.5, 0.5), (3.0, -2.0), (2.5, 1.5), (0.5, 0.0), (-7.0, 4.5)]
AXIS_SIZES = [(4.0, 2.0), (3.0, 5.0), (2.0, 2.0), (1.0, 3.0), (6.0, 1.0), (8.0, 8.0)]


def check_axis_aligned(res, centre, size, inc):
    """Unrotated rectangles with dyadic centre and size: every pixel centre, those exactly ON an edge included, is decided in exact
    arithmetic both by contains() and by the mask kernel -- so here the mask must equal the membership of the pixel centres bit for bit
    (an edge through pixel centres is the one place where 'member' depends on the strict inequality)."""
    import astropy.units as u
    from regions import PixCoord, RectanglePixelRegion
    case = {'op': 'axis_aligned', 'centre': list(centre), 'size': list(size), 'include': inc}
    res.states += 1
    res.evaluations += 1
    meta = {} if inc == 'absent' else {'include': inc}
    try:
        reg = RectanglePixelRegion(PixCoord(*centre), size[0], size[1], angle=0 * u.deg, meta=meta)
        plain = RectanglePixelRegion(PixCoord(*centre), size[0], size[1], angle=0 * u.deg)
        bb = reg.bounding_box
        yy, xx = np.mgrid[bb.iymin:bb.iymax, bb.ixmin:bb.ixmax]
        want = np.asarray(plain.contains(PixCoord(xx.astype(float), yy.astype(float))), bool)
        on_edge = (np.abs(np.abs(xx - centre[0]) - size[0] / 2) == 0) | (np.abs(np.abs(yy - centre[1]) - size[1] / 2) == 0)
        for mode, kw in (('center', {}), ('subpixels', {'subpixels': 1})):
            res.transitions += 1
            m = reg.to_mask(mode=mode, **kw)
            got = np.asarray(m.data)
            if got.shape != want.shape or not np.array_equal(got != 0, want) or not np.array_equal(got, want.astype(got.dtype)):
                bad = np.argwhere((got != 0) != want) if got.shape == want.shape else []
                first = (int(xx[tuple(bad[0])]), int(yy[tuple(bad[0])])) if len(bad) else None
                res.violation(ID, 'center_value_wrong', {**case, 'mode': mode},
                              f'rectangle {size[0]}x{size[1]} at {centre}, angle 0, mode {mode}: the mask differs from the membership of the pixel '
                              f'centres at {len(bad)} pixel(s), first {first} (a pixel centre exactly on an edge is not a member)',
                              want.astype(int).tolist(), got.tolist())
        if on_edge.any():
            res.nontriv(('axis_aligned', tuple(centre), tuple(size), str(inc)))
        res.outcome(('axis_aligned', bool(on_edge.any())))
    except Exception as exc:          # noqa: BLE001
        res.violation(ID, 'unexpected_exception', case, f'axis-aligned rectangle {size} at {centre} raised {type(exc).__name__}: {exc}')


def shards(tier, seed):
    cfgs = configs(tier, seed)
    return chunks(cfgs, 64 if tier == 'quick' else 256) + [{'axis_aligned': True}]


def run_shard(shard, tier, seed):
    res = Result()
    if shard.get('axis_aligned'):
        for c in AXIS_CENTRES:
            for sz in AXIS_SIZES:
                for inc in ('absent', False):
                    check_axis_aligned(res, c, sz, inc)
        return res
    ns = NS[tier]
    for c in shard['cases']:
        spec = c['spec']
        res.axis('phase', f"{c['phase'][0]!r},{c['phase'][1]!r}")
        check_config(res, spec, ns, aux=c['aux'])
        if res.states <= 2:
            res.sample({'spec': spec, 'subpixels': ns})
    return res


def replay(case):
    res = Result()
    if case.get('op') == 'axis_aligned':
        check_axis_aligned(res, tuple(case['centre']), tuple(case['size']), case['include'])
        return res
    only = (case['mode'], case['n'], case['form']) if 'mode' in case else None
    check_config(res, case['spec'], NS['thorough'], aux=True, only=only)
    return res
