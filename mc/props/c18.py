"""C18 -- the matplotlib artist of a region depicts the region.

Engine E2.  For every region configuration of the lattice and every plot
origin the real ``as_artist`` is called (crossed with the visual-dictionary x
caller-kwargs matrix) and the returned artist is compared with the reference
geometry of ``mc.oracles.geometry``:

* patches (circle, ellipse, rectangle, polygon, regular polygon, the three
  annuli, ``RegionBoundingBox``): the path is taken in *data* coordinates
  (``patch.get_patch_transform().transform_path(patch.get_path())`` -- there
  is no Axes, the data->display part is not involved), flattened with the
  driver's own code (vertices/codes walked directly; every CURVE3/CURVE4
  segment evaluated at 64 parameter values) and the **non-zero winding
  number** of every query point is computed with the driver's own code (the
  rule renderers fill with).  ``inside_patch <=> winding != 0`` must equal the
  reference membership of ``q + origin``.  matplotlib's ``contains_point(s)``
  (reports an annulus hole as inside) and ``to_polygons()`` (too coarse) are
  not used.
* query points come from ``shape_frame_queries`` (both sides of every
  boundary) and are kept only when they are farther than BAND (0.5 %, see
  below) of the size from the boundary: the reference is evaluated on the
  spec shrunk by (1-BAND), unchanged, and grown by (1+BAND) and a point is
  kept when all three agree and are sure; for polygons the distance to every
  edge must exceed BAND x the polygon's extent.
* annuli: points inside the inner shape must have winding 0 (an un-reversed
  inner outline gives 2 => kind ``annulus_hole_filled``) and the two
  flattened subpaths must have signed areas of opposite sign.
* point -> ``get_xydata() == [[cx-ox, cy-oy]]``; text -> ``get_position()``
  and ``get_text()``; line -> the Arrow polygon runs from start-origin (tail
  midpoint) to end-origin (tip).
* caller kwargs win over the visual-derived ones; stored visuals apply
  otherwise (reference model ``_expect`` written here, it does not call
  ``define_mpl_kwargs``).  Only keywords the artist class accepts are used,
  and visual dictionaries proper to the artist kind (patch / marker / text;
  the DS9-derived ones are literally what the DS9 reader stores).  An
  exception is a violation: ``kwarg_override_raises`` when the same call
  without the caller's kwargs succeeds (the keyword collides with the stored
  attribute it should override), ``unexpected_exception`` otherwise.

BAND.  The design note says "1 %"; that is an upper bound for the guard, the
derived tolerance is far smaller: a cubic Bezier circle deviates by <= 2.8e-4
of the radius with 4 segments (matplotlib's 8-segment unit circle: 4e-6
measured; an affine image for ellipses, so the same in the normalised
radius), flattening each 45 degree arc with 64 points adds a sagitta of 2e-5, rectangles and polygons are exact, arithmetic on
coordinates <= 1e4 contributes 1e-11.  BAND = 5e-3 is > 15x the sum and keeps
the query rings at 0.99 and 1.01 of the size (with 1 % they would sit exactly
on the guard and be dropped, leaving 0.9/1.1 as the closest rings).

Self-intersecting polygons: the region uses the even-odd rule, a renderer the
non-zero rule.  They differ only where |winding| is even and non-zero
(e.g. the core of a pentagram); the statement does not say which rule "inside
the path" means there, so such polygons are not in the lattice.  The catalogue's
'bowtie' is kept: its two lobes have winding +1 and -1, both rules agree
everywhere off the boundary.

Not demanded (statement silent): matplotlib defaults when neither the visual
dictionary nor the caller says anything (default fill, default colours of the
'mpl' style), the artist's concrete class, the Arrow's width, and what the
caller's ``color`` means for a point marker's edge colour (only that the
keyword reaches the artist).  The include flag does not change what is drawn:
the comparison is with the geometric point set.
"""
import math
import warnings

import numpy as np

from mc.result import Result
from mc import catalog as K
from mc.lattice import chunks
from mc.oracles import geometry as G

ID = 'C18'
LEVEL = 'model_checking'
ENGINE = 'E2-lattice'
FILES = ['regions/shapes/circle.py', 'regions/shapes/ellipse.py', 'regions/shapes/rectangle.py',
         'regions/shapes/polygon.py', 'regions/shapes/line.py', 'regions/shapes/point.py',
         'regions/shapes/text.py', 'regions/shapes/annulus.py', 'regions/core/compound.py',
         'regions/core/metadata.py', 'regions/core/bounding_box.py']
RULE = ('full Cartesian product of shape class x size (pairs) x angle x angle representation x centre x plot origin '
        '(one state per (spec, origin)); every state is crossed with origin container form {tuple, list, ndarray} and '
        'with the visual-dictionary x caller-kwargs matrix of its artist kind (quick: the matrix on every 4th state per class, '
        'phase chosen by the seed); every as_artist call is one transition: outline (own flattening + own non-zero winding '
        'number vs reference membership on the shape-frame query lattice outside the 0.5 % band), annulus hole/orientation, '
        'point/text/line placement and the effective visual attributes are compared; a state is non-trivial when sure '
        'members and sure non-members both survive the band filter (point/text/line: always)')
BOUNDS = {'quick': 'sizes {1,3,7.5} (all width x height pairs), 5 angles alternating deg/rad, 3 centres, 4 origins, 7 polygons x 3 scales, '
                   'regular polygons n in {3,5,6}, 3 annulus classes x 2 outer factors, point/text/line, 81 bounding boxes; '
                   'visual x kwargs matrix on every 4th state per class',
          'thorough': 'sizes {1,3,7.5} pairs, 11 angles x {Quantity in deg, Angle in rad}, 4 centres, 6 origins, same classes; '
                      'full visual x kwargs matrix on every state'}
ASSUMPTIONS = ['numpy elementwise arithmetic is trusted',
               'query positions within 0.5 % of the size from a boundary are excepted (curve-approximation tolerance, derived in the module docstring)',
               'matplotlib getters (get_path, get_patch_transform, get_edgecolor, get_linewidth, get_fill, get_xydata, get_position, get_text, ...) '
               'report the state of the artist truthfully; no rendering is done',
               'self-intersecting polygons with regions of even non-zero winding are outside the lattice (even-odd vs non-zero ambiguity)',
               'the include flag is ignored (the artist shows the geometric point set)']

BAND = 5e-3
NCURVE = 64

# ------------------------------------------------------------------ axes ----
SIZES = [1.0, 3.0, 7.5]
# origins on one image axis ((10, 0), (0, -6)): one component zero, the other not
ORIGINS = [(0.0, 0.0), (1.5, -2.0), (10.0, 0.0), (0.0, -6.0), (-100.0, 40.0), (8000.5, -3000.25)]
OUTER_FACTORS = [(1.25, 1.25), (4.0, 1.5)]
POLY_SCALES = [1.0, 3.0, 7.5]
REGPOLY_N = [3, 5, 6]
LINE_DIRS = [(3.0, -1.5), (0.0, 2.0), (-4.0, 0.0), (-0.25, -0.125)]
TEXTS = ['a label', 'b {1} $x^2$']
ORIGIN_FORMS = ['tuple', 'list', 'ndarray', 'int_tuple']

PATCH_VIS = {
    'empty': {},
    'mpl': {'color': 'red', 'linewidth': 3, 'fill': True},
    'ds9': {'default_style': 'ds9', 'color': 'green'},
    # what the DS9 reader stores for "circle(...) # color=green width=2 fill=1"
    'ds9_reader': {'linewidth': 2, 'default_style': 'ds9', 'fill': True, 'facecolor': 'green', 'edgecolor': 'green'},
    'ds9_bare': {'default_style': 'ds9'},
}
PATCH_KW = {
    'none': {},
    # the data transform of the Axes given explicitly (what plot() amounts to): the outline stays where it is
    'transform': {'transform': 'AX_TRANSDATA', 'linewidth': 2},
    'edgecolor': {'edgecolor': 'blue'},
    'linewidth': {'linewidth': 5},
    'fill_false': {'fill': False},
    'fill_true': {'fill': True},
    'color': {'color': 'k'},
    'ec': {'ec': 'blue'},
    'lw': {'lw': 5},
}
LINE_KW = dict(PATCH_KW, width={'width': 0.5})
POINT_VIS = {
    'empty': {},
    'mpl': {'color': 'red', 'linewidth': 3, 'markersize': 7},
    'ds9': {'default_style': 'ds9', 'color': 'green'},
    # what the DS9 reader stores for "point(...) # point=cross 5 color=green width=2"
    'ds9_reader': {'color': 'green', 'default_style': 'ds9', 'markersize': '5', 'marker': '+', 'markeredgewidth': 2},
    'ds9_bare': {'default_style': 'ds9'},
}
POINT_KW = {
    'none': {},
    'markeredgecolor': {'markeredgecolor': 'blue'},
    'mec': {'mec': 'blue'},
    'markersize': {'markersize': 12},
    'ms': {'ms': 12},
    'markeredgewidth': {'markeredgewidth': 5},
    'mew': {'mew': 5},
    'marker': {'marker': 'x'},
    'color': {'color': 'k'},
}
TEXT_VIS = {
    'empty': {},
    'mpl': {'color': 'red', 'fontsize': 14, 'fontweight': 'bold', 'textangle': 30},
    'ds9': {'default_style': 'ds9', 'color': 'green'},
    # what the DS9 reader stores for 'text(...) # text={..} color=green font="helvetica 14 bold"'
    'ds9_reader': {'color': 'green', 'default_style': 'ds9', 'fontname': 'helvetica', 'fontsize': 14,
                   'fontweight': 'bold', 'fontstyle': 'normal'},
    'ds9_bare': {'default_style': 'ds9'},
}
TEXT_KW = {
    'none': {},
    'color': {'color': 'blue'},
    'fontsize': {'fontsize': 20},
    'size': {'size': 20},
    'fontweight': {'fontweight': 'light'},
    'weight': {'weight': 'light'},
    'rotation': {'rotation': 45},
    # the font family under each of its spellings (a stored fontname must not win over the caller's family)
    'family': {'family': 'serif'},
    'fontfamily': {'fontfamily': 'monospace'},
    'fontname': {'fontname': 'serif'},
    # an explicit None asks matplotlib for its own default: it still overrides the stored attribute
    'fontsize_none': {'fontsize': None},
    'color_none': {'color': None},
    'rotation_none': {'rotation': None},
}


def _kind(cls):
    return {'point': 'point', 'text': 'text', 'line': 'line', 'bbox': 'bbox'}.get(cls, 'patch')


def _matrix(cls):
    k = _kind(cls)
    if k == 'point':
        return POINT_VIS, POINT_KW
    if k == 'text':
        return TEXT_VIS, TEXT_KW
    if k == 'line':
        return PATCH_VIS, LINE_KW
    if k == 'bbox':
        return {'empty': {}}, PATCH_KW
    return PATCH_VIS, PATCH_KW


def _angles(tier):
    if tier == 'quick':
        degs = [0.0, 30.0, 90.0, 123.4, -60.0]
        return [K.angle_spec(d, 'rad' if i % 2 else 'deg', 'quantity') for i, d in enumerate(degs)]
    reps = [('deg', 'quantity'), ('rad', 'angle')]
    return [K.angle_spec(d, u, k) for d in K.ANGLES_DEG for (u, k) in reps]


def configs(tier):
    """Geometry specs (without visual), simplest first within each class."""
    A = _angles(tier)
    # (12, 7): Python ints -- PixCoord keeps them as integers, the plot origin may have a fractional part
    C = (K.CENTRES[:3] if tier == 'quick' else K.CENTRES) + [(12, 7)]
    out = []
    for c in C:
        for r in SIZES:
            out.append({'cls': 'circle', 'center': list(c), 'radius': r})
    for cls in ('ellipse', 'rectangle'):
        for c in C:
            for w in SIZES:
                for h in SIZES:
                    for a in A:
                        out.append({'cls': cls, 'center': list(c), 'width': w, 'height': h, 'angle': a})
    for name in K.POLYS:
        for s in POLY_SCALES:
            for c in C:
                out.append(K.polygon_spec(name, s, c))
    # rings far from the pixel origin whose last vertex is distinct from the first but lies within a relative 1e-5 of it
    for B in (2.0 ** 19, -2.0 ** 19 + 0.5):
        out.append({'cls': 'polygon', 'name': 'far_almost_closed',
                    'vertices': [[B, B + 8, B + 8, B + 3, B + 2], [B, B, B + 6, B + 6, B + 1.5]]})
        out.append({'cls': 'polygon', 'name': 'far_almost_closed_quad',
                    'vertices': [[B, B + 6, B + 5, B - 1.5], [B, B + 1, B + 7, B + 2]]})
    # needles a hair away from a quarter turn: the far ends are where a rounded angle shows
    for cls in ('rectangle', 'ellipse'):
        for (w, h, a) in ((40000.0, 1.0, 270.0025), (6000.0, 0.5, 1080.01), (1.0, 20000.0, 89.998), (30000.0, 2.0, -90.003)):
            out.append({'cls': cls, 'center': [0.5, -0.25], 'width': w, 'height': h, 'angle': [a, 'deg', 'quantity'], 'route': 'fresh'})
    # polygons whose integral vertices are held in a (narrow, unsigned) numpy integer type, e.g. read from a table column
    for dt in ('uint8', 'int16', 'uint16', 'int64'):
        out.append({'cls': 'polygon', 'vertices': [[1, 9, 9, 4], [2, 2, 8, 6]], 'vertex_dtype': dt, 'name': 'int_quad'})
        out.append({'cls': 'polygon', 'vertices': [[3, 7, 5], [1, 1, 9]], 'vertex_dtype': dt, 'name': 'int_triangle'})
    for n in REGPOLY_N:
        for c in C:
            for r in SIZES:
                for a in A:
                    out.append({'cls': 'regpoly', 'center': list(c), 'n': n, 'radius': r, 'angle': a})
    for c in C:
        for ri in SIZES:
            for ro in SIZES:
                if ri < ro:
                    out.append({'cls': 'circleannulus', 'center': list(c), 'inner_radius': ri, 'outer_radius': ro})
    for cls in ('ellipseannulus', 'rectangleannulus'):
        for c in C:
            for w in SIZES:
                for h in SIZES:
                    for (fw, fh) in OUTER_FACTORS:
                        for a in A:
                            out.append({'cls': cls, 'center': list(c), 'inner_width': w, 'inner_height': h,
                                        'outer_width': w * fw, 'outer_height': h * fh, 'angle': a})
    # concentric symmetric differences of two simple shapes of different classes: drawn as one patch with a hole
    for c in C:
        for a in A[:3]:
            rect = {'cls': 'rectangle', 'center': list(c), 'width': 7.0, 'height': 4.0, 'angle': a}
            ell = {'cls': 'ellipse', 'center': list(c), 'width': 3.0, 'height': 1.5, 'angle': a}
            for big in (8.0, 2.5, 1.0):
                circ = {'cls': 'circle', 'center': list(c), 'radius': big}
                out.append({'cls': 'compound', 'op': 'xor', 'r1': rect, 'r2': circ})
                out.append({'cls': 'compound', 'op': 'xor', 'r1': circ, 'r2': rect})
            out.append({'cls': 'compound', 'op': 'xor', 'r1': ell, 'r2': rect})
            out.append({'cls': 'compound', 'op': 'xor', 'r1': rect, 'r2': ell})
    for c in C:
        out.append({'cls': 'point', 'center': list(c)})
        for t in TEXTS:
            out.append({'cls': 'text', 'center': list(c), 'text': t})
        for (dx, dy) in LINE_DIRS:
            out.append({'cls': 'line', 'start': list(c), 'end': [c[0] + dx, c[1] + dy]})
    return out


def bbox_configs():
    out = []
    for ixmin in (-3, 0, 7):
        for nx in (1, 2, 5):
            for iymin in (-3, 0, 7):
                for ny in (1, 2, 5):
                    out.append({'cls': 'bbox', 'bbox': [ixmin, ixmin + nx, iymin, iymin + ny]})
    return out


# ------------------------------------------------ own path flattening -------
MOVETO, LINETO, CURVE3, CURVE4, CLOSEPOLY, STOP = 1, 2, 3, 4, 79, 0
_T = np.linspace(0.0, 1.0, NCURVE)[1:, None]      # t = 0 is the previous end point


def flatten(path):
    """Path (data coordinates) -> list of (n, 2) vertex arrays, one per
    subpath; every subpath is treated as closed (filling closes implicitly)."""
    V = np.asarray(path.vertices, float)
    n = len(V)
    C = path.codes
    if C is None:
        C = [MOVETO] + [LINETO] * (n - 1)
    subs = []
    cur = None
    start = None
    i = 0

    def begin():
        nonlocal cur
        if cur is None:
            # drawing continues after CLOSEPOLY (or starts without MOVETO): from the subpath start
            cur = [np.array(start if start is not None else V[i], float)]

    while i < n:
        c = int(C[i])
        if c == STOP:
            break
        if c == MOVETO:
            if cur is not None and len(cur) > 1:
                subs.append(np.array(cur))
            cur = [V[i].copy()]
            start = V[i].copy()
            i += 1
        elif c == LINETO:
            begin()
            cur.append(V[i].copy())
            i += 1
        elif c == CURVE3:
            begin()
            p0, p1, p2 = cur[-1], V[i], V[i + 1]
            t = _T
            pts = (1 - t) ** 2 * p0 + 2 * (1 - t) * t * p1 + t ** 2 * p2
            cur.extend(pts)
            i += 2
        elif c == CURVE4:
            begin()
            p0, p1, p2, p3 = cur[-1], V[i], V[i + 1], V[i + 2]
            t = _T
            pts = (1 - t) ** 3 * p0 + 3 * (1 - t) ** 2 * t * p1 + 3 * (1 - t) * t ** 2 * p2 + t ** 3 * p3
            cur.extend(pts)
            i += 3
        elif c == CLOSEPOLY:
            if cur is not None and len(cur) > 1:
                subs.append(np.array(cur))
            cur = None
            i += 1
        else:
            raise ValueError(f'unknown path code {c}')
    if cur is not None and len(cur) > 1:
        subs.append(np.array(cur))
    return subs


def winding(subs, qx, qy):
    """Non-zero-rule winding number of every query point (sum over all closed
    subpaths of the signed crossings of the ray y = qy, x > qx)."""
    wn = np.zeros(qx.shape, np.int64)
    Y = qy[:, None]
    for P in subs:
        ax, ay = P[:, 0], P[:, 1]
        # edge k runs from vertex k (a) to vertex k+1 (b), the last one closes the subpath
        a_le = ay[None, :] <= Y                      # (queries, edges): a on or below the ray's line
        b_le = np.concatenate((a_le[:, 1:], a_le[:, :1]), axis=1)
        qi, ei = np.nonzero(a_le != b_le)            # edges that cross the line y = qy (half-open rule)
        if qi.size == 0:
            continue
        ej = ei + 1
        ej[ej == len(ax)] = 0
        # > 0 when the query lies to the left of the directed edge a -> b
        left = (ax[ej] - ax[ei]) * (qy[qi] - ay[ei]) - (qx[qi] - ax[ei]) * (ay[ej] - ay[ei])
        upward = a_le[qi, ei]                        # a <= y < b
        contrib = np.where(upward & (left > 0), 1, 0) - np.where(~upward & (left < 0), 1, 0)
        wn += np.bincount(qi, weights=contrib, minlength=qx.size).astype(np.int64)
    return wn


def signed_area(P):
    x = P[:, 0] - P[0, 0]
    y = P[:, 1] - P[0, 1]
    return 0.5 * float(np.sum(x * np.roll(y, -1) - y * np.roll(x, -1)))


# --------------------------------------------------- reference queries ------
_SIZE_KEYS = ('radius', 'width', 'height', 'inner_radius', 'outer_radius',
              'inner_width', 'inner_height', 'outer_width', 'outer_height')


def _scaled(spec, f):
    s = dict(spec)
    for k in _SIZE_KEYS:
        if k in s:
            s[k] = s[k] * f
    return s


def _edge_distance(vx, vy, x, y):
    d = np.full(x.shape, np.inf)
    n = len(vx)
    for i in range(n):
        j = (i + 1) % n
        ex, ey = vx[j] - vx[i], vy[j] - vy[i]
        L2 = ex * ex + ey * ey
        if L2 == 0:
            dd = np.hypot(x - vx[i], y - vy[i])
        else:
            s = np.clip(((x - vx[i]) * ex + (y - vy[i]) * ey) / L2, 0.0, 1.0)
            dd = np.hypot(x - (vx[i] + s * ex), y - (vy[i] + s * ey))
        d = np.minimum(d, dd)
    return d


def _inner_spec(spec):
    c = spec['cls']
    if c == 'circleannulus':
        return {'cls': 'circle', 'center': spec['center'], 'radius': spec['inner_radius']}
    k = 'ellipse' if c == 'ellipseannulus' else 'rectangle'
    s = {'cls': k, 'center': spec['center'], 'width': spec['inner_width'], 'height': spec['inner_height']}
    if 'angle' in spec:
        s['angle'] = spec['angle']
    return s


def queries(spec, ndir):
    """Region-frame query positions outside the BAND, their reference
    membership and (annuli) the mask of positions inside the inner shape."""
    geo = {k: v for k, v in spec.items() if k not in ('visual', 'include', 'meta')}
    rx, ry = G.shape_frame_queries(geo, ndir)
    ref = G.Ref(geo)
    ins, sure = ref.member(rx, ry)
    if geo['cls'] == 'compound':
        keep = np.asarray(sure).copy()
        both = np.ones(rx.shape, bool)
        for o in (geo['r1'], geo['r2']):
            i0, s0 = G.Ref(o).member(rx, ry)
            i1, s1 = G.Ref(_scaled(o, 1.0 - BAND)).member(rx, ry)
            i2, s2 = G.Ref(_scaled(o, 1.0 + BAND)).member(rx, ry)
            keep &= s0 & s1 & s2 & (i1 == i0) & (i2 == i0)
            both &= np.asarray(i0)
        rx, ry, ins, both = rx[keep], ry[keep], np.asarray(ins)[keep], both[keep]
        return rx, ry, ins, both & ~ins
    if geo['cls'] in ('polygon', 'regpoly'):
        keep = sure & (_edge_distance(ref.vx, ref.vy, rx, ry) > BAND * ref.size())
    else:
        i1, s1 = G.Ref(_scaled(geo, 1.0 - BAND)).member(rx, ry)
        i2, s2 = G.Ref(_scaled(geo, 1.0 + BAND)).member(rx, ry)
        keep = sure & s1 & s2 & (i1 == ins) & (i2 == ins)
    rx, ry, ins = rx[keep], ry[keep], np.asarray(ins)[keep]
    hole = np.zeros(rx.shape, bool)
    if geo['cls'] in G.ANNULI:
        hi, hs = G.Ref(_scaled(_inner_spec(geo), 1.0 - BAND)).member(rx, ry)
        hole = np.asarray(hi) & np.asarray(hs) & ~ins
    return rx, ry, ins, hole


def bbox_spec(b):
    ixmin, ixmax, iymin, iymax = b
    nx, ny = ixmax - ixmin, iymax - iymin
    return {'cls': 'rectangle', 'center': [ixmin - 0.5 + nx / 2.0, iymin - 0.5 + ny / 2.0],
            'width': float(nx), 'height': float(ny)}


# ------------------------------------------------ expected attributes -------
_ALIAS = {'ec': 'edgecolor', 'lw': 'linewidth', 'fc': 'facecolor', 'mec': 'markeredgecolor',
          'ms': 'markersize', 'mew': 'markeredgewidth', 'size': 'fontsize', 'weight': 'fontweight',
          'family': 'fontfamily', 'fontname': 'fontfamily', 'name': 'fontfamily'}


def _expect(kind, vis, kw):
    """Reference model of the effective attributes: {attr: (value, source)}.
    Stored visual attributes first (DS9 style: default colour #00ff00, the
    colour name 'green' means #00ff00 -- both documented in metadata.py),
    caller kwargs last.  Attributes nobody specified are absent (not
    demanded)."""
    ds9 = vis.get('default_style') == 'ds9'

    def col(c):
        return '#00ff00' if (ds9 and c == 'green') else c
    exp = {}
    colour_attr = {'patch': 'edgecolor', 'line': 'edgecolor', 'bbox': 'edgecolor',
                   'point': 'markeredgecolor', 'text': 'color'}[kind]
    if ds9:
        exp[colour_attr] = ('#00ff00', 'visual')
    if 'color' in vis:
        exp[colour_attr] = (col(vis['color']), 'visual')
    if kind in ('patch', 'line', 'bbox'):
        for k in ('edgecolor', 'facecolor'):
            if k in vis:
                exp[k] = (col(vis[k]), 'visual')
        for k in ('linewidth', 'fill'):
            if k in vis:
                exp[k] = (vis[k], 'visual')
    elif kind == 'point':
        if 'linewidth' in vis:
            exp['markeredgewidth'] = (vis['linewidth'], 'visual')
        for k in ('markersize', 'markeredgewidth', 'marker'):
            if k in vis:
                exp[k] = (vis[k], 'visual')
    elif kind == 'text':
        if 'fontsize' in vis:
            exp['fontsize'] = (vis['fontsize'], 'visual')
        if 'fontweight' in vis:
            exp['fontweight'] = (vis['fontweight'], 'visual')
        if 'textangle' in vis:
            exp['rotation'] = (vis['textangle'], 'visual')
        if 'fontname' in vis:
            exp['fontfamily'] = (vis['fontname'], 'visual')
    for k, v in kw.items():
        k = _ALIAS.get(k, k)
        if k in ('width', 'transform'):
            continue
        if k == 'color':
            if kind in ('patch', 'line', 'bbox'):
                exp['edgecolor'] = (v, 'caller')
                exp['facecolor'] = (v, 'caller')
            elif kind == 'point':
                # Line2D's own colour; whether it should also recolour the marker edge (which the stored
                # 'color' maps to) is ambiguous -> only that the keyword reaches the artist is demanded
                exp['color'] = (v, 'caller')
                exp.pop('markeredgecolor', None)
            else:
                exp['color'] = (v, 'caller')
        else:
            exp[k] = (v, 'caller')
    return exp


def _observe(kind, artist, attr, exp):
    from matplotlib.colors import to_rgba
    if exp is None and kind == 'text':
        # the caller asked for matplotlib's default: what a plain Text artist has
        from matplotlib.text import Text
        exp = getattr(Text(0, 0, 'x'), 'get_' + attr)()
    if attr in ('edgecolor', 'facecolor', 'markeredgecolor', 'color'):
        got = getattr(artist, 'get_' + attr)()
        return tuple(float(v) for v in to_rgba(got)), tuple(float(v) for v in to_rgba(exp))
    if attr in ('linewidth', 'markersize', 'markeredgewidth', 'fontsize', 'rotation'):
        return float(getattr(artist, 'get_' + attr)()), float(exp)
    if attr == 'fill':
        return bool(artist.get_fill()), bool(exp)
    if attr in ('marker', 'fontweight'):
        return getattr(artist, 'get_' + attr)(), exp
    if attr == 'fontfamily':
        got = artist.get_fontfamily()
        return (list(got) if not isinstance(got, str) else [got]), [exp]
    raise ValueError(attr)


def check_attrs(res, case, kind, artist, vis, kw):
    exp = _expect(kind, vis, kw)
    ok = True
    for attr, (val, src) in sorted(exp.items()):
        if attr == 'facecolor' and not ('fill' in exp and bool(exp['fill'][0])):
            continue            # the face colour is only observable on a filled patch
        got, want = _observe(kind, artist, attr, val)
        if got != want:
            ok = False
            if src == 'caller':
                res.violation(ID, 'kwarg_not_overriding', case,
                              f'{attr}: caller kwargs {kw} did not take effect on the artist (visual {vis}): '
                              f'got {got!r}, expected {want!r}', want, got)
            else:
                res.violation(ID, 'visual_not_applied', case,
                              f'{attr}: stored visual attribute of {vis} (kwargs {kw}) not in effect: got {got!r}, expected {want!r}',
                              want, got)
    return ok


# --------------------------------------------------------- the checks -------
def _ulp(v):
    return math.ulp(abs(v)) if v else 5e-324


def _origin_obj(origin, form):
    if form == 'int_tuple':       # whole-pixel origins given as Python ints, the way they are usually typed
        return tuple(int(v) if float(v).is_integer() else v for v in origin)
    if form == 'list':
        return [origin[0], origin[1]]
    if form == 'ndarray':
        return np.array(origin, float)
    return (origin[0], origin[1])


def check_outline(res, case, artist, spec, origin, Q):
    """Patch outline vs reference point set. Returns (ok, n_in, n_out)."""
    rx, ry, ins, hole = Q
    for m in ('get_path', 'get_patch_transform'):
        if not hasattr(artist, m):
            res.violation(ID, 'artist_type', case, f'as_artist returned {type(artist).__name__}, which has no {m}(): not a patch',
                          'a matplotlib patch', type(artist).__name__)
            return False, 0, 0
    path = artist.get_patch_transform().transform_path(artist.get_path())
    subs = flatten(path)
    dx, dy = rx - origin[0], ry - origin[1]
    wn = winding(subs, dx, dy)
    inside = wn != 0
    ok = True
    filled = hole & inside
    if filled.any():
        ok = False
        k = int(np.flatnonzero(filled)[0])
        res.violation(ID, 'annulus_hole_filled', case,
                      f'{int(filled.sum())} of {int(hole.sum())} positions inside the inner shape are inside the patch under the '
                      f'non-zero winding rule (first: data ({float(dx[k])!r},{float(dy[k])!r}) winding {int(wn[k])}): the hole is filled',
                      0, int(wn[k]))
    bad = (inside != ins) & ~filled
    if bad.any():
        ok = False
        k = int(np.flatnonzero(bad)[0])
        res.violation(ID, 'outline_mismatch', case,
                      f'{int(bad.sum())} of {int(ins.size)} query positions: patch membership (winding != 0) differs from the region; '
                      f'first: data ({float(dx[k])!r},{float(dy[k])!r}) = region ({float(rx[k])!r},{float(ry[k])!r}) - origin: winding {int(wn[k])}, region contains: {bool(ins[k])}',
                      bool(ins[k]), int(wn[k]))
    if spec['cls'] in G.ANNULI or spec['cls'] == 'compound':
        if len(subs) != 2:
            ok = False
            res.violation(ID, 'annulus_outlines', case, f'annulus path has {len(subs)} subpaths, expected an outer and an inner outline',
                          2, len(subs))
        else:
            a0, a1 = signed_area(subs[0]), signed_area(subs[1])
            if not (a0 * a1 < 0):
                ok = False
                res.violation(ID, 'annulus_orientation', case,
                              f'outer and inner outline have the same orientation (signed areas {a0!r}, {a1!r})',
                              'opposite signs', [a0, a1])
    return ok, int(ins.sum()), int((~ins).sum())


def check_point(res, case, artist, spec, origin):
    want = (spec['center'][0] - origin[0], spec['center'][1] - origin[1])
    if not hasattr(artist, 'get_xydata'):
        res.violation(ID, 'artist_type', case, f'as_artist returned {type(artist).__name__} without get_xydata()', 'Line2D', type(artist).__name__)
        return False
    xy = np.asarray(artist.get_xydata(), float)
    tol = 4 * _ulp(max(abs(spec['center'][0]), abs(spec['center'][1]), abs(origin[0]), abs(origin[1]), 1.0))
    if xy.shape != (1, 2) or abs(xy[0, 0] - want[0]) > tol or abs(xy[0, 1] - want[1]) > tol:
        res.violation(ID, 'point_position', case, f'marker at {xy.tolist()}, expected [[{want[0]!r}, {want[1]!r}]] (centre - origin)',
                      [list(want)], xy.tolist())
        return False
    return True


def check_text(res, case, artist, spec, origin):
    want = (spec['center'][0] - origin[0], spec['center'][1] - origin[1])
    if not (hasattr(artist, 'get_position') and hasattr(artist, 'get_text')):
        res.violation(ID, 'artist_type', case, f'as_artist returned {type(artist).__name__} without get_position()/get_text()', 'Text', type(artist).__name__)
        return False
    pos = tuple(float(v) for v in artist.get_position())
    tol = 4 * _ulp(max(abs(spec['center'][0]), abs(spec['center'][1]), abs(origin[0]), abs(origin[1]), 1.0))
    ok = True
    if abs(pos[0] - want[0]) > tol or abs(pos[1] - want[1]) > tol:
        ok = False
        res.violation(ID, 'text_position', case, f'text at {pos}, expected {want} (centre - origin)', list(want), list(pos))
    if artist.get_text() != spec.get('text', 'hello'):
        ok = False
        res.violation(ID, 'text_string', case, f'text {artist.get_text()!r}, expected {spec.get("text")!r}', spec.get('text'), artist.get_text())
    return ok


def check_line(res, case, artist, spec, origin, kw):
    """The Arrow polygon runs from start-origin (tail midpoint) to end-origin (tip)."""
    for m in ('get_path', 'get_patch_transform'):
        if not hasattr(artist, m):
            res.violation(ID, 'artist_type', case, f'as_artist returned {type(artist).__name__}, which has no {m}()', 'a patch', type(artist).__name__)
            return False
    sx, sy = spec['start'][0] - origin[0], spec['start'][1] - origin[1]
    ex, ey = spec['end'][0] - origin[0], spec['end'][1] - origin[1]
    L = math.hypot(ex - sx, ey - sy)
    ux, uy = (ex - sx) / L, (ey - sy) / L
    big = max(abs(v) for v in (spec['start'] + spec['end'] + list(origin))) + 1.0
    tol = 1e-9 * L + 64 * _ulp(big)
    subs = flatten(artist.get_patch_transform().transform_path(artist.get_path()))
    if len(subs) != 1 or len(subs[0]) < 3:
        res.violation(ID, 'line_axis', case, f'arrow path has {len(subs)} subpaths', 1, len(subs))
        return False
    P = subs[0]
    t = (P[:, 0] - sx) * ux + (P[:, 1] - sy) * uy          # along the line
    s = -(P[:, 0] - sx) * uy + (P[:, 1] - sy) * ux         # across
    problems = []
    if abs(t.min()) > tol or abs(t.max() - L) > tol:
        problems.append(f'extent along start->end is [{float(t.min())!r}, {float(t.max())!r}], expected [0, {L!r}]')
    tip = np.flatnonzero(t >= t.max() - tol)
    tipxy = P[tip]
    if np.ptp(tipxy[:, 0]) > tol or np.ptp(tipxy[:, 1]) > tol or abs(s[tip[0]]) > tol:
        problems.append(f'the tip (vertices with the largest projection: {tipxy.tolist()}) is not the single point end-origin ({ex!r},{ey!r})')
    tail = np.flatnonzero(t <= t.min() + tol)
    if abs(s[tail].max() + s[tail].min()) > 2 * tol:
        problems.append(f'the tail is not centred on start-origin (offsets across {s[tail].tolist()})')
    if abs(s.max() + s.min()) > 2 * tol:
        problems.append(f'the arrow is not symmetric about the start->end axis (across extent [{float(s.min())!r}, {float(s.max())!r}])')
    if 'width' in kw:
        # only when the caller chose the width is the lateral extent known: |across| <= width / 2
        if np.abs(s).max() > 0.5 * kw['width'] + tol:
            problems.append(f'vertices up to {float(np.abs(s).max())!r} away from the axis, more than width/2 = {0.5 * kw["width"]!r}')
    if problems:
        res.violation(ID, 'line_axis', case, 'arrow does not run from start-origin to end-origin: ' + '; '.join(problems),
                      [[sx, sy], [ex, ey]], P.tolist())
        return False
    return True


_AX = []


def _axes():
    if not _AX:
        from matplotlib.figure import Figure
        _AX.append(Figure().add_subplot())
    return _AX[0]


def _plotted(artist):
    """The artist plot() returned, taken off the shared Axes again (it stays a complete artist)."""
    try:
        artist.remove()
    except Exception:      # noqa: BLE001
        pass
    return artist


def check_bbox_params(res, case, artist, b, origin=(0.0, 0.0)):
    ixmin, ixmax, iymin, iymax = b
    want = [ixmin - 0.5 - origin[0], iymin - 0.5 - origin[1], float(ixmax - ixmin), float(iymax - iymin)]
    try:
        got = [float(artist.get_x()), float(artist.get_y()), float(artist.get_width()), float(artist.get_height())]
    except AttributeError:
        res.violation(ID, 'artist_type', case, f'bounding box artist is a {type(artist).__name__}', 'Rectangle', type(artist).__name__)
        return False
    if got != want:
        res.violation(ID, 'bbox_artist', case, f'rectangle (x, y, width, height) = {got}, expected {want}', want, got)
        return False
    return True


def _call(fn):
    """Run one library call -> (artist, exception)."""
    try:
        with warnings.catch_warnings():
            warnings.simplefilter('ignore')      # matplotlib warns when color= overrides edgecolor
            return fn(), None
    except Exception as exc:
        return None, exc


def check_call(res, spec, origin, form, visname, vis, kwname, kw, ndir, Q=None):
    """One as_artist call, fully checked."""
    cls = spec['cls']
    kind = _kind(cls)
    case = {'cls': cls, 'spec': spec, 'origin': list(origin), 'origin_form': form, 'vis': visname, 'visual': vis,
            'kw': kwname, 'kwargs': kw, 'ndir': ndir}
    res.evaluations += 1
    if kind == 'bbox':
        from regions import RegionBoundingBox

        def make(k):
            if form == 'plot':
                return _plotted(RegionBoundingBox(*spec['bbox']).plot(origin=tuple(origin), ax=_axes(), **k))
            return RegionBoundingBox(*spec['bbox']).as_artist(**k)
    else:
        s = dict(spec)
        s['visual'] = vis
        if cls == 'compound':
            s['include'] = 'absent'       # the compound is handed its own (empty) meta and this visual
        try:
            reg = G.build_routed(s)       # every 4th spec (by hash) is reached by re-assignment
        except Exception as exc:
            res.violation(ID, 'build_failed', case, f'could not construct region: {type(exc).__name__}: {exc}')
            return

        if cls == 'regpoly':
            # a history: a defining parameter is re-assigned after construction.  The region's point set (contains, bounding
            # box, masks) follows its vertices, which this does not touch -- so must the outline that is drawn
            import zlib as _z
            h = _z.crc32(repr((sorted(spec.items(), key=str), list(origin), visname, kwname, 'edit')).encode()) % 4
            v0 = (np.array(reg.vertices.x, copy=True), np.array(reg.vertices.y, copy=True))
            if h == 0:
                reg.radius = reg.radius * 1.5
            elif h == 1:
                reg.center = type(reg.center)(reg.center.x + 2.0, reg.center.y - 1.0)
            case['edited_after_construction'] = {0: 'radius', 1: 'center'}.get(h, 'no')
            if not (np.array_equal(v0[0], reg.vertices.x) and np.array_equal(v0[1], reg.vertices.y)):
                # an implementation that refreshes the vertices on assignment: the edited region is another region, outside
                # this configuration -- check the unedited one
                case['edited_after_construction'] = 'no (vertices follow assignments)'
                reg = G.build_routed(s)

        def make(k):
            if form == 'plot':
                return _plotted(reg.plot(origin=tuple(origin), ax=_axes(), **k))
            return reg.as_artist(origin=_origin_obj(origin, form), **k)
        # history: on every second case (deterministic) the same region object has already produced an artist
        # with *other* caller keywords; nothing of that earlier call may show in the artist under test
        import zlib
        if zlib.crc32(repr((sorted(spec.items(), key=str), list(origin), visname, kwname)).encode()) % 2 == 0:
            prime = {'patch': {'edgecolor': 'magenta', 'linewidth': 9, 'fill': True},
                     'line': {'edgecolor': 'magenta', 'linewidth': 9},
                     'point': {'markeredgecolor': 'magenta', 'markersize': 19},
                     'text': {'color': 'magenta', 'fontsize': 19}}.get(kind, {})
            _call(lambda: make(prime))
    kw_json = kw
    kw = {k: (_axes().transData if v == 'AX_TRANSDATA' else v) for k, v in kw.items()}
    artist, exc = _call(lambda: make(kw))
    kw = kw_json
    res.transitions += 1
    if exc is not None:
        # every keyword used here is accepted by the artist class, so no exception is acceptable.  When the
        # same call without the caller's kwargs succeeds, the failure is the caller's keyword meeting the
        # stored visual attribute it should override -> its own kind
        vkind = 'unexpected_exception'
        if kw:
            _, exc0 = _call(lambda: make({}))      # diagnostic only, not counted
            if exc0 is None:
                vkind = 'kwarg_override_raises'
        res.violation(ID, vkind, case,
                      f'as_artist(**{kw}) on a {cls} region with visual {vis} raised {type(exc).__name__}: {exc}'
                      + (' (the same call without the kwargs succeeds)' if vkind == 'kwarg_override_raises' else ''),
                      'an artist', f'{type(exc).__name__}: {exc}')
        res.outcome((cls, visname, kwname, vkind))
        return
    if kind in ('patch', 'bbox'):
        geo = bbox_spec(spec['bbox']) if kind == 'bbox' else spec
        if Q is None:
            Q = queries(geo, ndir)
        good, n_in, n_out = check_outline(res, case, artist, geo, origin, Q)
        if kind == 'bbox':
            good = check_bbox_params(res, case, artist, spec['bbox'], origin if form == 'plot' else (0.0, 0.0)) and good
        sig = (cls, n_in > 0, n_out > 0)
    elif kind == 'point':
        good = check_point(res, case, artist, spec, origin)
        sig = (cls,)
    elif kind == 'text':
        good = check_text(res, case, artist, spec, origin)
        sig = (cls,)
    else:
        good = check_line(res, case, artist, spec, origin, kw)
        sig = (cls,)
    good = check_attrs(res, case, kind, artist, vis, kw) and good
    res.outcome(sig + (visname, kwname, 'ok' if good else 'violated'))


def check_state(res, spec, origin, full, ndir):
    """One (spec, origin) state: base call in every origin form, then the visual x kwargs matrix."""
    cls = spec['cls']
    kind = _kind(cls)
    res.states += 1
    res.axis('cls', cls)
    res.axis('origin', tuple(origin))
    if 'angle' in spec:
        res.axis('angle', f"{spec['angle'][0]:.6g} {spec['angle'][1]}/{spec['angle'][2]}")
    if 'center' in spec:
        res.axis('centre', tuple(spec['center']))
    Q = None
    if kind in ('patch', 'bbox'):
        Q = queries(bbox_spec(spec['bbox']) if kind == 'bbox' else spec, ndir)
        if Q[2].any() and (~Q[2]).any():
            res.nontriv(('state', spec, list(origin)))
        if res.states <= 2:
            res.sample({'spec': spec, 'origin': list(origin), 'n_queries_kept': int(Q[0].size),
                        'n_inside': int(Q[2].sum()), 'n_hole': int(Q[3].sum())})
    else:
        res.nontriv(('state', spec, list(origin)))
    VIS, KW = _matrix(cls)
    # 'plot': the artist as returned by plot(origin=..., ax=...) on an Axes of a figure without a GUI
    forms = ORIGIN_FORMS + ['plot'] if kind != 'bbox' else (['tuple', 'plot'] if tuple(origin) == (0.0, 0.0) else ['plot'])
    if kind == 'bbox' and not (spec['bbox'][1] > spec['bbox'][0] and spec['bbox'][3] > spec['bbox'][2]):
        forms = ['tuple']         # an empty box has no rectangle region to plot
    for form in forms:
        res.axis('origin_form', form)
        check_call(res, spec, origin, form, 'empty', {}, 'none', {}, ndir, Q)
    if not full:
        return
    for visname, vis in VIS.items():
        for kwname, kw in KW.items():
            if visname == 'empty' and kwname == 'none':
                continue            # done above
            res.axis('visual', visname)
            res.axis('kwargs', kwname)
            check_call(res, spec, origin, 'tuple', visname, vis, kwname, kw, ndir, Q)


# ----------------------------------------------------------- framework ------
def _ndir(seed):
    # the seed only selects one of four pre-vetted phases of the query lattice (number of ray
    # directions) and the phase of the quick tier's thinning; it never draws random inputs
    return 16 + (int(seed) % 4)


def shards(tier, seed):
    origins = ORIGINS[:4] if tier == 'quick' else ORIGINS
    small = ('circle', 'circleannulus', 'point', 'text', 'line', 'bbox', 'polygon')
    phase = int(seed) % 4
    cases = []
    count = {}
    for spec in configs(tier):
        for o in origins:
            k = count.get(spec['cls'], 0)
            count[spec['cls']] = k + 1
            full = tier != 'quick' or spec['cls'] in small or k % 4 == phase
            cases.append([spec, list(o), bool(full)])
    for spec in bbox_configs():
        cases.append([spec, [0.0, 0.0], True])
        b = spec['bbox']
        if b[1] > b[0] and b[3] > b[2]:
            for o in origins[1:]:
                cases.append([spec, list(o), False])        # drawn through plot(origin=...), the only route with an origin
    return chunks(cases, 64 if tier == 'quick' else 256)


def run_shard(shard, tier, seed):
    res = Result()
    ndir = _ndir(seed)
    for spec, origin, full in shard['cases']:
        check_state(res, spec, origin, full, ndir)
    return res


def replay(case):
    res = Result()
    check_call(res, case['spec'], case['origin'], case.get('origin_form', 'tuple'), case.get('vis', '?'),
               case.get('visual') or {}, case.get('kw', '?'), case.get('kwargs') or {}, case.get('ndir', 16))
    return res
