"""C13 -- operations never mutate their inputs nor depend on call history.

E1: the state is (pool of real objects of every class, module-level state of
the library); events are the read-only/constructive public operations.  The
search runs to closure (expected: one state, every event a self-loop -- a
second state *is* a violation), and -- because a fingerprint could miss hidden
state -- additionally executes all ordered pairs (quick) and triples
(thorough) of operations and compares every result with the result of the same
operation from the initial state.  E3: every operation is also run in fresh
interpreters under PYTHONHASHSEED 0..3 and compared with the in-process result.
"""
import io
import os
import sys
import json
import copy
import hashlib
import operator
import subprocess
import warnings

import numpy as np

from mc.result import Result, jhash
from mc import fingerprint as FP
from mc import pool, env

ID = 'C13'
LEVEL = 'model_checking'
ENGINE = 'E1-explorer'
FILES = ['regions/io/crtf/io_core.py', 'regions/io/ds9/write.py', 'regions/io/ds9/meta.py', 'regions/io/ds9/read.py',
         'regions/io/ds9/core.py', 'regions/io/fits/write.py', 'regions/core/compound.py', 'regions/core/core.py',
         'regions/core/metadata.py', 'regions/shapes/annulus.py', 'regions/io/crtf/read.py', 'regions/io/fits/read.py',
         'regions/core/registry.py']
RULE = ('state = deep bit-exact fingerprint of a pool of 26 regions (every class, pixel and sky, included/excluded, with '
        'meta/visual), query coordinates, images, a WCS, a Regions list, input tables/texts/files and of 25 module-level '
        'tables/iterators; events = the operations listed in OPS; closure of the state graph, all ordered pairs (and '
        'triples in the thorough tier) of operations with result comparison against the initial-state result, and '
        'fresh-interpreter runs per hash seed; parser texts: all histories up to depth 3 (thorough: 4) over an alphabet of 15 DS9 / CRTF '
        'texts (well-formed, with members skipped with a warning, raising), each history in a child forked from a process that has '
        'not parsed anything, every step compared (regions or exception, and warnings) with the same text parsed first in a fresh '
        'interpreter. A history is non-trivial when its last operation returns a non-empty '
        'result (region, array, text, table or file) that is compared')
BOUNDS = {'quick': 'closure + all ordered pairs of operations + 4 hash seeds (one fresh interpreter per seed, every operation on a fresh pool) + '
                   'all 3615 parser-text histories of length <= 3',
          'thorough': 'closure + all ordered pairs + all ordered triples over the 26 I/O, conversion, copy and artist operations + every (operation, hash seed) in its own fresh interpreter + all 54240 parser-text histories of length <= 4'}
ASSUMPTIONS = ['the fingerprint covers every field reachable through the public attributes of the pool objects and the '
               'module-level tables named in the property anchors; the pair/triple result comparison exists to catch state it could miss',
               'astropy/matplotlib internals (caches of SkyCoord, WCS objects) are not part of the compared state, except WCS header text']

SEEDS = [0, 1, 2, 3]

DS9_TEXT = ('# Region file format: DS9\nglobal color=green dashlist=8 3 width=1 font="helvetica 10 normal roman"\n'
            'image\ncircle(10.5,20.25,3) # color=red text={a b}\nellipse(30,40,5,3,20) # tag={g1} tag={g2}\n'
            '-box(50,60,7,4,45)\npolygon(1,2,8,3,5,9)\nannulus(20,20,2,5)\nline(1,1,9,9)\npoint(4,5) # point=cross 9\n'
            '# text(12,13) text={hello world}\n'
            'fk5\ncircle(10:00:00.0,+20:00:00.0,30") # fill=1\nellipse(150.0,20.1,60",30",15)\nbox(150.1,20.2,0.01,0.02,10)\n'
            'galactic\npolygon(120.0,-5.0,120.1,-5.0,120.05,-4.9)\n')
CRTF_TEXT = ('#CRTFv0\nglobal coord=J2000, color=blue\n'
             'circle[[150.0deg, 20.0deg], 30.0arcsec], label=\'c1\'\n'
             '-ellipse[[150.1deg, 20.1deg], [40.0arcsec, 20.0arcsec], 30.0deg], color=red\n'
             'rotbox[[150.2deg, 20.2deg], [30.0arcsec, 10.0arcsec], 10.0deg]\n'
             'poly[[150.0deg, 20.0deg], [150.1deg, 20.0deg], [150.05deg, 20.1deg]], coord=GALACTIC\n'
             'annulus[[150.0deg, 20.0deg], [10.0arcsec, 20.0arcsec]]\n'
             'ann line[[150.0deg, 20.0deg], [150.1deg, 20.1deg]]\n'
             'symbol[[150.0deg, 20.0deg], +]\n'
             'text[[150.0deg, 20.0deg], \'some words\']\n'
             'circle[[10pix, 20pix], 5pix], coord=image\n')


def _fits_table():
    import astropy.units as u
    from astropy.table import QTable
    t = QTable()
    t['SHAPE'] = ['circle', '!ellipse', 'rotbox', 'point', 'annulus']
    t['X'] = [[10.0, 0], [20.0, 0], [30.0, 0], [5.0, 0], [15.0, 0]] * u.pix
    t['Y'] = [[11.0, 0], [21.0, 0], [31.0, 0], [6.0, 0], [16.0, 0]] * u.pix
    t['R'] = [[3.0, 0], [4.0, 2.0], [6.0, 3.0], [0, 0], [2.0, 5.0]] * u.pix
    t['ROTANG'] = [0.0, 30.0, 45.0, 0.0, 0.0] * u.deg
    t['COMPONENT'] = [1, 2, 3, 4, 5]
    return t


class Ctx:
    """Fresh pool for one execution."""

    def __init__(self):
        import astropy.units as u
        from astropy.coordinates import SkyCoord
        from regions import PixCoord, Regions
        self.reg = {n: pool.make(n) for n in pool.PIXEL_NAMES + pool.SKY_NAMES}
        self.wcs = pool.wcs_simple(rot_deg=20.0, cdelt=2.0 / 3600, crval=(40.0, 20.0), crpix=(50.0, 60.0))
        self.img_f, self.img_i = pool.images()
        self.datamask = (self.img_i % 3 == 0)
        # an image with +-inf pixels (also under pixels of weight zero inside a mask's box)
        self.img_inf = self.img_f.copy()
        self.img_inf[self.img_i % 3 == 0] = np.inf
        self.img_inf[self.img_i % 3 == 1] = -np.inf
        yy, xx = np.mgrid[40:70:3, 36:62:3]
        self.pix_q = PixCoord(xx.astype(float) + 0.37, yy.astype(float) - 0.21)
        self.pix_s = PixCoord(43.0, 55.0)
        self.sky_q = SkyCoord(np.linspace(39.99, 40.01, 9) * u.deg, np.linspace(19.99, 20.01, 9) * u.deg)
        self.sky_s = SkyCoord(40.002 * u.deg, 20.001 * u.deg)
        self.rot_c = PixCoord(45.0, 50.0)
        self.rot_a = 33.0 * u.deg
        self.list_pix = Regions([self.reg[n] for n in ('circle', 'ellipse', 'rectangle', 'polygon', 'regpoly', 'circleannulus',
                                                       'ellipseannulus', 'point', 'circle_excl')])
        self.list_sky = Regions([self.reg[n] for n in ('sky_circle', 'sky_ellipse', 'sky_rectangle', 'sky_polygon', 'sky_circleannulus',
                                                       'sky_ellipseannulus', 'sky_rectangleannulus', 'sky_point', 'sky_line', 'sky_text',
                                                       'sky_circle_gal', 'sky_ellipse_excl')])
        self.list_crtf = Regions([self.reg[n] for n in ('sky_circle', 'sky_ellipse', 'sky_rectangle', 'sky_polygon', 'sky_circleannulus',
                                                        'sky_line', 'sky_text', 'sky_circle_gal', 'sky_ellipse_excl', 'sky_circle_spectral')])
        self.list_mixed = Regions([self.reg[n] for n in ('circle', 'sky_circle', 'line', 'text', 'rectangleannulus', 'sky_text')])
        # RegionMask objects held by the caller (inputs of the mask-application operations)
        self.masks = [self.reg['circle'].to_mask('center'), self.reg['ellipse'].to_mask('subpixels', subpixels=3),
                      self.reg['compound'].to_mask('center')]
        self.ds9_text = str(DS9_TEXT)
        self.crtf_text = str(CRTF_TEXT)
        self.fits_table = _fits_table()
        # a table as a caller may hold it: no unit on the ROTANG column
        from astropy.table import Column as _Column
        self.fits_table_nounit = _fits_table()
        self.fits_table_nounit.replace_column('ROTANG', _Column(np.array(self.fits_table_nounit['ROTANG'].value), name='ROTANG'))
        # a region the caller keeps editing between queries (not part of the compared inputs: the two scratch operations put it
        # into a defined state themselves)
        self.scratch = self.reg['ellipseannulus'].copy()
        self.scratch_c0 = (float(self.scratch.center.x), float(self.scratch.center.y))
        # option objects held by the caller (inputs of the writers)
        from astropy.io import fits as _fits
        self.hdr = _fits.Header([('ORIGIN', 'me'), ('OBSERVER', 'somebody')])
        self.hdr_dict = {'ORIGIN': 'me', 'TELESCOP': 'none'}
        self.dir = os.path.join(env.scratch(), f'c13_{os.getpid()}_{id(self)}')
        os.makedirs(self.dir, exist_ok=True)
        self._n = 0
        # input files written by the harness itself (not by the library)
        self.f_ds9 = self._put('in.reg', DS9_TEXT.encode())
        self.f_crtf = self._put('in.crtf', CRTF_TEXT.encode())
        # files that more than one format identifier accepts (extension of one format, content signature of another):
        # which reader they go to must not depend on what was read or written before
        self.f_crtf_as_reg = self._put('casa_export.reg', CRTF_TEXT.encode())
        self.f_ds9_as_crtf = self._put('ds9_export.crtf', DS9_TEXT.encode())
        from astropy.io import fits
        self.f_fits = os.path.join(self.dir, 'in.fits')
        with warnings.catch_warnings():
            warnings.simplefilter('ignore')
            fits.BinTableHDU(_fits_table(), name='REGION').writeto(self.f_fits, overwrite=True)

    def _put(self, name, data):
        p = os.path.join(self.dir, name)
        with open(p, 'wb') as fh:
            fh.write(data)
        return p

    def fresh_path(self, ext):
        self._n += 1
        return os.path.join(self.dir, f'out{self._n}{ext}')

    def close(self):
        import shutil
        shutil.rmtree(self.dir, ignore_errors=True)

    def fingerprint(self):
        d = {n: FP.fp(r) for n, r in self.reg.items()}
        d['wcs'] = FP.fp(self.wcs)
        for k in ('img_f', 'img_i', 'img_inf', 'datamask', 'pix_q', 'pix_s', 'sky_q', 'sky_s', 'rot_c', 'rot_a', 'list_pix', 'list_sky',
                  'list_mixed', 'list_crtf', 'ds9_text', 'crtf_text', 'fits_table', 'fits_table_nounit', 'masks'):
            d[k] = FP.fp(getattr(self, k))
        for k in ('list_pix', 'list_sky', 'list_mixed', 'list_crtf'):
            vals = list(self.reg.values())
            d[k + '_ids'] = [next((i for i, x in enumerate(vals) if x is r), -1) for r in getattr(self, k).regions]
        for k in ('f_ds9', 'f_crtf', 'f_fits'):
            with open(getattr(self, k), 'rb') as fh:
                d[k] = hashlib.blake2b(fh.read(), digest_size=12).hexdigest()
        d['hdr'] = [[str(k), str(v), str(c)] for k, v, c in self.hdr.cards]
        d['hdr_dict'] = sorted((str(k), str(v)) for k, v in self.hdr_dict.items())
        d['module'] = FP.module_state()
        return d


# ------------------------------------------------------------- operations ----
def _pix(c):
    return [c.reg[n] for n in pool.PIXEL_NAMES]


def _sky(c):
    return [c.reg[n] for n in pool.SKY_NAMES]


def _maskable(c):
    return [c.reg[n] for n in ('circle', 'ellipse', 'rectangle', 'polygon', 'regpoly', 'circleannulus', 'ellipseannulus',
                               'rectangleannulus', 'compound', 'circle_excl')]


def _try(fn):
    try:
        with warnings.catch_warnings():
            warnings.simplefilter('ignore')
            return fn()
    except Exception as exc:
        return ['EXC', type(exc).__name__, str(exc)[:200]]


def _artist_sig(a):
    import matplotlib.patches as mp
    import matplotlib.lines as ml
    import matplotlib.text as mt
    if isinstance(a, mp.Patch):
        p = a.get_patch_transform().transform_path(a.get_path())
        return ['patch', type(a).__name__, FP.fp(np.asarray(p.vertices)), None if p.codes is None else FP.fp(np.asarray(p.codes)),
                list(map(float, a.get_edgecolor())), float(a.get_linewidth()), bool(a.get_fill())]
    if isinstance(a, ml.Line2D):
        return ['line2d', FP.fp(np.asarray(a.get_xydata())), str(a.get_marker()), str(a.get_markeredgecolor())]
    if isinstance(a, mt.Text):
        return ['text', list(map(float, a.get_position())), a.get_text(), str(a.get_color())]
    return ['artist', repr(a)]


def _filebytes(path):
    with open(path, 'rb') as fh:
        return hashlib.blake2b(fh.read(), digest_size=12).hexdigest()


def _ser(obj, format_, **kw):
    out = obj.serialize(format=format_, **kw)
    return out if isinstance(out, str) else FP.fp(out)


def _scratch(c, state_b):
    from regions import PixCoord, RegionMeta
    r = c.scratch
    x0, y0 = c.scratch_c0
    r.center = PixCoord(x0 + 2.5, y0 - 1.25) if state_b else PixCoord(x0, y0)
    r.meta = RegionMeta({'include': False}) if state_b else RegionMeta({'text': 'sea'})
    m = r.to_mask('center')
    return [FP.fp(r.contains(c.pix_q)), FP.fp(m.data), FP.fp(r.bounding_box)]


def _write(c, obj, fmt, ext, **kw):
    p = c.fresh_path(ext)
    obj.write(p, format=fmt, **kw)
    return _filebytes(p)


OPS = {
    'contains_array': lambda c: [_try(lambda r=r: FP.fp(r.contains(c.pix_q))) for r in _pix(c)],
    'contains_scalar_in': lambda c: [_try(lambda r=r: [FP.fp(r.contains(c.pix_s)), FP.fp(c.pix_s in r)]) for r in _pix(c)],
    'sky_contains': lambda c: [_try(lambda r=r: FP.fp(r.contains(c.sky_q, c.wcs))) for r in _sky(c)],
    'sky_contains_scalar': lambda c: [_try(lambda r=r: FP.fp(r.contains(c.sky_s, c.wcs))) for r in _sky(c)],
    'to_mask_center': lambda c: [_try(lambda r=r: FP.fp(r.to_mask('center'))) for r in _maskable(c)],
    'to_mask_subpixels': lambda c: [_try(lambda r=r: FP.fp(r.to_mask('subpixels', subpixels=3))) for r in _maskable(c)],
    'to_mask_exact': lambda c: [_try(lambda r=r: FP.fp(r.to_mask('exact'))) for r in _maskable(c)],
    'mask_to_image': lambda c: [_try(lambda r=r: FP.fp(r.to_mask('center').to_image(c.img_f.shape))) for r in _maskable(c)],
    'mask_cutout': lambda c: [_try(lambda r=r: FP.fp(r.to_mask('center').cutout(c.img_f, fill_value=-1.0))) for r in _maskable(c)],
    'mask_cutout_view': lambda c: [_try(lambda r=r: FP.fp(r.to_mask('center').cutout(c.img_i, copy=False))) for r in _maskable(c)],
    'mask_multiply': lambda c: [_try(lambda r=r: FP.fp(r.to_mask('subpixels', subpixels=2).multiply(c.img_f))) for r in _maskable(c)[:8]],
    'mask_multiply_int': lambda c: [_try(lambda r=r: FP.fp(r.to_mask('center').multiply(c.img_i, fill_value=7))) for r in _maskable(c)],
    'mask_get_values': lambda c: [_try(lambda r=r: FP.fp(r.to_mask('center').get_values(c.img_f, mask=c.datamask))) for r in _maskable(c)],
    'poolmask_get_values_masked': lambda c: [_try(lambda m=m: FP.fp(m.get_values(c.img_f, mask=c.datamask))) for m in c.masks],
    'poolmask_get_values': lambda c: [_try(lambda m=m: FP.fp(m.get_values(c.img_i))) for m in c.masks],
    'poolmask_multiply_cutout': lambda c: [_try(lambda m=m: [FP.fp(m.multiply(c.img_f, fill_value=-1.0)), FP.fp(m.cutout(c.img_i, copy=True))]) for m in c.masks],
    'poolmask_to_image': lambda c: [_try(lambda m=m: [FP.fp(m.to_image(c.img_f.shape)), FP.fp(np.array(m))]) for m in c.masks],
    'mask_multiply_inf': lambda c: [_try(lambda r=r: [FP.fp(r.to_mask('center').multiply(c.img_inf)), FP.fp(r.to_mask('center').get_values(c.img_inf))])
                          for r in _maskable(c)],
    'poolmask_multiply_inf': lambda c: [_try(lambda m=m: [FP.fp(m.multiply(c.img_inf, fill_value=-1.0)), FP.fp(m.cutout(c.img_inf))]) for m in c.masks],
    # a copy (and a copy of the copy, and a copy of a member taken out of a list) is the caller's: edited in place, coordinates included
    'copy_then_edit': lambda c: [_try(lambda r=r: _copy_edit(r)) for r in _pix(c) + _sky(c)] + [_try(lambda: _copy_edit(c.list_sky[3]))],
    'area': lambda c: [_try(lambda r=r: FP.fp(r.area)) for r in _pix(c)],
    'bounding_box': lambda c: [_try(lambda r=r: FP.fp(r.bounding_box)) for r in _pix(c)],
    'to_sky': lambda c: [_try(lambda r=r: FP.fp(r.to_sky(c.wcs))) for r in _pix(c)],
    'to_pixel': lambda c: [_try(lambda r=r: FP.fp(r.to_pixel(c.wcs))) for r in _sky(c)],
    'rotate': lambda c: [_try(lambda r=r: FP.fp(r.rotate(c.rot_c, c.rot_a))) for r in _pix(c)],
    'copy': lambda c: [_try(lambda r=r: FP.fp(r.copy())) for r in _pix(c) + _sky(c)],
    'deepcopy': lambda c: [_try(lambda r=r: FP.fp(copy.deepcopy(r))) for r in _pix(c) + _sky(c)],
    'copy_changes': lambda c: [_try(lambda r=r: FP.fp(r.copy(meta={'text': 'changed'}))) for r in _pix(c) + _sky(c)],
    'combine_and': lambda c: [_try(lambda: FP.fp(c.reg['circle'] & c.reg['ellipse'])), _try(lambda: FP.fp(c.reg['sky_circle'] & c.reg['sky_ellipse'])),
                              _try(lambda: FP.fp((c.reg['circle'] & c.reg['ellipse']).contains(c.pix_q)))],
    'combine_or': lambda c: [_try(lambda: FP.fp(c.reg['circle_excl'] | c.reg['rectangle'])), _try(lambda: FP.fp((c.reg['circle_excl'] | c.reg['rectangle']).contains(c.pix_q))),
                             _try(lambda: FP.fp((c.reg['circle_excl'] | c.reg['rectangle']).to_mask()))],
    'combine_xor': lambda c: [_try(lambda: FP.fp(c.reg['polygon'] ^ c.reg['circleannulus'])), _try(lambda: FP.fp((c.reg['sky_polygon'] ^ c.reg['sky_circle']).contains(c.sky_q, c.wcs)))],
    'as_artist': lambda c: [_try(lambda r=r: _artist_sig(r.as_artist())) for r in _pix(c)],
    'as_artist_origin': lambda c: [_try(lambda r=r: _artist_sig(r.as_artist(origin=(3, -2), color='k'))) for r in _pix(c)[:11]],
    'repr_str': lambda c: [_try(lambda r=r: [repr(r), str(r)]) for r in _pix(c) + _sky(c)] + [repr(c.list_mixed), str(c.list_pix)],
    'eq': lambda c: [_try(lambda a=a, b=b: [bool(a == b), bool(a != b)]) for a in (_pix(c) + _sky(c))[::3] for b in (_pix(c) + _sky(c))[::4]],
    'ser_ds9_each': lambda c: [_try(lambda r=r: _ser(r, 'ds9')) for r in _pix(c) + _sky(c)],
    'ser_ds9_list_pix': lambda c: _try(lambda: _ser(c.list_pix, 'ds9')),
    'ser_ds9_list_sky': lambda c: _try(lambda: _ser(c.list_sky, 'ds9', precision=4)),
    'ser_ds9_list_mixed': lambda c: _try(lambda: _ser(c.list_mixed, 'ds9')),
    'ser_crtf_each': lambda c: [_try(lambda r=r: _ser(r, 'crtf')) for r in _sky(c)[:10] + _sky(c)[11:]],
    'ser_crtf_each_pix': lambda c: [_try(lambda r=r: _ser(r, 'crtf', coordsys='image')) for r in _pix(c)],
    'ser_crtf_list_sky': lambda c: _try(lambda: _ser(c.list_crtf, 'crtf', coordsys='galactic', fmt='.4f', radunit='arcsec')),
    # the same serialiser with other option values (state keyed on only some of the options would show here)
    'ser_crtf_arcsec': lambda c: _try(lambda: _ser(c.list_crtf, 'crtf', radunit='arcsec')),
    'ser_crtf_arcmin_gal': lambda c: _try(lambda: _ser(c.list_crtf, 'crtf', coordsys='galactic', radunit='arcmin')),
    'ser_crtf_fmt3_deg': lambda c: _try(lambda: _ser(c.list_crtf, 'crtf', fmt='.3f')),
    'ser_crtf_fmt3_rad_icrs': lambda c: _try(lambda: _ser(c.list_crtf, 'crtf', fmt='.3f', radunit='rad', coordsys='icrs')),
    'ser_ds9_prec3': lambda c: _try(lambda: _ser(c.list_pix, 'ds9', precision=3)),
    'ser_ds9_prec11_sky': lambda c: _try(lambda: _ser(c.list_sky, 'ds9', precision=11)),
    'ser_fits_each': lambda c: [_try(lambda r=r: _ser(r, 'fits')) for r in _pix(c)],
    'ser_fits_list_pix': lambda c: _try(lambda: _ser(c.list_pix, 'fits')),
    'ser_fits_list_mixed': lambda c: _try(lambda: _ser(c.list_mixed, 'fits')),
    'write_ds9': lambda c: [_try(lambda: _write(c, c.list_pix, 'ds9', '.reg')), _try(lambda: _write(c, c.reg['sky_ellipse_excl'], 'ds9', '.ds9'))],
    'write_crtf': lambda c: [_try(lambda: _write(c, c.list_crtf, 'crtf', '.crtf')), _try(lambda: _write(c, c.reg['sky_circle'], 'crtf', '.crtf'))],
    'write_fits': lambda c: [_try(lambda: _write(c, c.list_pix, 'fits', '.fits')), _try(lambda: _write(c, c.reg['ellipse'], 'fits', '.fits'))],
    'write_fits_header': lambda c: [_try(lambda: _write(c, c.list_pix, 'fits', '.fits', header=c.hdr)),
                                    _try(lambda: _write(c, c.reg['circle'], 'fits', '.fits', header=c.hdr_dict))],
    'parse_fits_nounit': lambda c: _try(lambda: FP.fp(_R().parse(c.fits_table_nounit, format='fits'))),
    # the caller's own region in state A (original centre, included) resp. state B (moved, excluded), then asked; what it answers must
    # be what its CURRENT state says, whatever it was asked before
    'scratch_query_a': lambda c: _try(lambda: _scratch(c, False)),
    'scratch_query_b': lambda c: _try(lambda: _scratch(c, True)),
    'parse_ds9': lambda c: _try(lambda: FP.fp(_R().parse(c.ds9_text, format='ds9'))),
    'parse_crtf': lambda c: _try(lambda: FP.fp(_R().parse(c.crtf_text, format='crtf'))),
    'parse_fits': lambda c: _try(lambda: FP.fp(_R().parse(c.fits_table, format='fits'))),
    'read_ds9': lambda c: _try(lambda: FP.fp(_R().read(c.f_ds9))),
    'read_crtf': lambda c: _try(lambda: FP.fp(_R().read(c.f_crtf, format='crtf'))),
    'read_fits': lambda c: _try(lambda: FP.fp(_R().read(c.f_fits))),
    'read_crtf_auto': lambda c: _try(lambda: FP.fp(_R().read(c.f_crtf))),
    'read_ambiguous': lambda c: [_try(lambda: FP.fp(_R().read(c.f_crtf_as_reg))), _try(lambda: FP.fp(_R().read(c.f_ds9_as_crtf)))],
    'list_ops': lambda c: [_try(lambda: FP.fp(c.list_pix[1:4])), _try(lambda: FP.fp(c.list_sky.copy())), len(c.list_mixed), _try(lambda: FP.fp(c.list_pix[0]))],
    'get_formats': lambda c: _try(lambda: [FP.fp(_R().get_formats()), FP.fp(type(c.reg['circle']).get_formats())]),
    # chains: the result of one operation is consumed by another one inside the same event
    'chain_to_sky_ser': lambda c: [_try(lambda r=r: _ser(r.to_sky(c.wcs), 'ds9')) for r in _pix(c)[:11]],
    'chain_to_pixel_ser': lambda c: [_try(lambda r=r: [_ser(r.to_pixel(c.wcs), 'ds9'), _ser(r.to_pixel(c.wcs), 'fits')]) for r in _sky(c)[:8]],
    'chain_copy_ser_crtf': lambda c: [_try(lambda r=r: _ser(r.copy(), 'crtf')) for r in _sky(c)[:4] + _sky(c)[11:]],
    'chain_parse_ser': lambda c: [_try(lambda: _ser(_R().parse(c.ds9_text, format='ds9'), 'ds9')),
                                  _try(lambda: _ser(_R().parse(c.crtf_text, format='crtf'), 'crtf')),
                                  _try(lambda: _ser(_R().parse(c.fits_table, format='fits'), 'fits'))],
    'chain_rotate_mask': lambda c: [_try(lambda r=r: FP.fp(r.rotate(c.rot_c, c.rot_a).to_mask())) for r in _maskable(c)],
    'chain_combine_to_sky': lambda c: [_try(lambda: FP.fp((c.reg['circle_excl'] | c.reg['rectangle']).to_sky(c.wcs))),
                                       _try(lambda: FP.fp((c.reg['sky_circle'] & c.reg['sky_ellipse_excl']).to_pixel(c.wcs)))],
    'pixcoord_ops': lambda c: [_try(lambda: FP.fp(c.pix_q.to_sky(c.wcs))), _try(lambda: FP.fp(c.pix_q.rotate(c.rot_c, c.rot_a))),
                               _try(lambda: FP.fp(c.pix_q + c.pix_s)), _try(lambda: FP.fp(c.pix_q.separation(c.pix_s))),
                               _try(lambda: FP.fp(type(c.pix_q).from_sky(c.sky_q, c.wcs)))],
}
OP_NAMES = list(OPS)
# operations that touch parsers/serialisers/converters (module-level tables, metadata dicts): all ordered
# triples of these are executed in the thorough tier
TRIPLE_OPS = [o for o in OP_NAMES if o.startswith(('ser_', 'write_', 'parse_', 'read_', 'to_sky', 'to_pixel', 'copy', 'as_artist', 'combine_or', 'get_formats', 'chain_', 'scratch_'))]


def _copy_edit(r):
    import astropy.units as u
    from astropy.coordinates import SkyCoord
    cp = r.copy().copy()
    for name in getattr(cp, '_params', ()):
        v = getattr(cp, name)
        try:
            if isinstance(v, SkyCoord):
                if v.isscalar:
                    continue
                v[0] = SkyCoord(1.0 * u.deg, 2.0 * u.deg, frame=v.frame)
            elif hasattr(v, 'x') and hasattr(v, 'y'):
                if np.ndim(v.x):
                    v.x[0] += 1.0
                    v.y[-1] -= 2.0
                else:
                    v.x += 1.0
            elif isinstance(v, u.Quantity) and np.ndim(v) == 0 and name == 'angle':
                v[...] = v + 5.0 * v.unit
        except Exception:      # noqa: BLE001 -- read-only pieces are simply not edited
            pass
    cp.meta['text'] = 'edited'
    return FP.fp(cp)


def _R():
    from regions import Regions
    return Regions


_F0 = {}


def initial_fingerprint():
    if not _F0:
        c = Ctx()
        try:
            _F0['fp'] = c.fingerprint()
            _F0['key'] = jhash(_F0['fp'])
        finally:
            c.close()
    return _F0


def run_history(hist, stepwise=False):
    """Execute a history on a fresh pool.  Returns (list of result digests, [(op, changed keys)], initial key).
    The pool/module fingerprint is taken after the last operation only (after every operation when
    ``stepwise``); when the final fingerprint differs the history is re-run stepwise to localise the culprit."""
    init = initial_fingerprint()
    c = Ctx()
    try:
        results, changed = [], []
        prev = init['fp']
        for i, op in enumerate(hist):
            r = OPS[op](c)
            results.append(jhash(r))
            if stepwise or i == len(hist) - 1:
                f1 = c.fingerprint()
                if jhash(f1) != jhash(prev):
                    keys = [k for k in f1 if f1[k] != prev.get(k)]
                    if 'module' in keys:
                        keys += ['module.' + k for k in f1['module'] if f1['module'][k] != prev['module'].get(k)]
                    changed.append((op, keys))
                else:
                    changed.append((op, []))
                prev = f1
            else:
                changed.append((op, []))
    finally:
        c.close()
    if not stepwise and changed and changed[-1][1] and len(hist) > 1:
        return run_history(hist, stepwise=True)
    return results, changed, init['key']


_BASE = {}


def base_results(ops=None):
    """Result of every operation *run first in a fresh interpreter* (PYTHONHASHSEED=0) on a fresh pool: the
    reference every in-process history is compared with.  (Computing the reference in the exploring process
    itself would let earlier reference computations pollute later ones.)"""
    need = [o for o in (ops or OP_NAMES) if o not in _BASE]
    if need:
        from concurrent.futures import ThreadPoolExecutor
        with ThreadPoolExecutor(max_workers=min(16, len(need))) as ex:
            outs = list(ex.map(lambda o: run_fresh([o], 0), need))
        for o, out in zip(need, outs):
            _BASE[o] = out[o][0]
    return _BASE


def check_history(res, hist):
    case = {'op': 'history', 'hist': list(hist)}
    base = base_results(list(hist))
    results, changed, _ = run_history(hist)
    res.evaluations += 1
    res.transitions += len(hist)
    for i, (op, keys) in enumerate(changed):
        if keys:
            res.violation(ID, 'input_mutated', {'op': 'history', 'hist': list(hist[:i + 1])},
                          f'operation {op!r} (after {list(hist[:i])}) changed its inputs / module state: {keys[:8]}', [], keys[:12])
    for i, op in enumerate(hist):
        if results[i] != base[op]:
            res.violation(ID, 'result_depends_on_history', {'op': 'history', 'hist': list(hist[:i + 1])},
                          f'operation {op!r} returns a different result after {list(hist[:i])} than from the initial state',
                          base[op], results[i])
    res.outcome(('hist', len(hist), tuple(bool(k) for _, k in changed)))
    res.nontriv(('hist', tuple(hist)))


# ------------------------------------------------------------- parser texts --
# "parsing a text gives the same regions whatever was parsed before": an alphabet of texts of both text formats --
# well-formed ones, ones with members that are skipped with a warning (invalid parameter, unsupported shape or frame),
# ones that raise -- and ALL histories up to the depth of the tier over it.  Every history runs in a child forked from
# a worker that has never parsed anything, so a violation is due to that history alone and replays exactly.
PARSE_TEXTS = {
    'ds9:good': ('ds9', DS9_TEXT),
    'ds9:sexagesimal_polygons': ('ds9', 'fk5\npolygon(10:00:00.0,+20:00:00.0,10:00:10.0,+20:00:00.0,10:00:05.0,+20:05:00.0)\n'
                                        'icrs\npolygon(1:02:03,4:05:06,1:02:09,4:05:06,1:02:06,4:09:00) # color=red\n'
                                        'fk4\npolygon(12:00:00,-45:00:00,12:00:30,-45:00:00,12:00:15,-44:50:00)\n'),
    'ds9:invalid_parameter': ('ds9', 'fk5\npolygon(10,20,20p,30,40,50)\ncircle(1,2,3")\ngalactic\npolygon(10,20,30,40x,50,60)\nellipse(1,2,3",q,0)\n'),
    'ds9:odd_polygon': ('ds9', 'image\ncircle(1,2,3)\npolygon(1,2,3,4,5)\ncircle(4,5,6)\n'),
    'ds9:alternate_wcs': ('ds9', 'fk5\ncircle(10,20,3")\nwcsa\ncircle(1,2,3)\nbox(1,2,3,4,0)\nwcsq;point(1,2)\nwcs\ncircle(7,8,9)\nfk5\ncircle(11,21,3")\n'),
    'ds9:unsupported': ('ds9', 'physical\ncircle(1,2,3)\nimage\nvector(1,2,3,4)\nruler(1,2,3,4)\npanda(1,2,0,360,4,3,6,2)\ncircle(4,5,6)\n'
                               'detector;box(1,2,3,4,5)\nimage;box(1,2,3,4,5)\n'),
    'ds9:composite': ('ds9', 'image\n# composite(5,5,0) || composite=1 color=red width=4\ncircle(1,2,3) ||\nbox(4,5,2,2,0) ||\npoint(3,3)\ncircle(9,9,1)\n'),
    'ds9:global': ('ds9', 'global color=yellow width=3 select=0 font="times 14 bold italic" dash=1\nimage;circle(1,2,3);-ellipse(4,5,3,2,10) # text={x}\n'),
    'ds9:no_global': ('ds9', 'image\ncircle(1,2,3)\npoint(7,8)\n# text(3,4) text={plain}\n'),
    'ds9:empty': ('ds9', '# Region file format: DS9\n'),
    # the same property string on several lines (as in any real file); a repeated key is warned about on every line it is repeated on
    'ds9:repeated_props': ('ds9', 'image\ncircle(1,2,3) # color=red color=blue tag={a} tag={b}\nbox(1,2,3,4,0) # color=red color=blue tag={a} tag={b}\n'
                                  'circle(7,7,1) # tag={a} tag={b}\n'),
    'crtf:good': ('crtf', CRTF_TEXT),
    'crtf:global': ('crtf', '#CRTFv0\nglobal coord=GALACTIC, color=red, linewidth=3, symsize=2\ncircle[[120.0deg, -5.0deg], 10.0arcsec]\n'
                            'symbol[[120.1deg, -5.1deg], D]\n'),
    'crtf:no_global': ('crtf', '#CRTFv0\ncircle[[150.0deg, 20.0deg], 30.0arcsec]\nbox[[1pix, 2pix], [5pix, 6pix]], coord=image\n'
                               'ellipse[[10:00:00.0, +20.00.00.0], [20arcsec, 10arcsec], 40deg]\n'),
    'crtf:invalid': ('crtf', '#CRTFv0\ncircle[[150.0deg, 20.0deg], 30.0arcsec]\nhexagon[[1pix, 2pix], 3pix]\n'),
    'crtf:bad_unit': ('crtf', '#CRTFv0\ncircle[[150.0deg, 20.0deg], 30.0furlong]\n'),
}
PARSE_OPS = list(PARSE_TEXTS)
PARSE_DEPTH = {'quick': 3, 'thorough': 4}


def _parse_one(name):
    """Digest-able result of parsing one alphabet text: regions (or the exception) and the warnings."""
    fmt, text = PARSE_TEXTS[name]
    with warnings.catch_warnings(record=True) as w:
        warnings.simplefilter('always')
        try:
            got = _R().parse(str(text), format=fmt)
            out = ['ok', FP.fp(got)]
            # what a parse returns is the caller's: the caller edits it (tags appended, metadata changed) -- later parses must not see that
            for r in got:
                if isinstance(r.meta.get('tag'), list):
                    r.meta['tag'].append('appended by the caller')
                r.meta['text'] = 'set by the caller'
                r.visual['color'] = 'caller'
        except Exception as exc:          # noqa: BLE001
            out = ['raise', type(exc).__name__, str(exc)[:300]]
    out.append(sorted(str(x.message)[:200] for x in w))
    return out


def _parse_history_here(hist):
    """Runs in a process that has not parsed anything yet: digests of every step + module-state change."""
    from regions import Regions       # noqa: F401
    m0 = jhash(FP.module_state())
    digs = [jhash(_parse_one(h)) for h in hist]
    m1 = FP.module_state()
    return digs, (jhash(m1) != m0)


def _forked(fn, *args):
    """fn(*args) in a forked child; the JSON-able result comes back through a pipe."""
    r, wfd = os.pipe()
    pid = os.fork()
    if pid == 0:
        code = 0
        try:
            os.close(r)
            with os.fdopen(wfd, 'w') as fh:
                json.dump(fn(*args), fh)
        except BaseException as exc:      # noqa: BLE001
            code = 3
            try:
                sys.stderr.write(f'forked child failed: {type(exc).__name__}: {exc}\n')
            except Exception:             # noqa: BLE001
                pass
        finally:
            os._exit(code)
    os.close(wfd)
    with os.fdopen(r) as fh:
        data = fh.read()
    _, st = os.waitpid(pid, 0)
    if st != 0 or not data:
        raise RuntimeError(f'forked child for {fn.__name__}{args!r} failed (status {st})')
    return json.loads(data)


_PBASE = {}


def _parse_child(names):
    env.bootstrap()
    print('C13PARSE ' + json.dumps({n: _parse_history_here([n])[0][0] for n in names}, sort_keys=True))


def parse_base():
    """Digest of every alphabet text parsed FIRST in its own fresh interpreter."""
    need = [n for n in PARSE_OPS if n not in _PBASE]
    if need:
        from concurrent.futures import ThreadPoolExecutor

        def one(n):
            p = subprocess.run([sys.executable, '-c', f'import sys; sys.path.insert(0, {env.VERIF!r}); from mc.props import c13; c13._parse_child({[n]!r})'],
                               capture_output=True, text=True, cwd=env.VERIF, env=dict(os.environ, PYTHONHASHSEED='0'), timeout=600)
            line = [ln for ln in p.stdout.splitlines() if ln.startswith('C13PARSE ')]
            if not line:
                raise RuntimeError(f'fresh interpreter failed rc={p.returncode}: {p.stderr[-800:]}')
            return json.loads(line[0][len('C13PARSE '):])[n]
        with ThreadPoolExecutor(max_workers=min(16, len(need))) as ex:
            for n, d in zip(need, ex.map(one, need)):
                _PBASE[n] = d
    return _PBASE


def check_parse_history(res, hist):
    base = parse_base()
    digs, modchg = _forked(_parse_history_here, list(hist))
    res.evaluations += 1
    res.transitions += len(hist)
    res.states += 1
    case = {'op': 'parse_history', 'hist': list(hist)}
    bad = [i for i, h in enumerate(hist) if digs[i] != base[h]]
    if bad:
        i = bad[0]
        res.violation(ID, 'result_depends_on_history', {'op': 'parse_history', 'hist': list(hist[:i + 1])},
                      f'parsing the text {hist[i]!r} after {list(hist[:i])} gives a different result (regions / exception / warnings) '
                      f'than parsing it first in a fresh interpreter', base[hist[i]], digs[i])
    if modchg:
        res.violation(ID, 'input_mutated', case, f'module-level parser state differs after parsing {list(hist)}')
    res.outcome(('parse_hist', len(hist), not bad, modchg))
    res.nontriv(('parse_hist', tuple(hist)))
    res.axis('parse_text_last', hist[-1])


def parse_histories(depth):
    import itertools
    out = []
    for L in range(1, depth + 1):
        out += [list(t) for t in itertools.product(PARSE_OPS, repeat=L)]
    return out


# ----------------------------------------------------- fresh interpreters ----
def _child(ops):
    """Runs in a fresh interpreter: every op on a fresh pool, prints digests."""
    env.bootstrap()
    out = {}
    for op in ops:
        r, ch, _ = run_history([op])
        out[op] = [r[0], [k for _, k in ch][0]]
    print('C13CHILD ' + json.dumps(out, sort_keys=True))


def run_fresh(ops, seed):
    e = dict(os.environ, PYTHONHASHSEED=str(seed))
    p = subprocess.run([sys.executable, '-c', f'import sys; sys.path.insert(0, {env.VERIF!r}); from mc.props import c13; c13._child({list(ops)!r})'],
                       capture_output=True, text=True, cwd=env.VERIF, env=e, timeout=1800)
    line = [ln for ln in p.stdout.splitlines() if ln.startswith('C13CHILD ')]
    if not line:
        raise RuntimeError(f'fresh interpreter failed rc={p.returncode}: {p.stderr[-800:]}')
    return json.loads(line[0][len('C13CHILD '):])


def check_fresh(res, ops, seed):
    base = base_results(list(ops))
    out = run_fresh(ops, seed)
    for op in ops:
        res.evaluations += 1
        res.transitions += 1
        case = {'op': 'fresh', 'ops': [op], 'seed': seed}
        got, keys = out[op]
        if keys:
            res.violation(ID, 'input_mutated', case, f'{op!r} first in a fresh interpreter (PYTHONHASHSEED={seed}) changed its inputs: {keys[:8]}')
        if got != base[op]:
            res.violation(ID, 'result_depends_on_process', case,
                          f'{op!r} run first in a fresh interpreter with PYTHONHASHSEED={seed} differs from the in-process result (hash seed 0)',
                          base[op], got)
        res.outcome(('fresh', seed, got == base[op]))
        res.nontriv(('fresh', op, seed))


# ------------------------------------------------------------------ driver --
def shards(tier, seed):
    base_results()          # computed once in the parent (fresh interpreters), inherited by the forked workers
    parse_base()
    out = []
    nh = len(parse_histories(PARSE_DEPTH[tier]))
    nsh = 32 if tier == 'quick' else 128
    for k in range(nsh):        # first: the workers that fork the parsing children have not parsed anything themselves yet
        out.append({'kind': 'parse_histories', 'k': k, 'n': nsh, 'depth': PARSE_DEPTH[tier], 'total': nh})
    out.append({'kind': 'closure'})
    n = len(OP_NAMES)
    for i in range(n):
        out.append({'kind': 'pairs', 'first': OP_NAMES[i]})
    if tier == 'thorough':
        for a in TRIPLE_OPS:
            for j in range(0, len(TRIPLE_OPS), 6):
                out.append({'kind': 'triples', 'first': a, 'seconds': TRIPLE_OPS[j:j + 6]})
        for s in SEEDS:
            for i in range(n):
                out.append({'kind': 'fresh', 'seed': s, 'ops': [OP_NAMES[i]]})
    else:
        for s in SEEDS:
            out.append({'kind': 'fresh', 'seed': s, 'ops': OP_NAMES})
    return out


def run_shard(shard, tier, seed):
    res = Result()
    k = shard['kind']
    if k == 'closure':
        # BFS over states: every op from the initial state; a successor that differs from the initial
        # state is a violation (and is not expanded), so closure is reached at depth 1 when all are self-loops
        states = set()
        for op in OP_NAMES:
            results, changed, k0 = run_history([op])
            states.add(k0)
            res.transitions += 1
            res.evaluations += 1
            if changed[0][1]:
                res.violation(ID, 'input_mutated', {'op': 'history', 'hist': [op]},
                              f'operation {op!r} changed its inputs / module state: {changed[0][1][:8]}', [], changed[0][1][:12])
            if results[0] != base_results([op])[op]:
                res.violation(ID, 'result_depends_on_history', {'op': 'history', 'hist': [op]},
                              f'operation {op!r} in the exploring process differs from the same operation run first in a fresh interpreter',
                              base_results([op])[op], results[0])
            # I3: the same operation twice
            r2, ch2, _ = run_history([op, op])
            res.transitions += 2
            if r2[0] != r2[1]:
                res.violation(ID, 'result_not_repeatable', {'op': 'history', 'hist': [op, op]},
                              f'calling {op!r} twice gives two different results', r2[0], r2[1])
            res.nontriv(('closure', op))
            res.outcome(('closure', bool(changed[0][1])))
        res.states += len(states)
        res.extra['closure'] = {'states': len(states), 'events': len(OP_NAMES), 'closed': True}
        res.extra['ops'] = OP_NAMES
        res.sample({'history': [OP_NAMES[0], OP_NAMES[-1]], 'ops_total': len(OP_NAMES)})
    elif k == 'pairs':
        for b in OP_NAMES:
            check_history(res, [shard['first'], b])
        res.sample({'history': [shard['first'], OP_NAMES[3]]})
    elif k == 'triples':
        for b in shard['seconds']:
            for c_ in TRIPLE_OPS:
                check_history(res, [shard['first'], b, c_])
    elif k == 'parse_histories':
        for h in parse_histories(shard['depth'])[shard['k']::shard['n']]:
            check_parse_history(res, h)
        res.sample({'parse_history': parse_histories(shard['depth'])[shard['k']], 'alphabet': PARSE_OPS})
    elif k == 'fresh':
        check_fresh(res, shard['ops'], shard['seed'])
        res.sample({'fresh_interpreter': True, 'seed': shard['seed'], 'ops': shard['ops'][:3]})
    return res


def finalize(total, tier, seed):
    # the pool never changes unless there is a violation: the number of distinct states is what was observed
    total.states = 1 + len({v['observed'] and jhash(v['observed']) for v in total.violations if v['kind'] == 'input_mutated'})
    total.extra['histories_executed'] = total.evaluations


def replay(case):
    res = Result()
    if case['op'] == 'history':
        hist = case['hist']
        if len(hist) == 2 and hist[0] == hist[1]:
            r2, ch2, _ = run_history(hist)
            if r2[0] != r2[1]:
                res.violation(ID, 'result_not_repeatable', case, f'calling {hist[0]!r} twice gives two different results', r2[0], r2[1])
        check_history(res, hist)
    elif case['op'] == 'parse_history':
        check_parse_history(res, case['hist'])
    elif case['op'] == 'fresh':
        check_fresh(res, case['ops'], case['seed'])
    return res
