"""C10 -- DS9 text is read according to the DS9 region-file conventions.

E2: full per-line grammar product (shape x frame x coordinate notation x size
notation x angle notation x separator style x case x sign x include override
x property list), every line rendered by the generator-predictor
mc.oracles.ds9ref and parsed by the real parser.  E1: programs -- all
sequences to depth 3 of a 17-token line alphabet with both separators (no
de-duplication), and a breadth-first search over the reference interpreter's
states (active frame, global properties) to closure, each (state, token)
transition rendered as shortest prefix + token + probe line.
"""
import warnings
import itertools
import collections

from mc.result import Result
from mc.lattice import chunks
from mc.oracles import ds9ref as D
from mc.oracles import regdesc as RD

ID = 'C10'
LEVEL = 'model_checking'
ENGINE = 'E1-explorer'
FILES = ['regions/io/ds9/read.py', 'regions/io/ds9/core.py', 'regions/io/ds9/meta.py']
RULE = ('lines: Cartesian product of 15 shape forms x 16 frame spellings x coordinate notations {bare,d,r,a:b:c,XhYmZs | bare,i} x size '
        'notations {bare,",\',d,r | bare,i} x angle notations {bare,d,r} x 5 separator styles x 3 name cases x 3 signs x 3 include '
        'overrides x property lists; programs: every sequence of <= 3 tokens from a 17-token alphabet x {newline, ;} followed by a probe '
        'region, plus BFS over (frame, global properties) model states to closure. A line is non-trivial when its notation is not '
        'the default one; a program when it changes the model state or contains a skipped/unsupported token')
BOUNDS = {'quick': '(shape, frame, coord, size notation) product with default syntax + (shape, syntax axes, props) product at 2 frames; programs depth 3',
          'thorough': 'full line product with 3 property lists + property axis at default syntax; programs depth 3 + closure'}
ASSUMPTIONS = ['astropy Angle parsing of sexagesimal strings and unit conversion are trusted',
               'the supported subset is the one named in the property statement; comment lines are followed by a newline even in ";" programs',
               'tolerance 1e-9 (degrees or pixels): every convention error is larger than 1e-4']

TOL = 1e-9

FRAMES = ['image', 'fk5', 'galactic', 'icrs', 'j2000', 'fk4', 'b1950', 'ecliptic']
SHAPES = list(D.SHAPES)
SKY_COORDNOT = ['bare', 'd', 'r', 'colon', 'hms']
SKY_SIZENOT = ['', '"', "'", 'd', 'r']
ANGLENOT = ['', 'd', 'r']
SEPS = ['paren_comma', 'paren_space', 'space', 'comma', 'paren_comma_space', 'paren_tab', 'paren_comma_tab']
CASES = ['lower', 'upper', 'mixed']
SIGNS = ['', '+', '-']
INCS = [None, 0, 1]
PROPS = [
    ([], {}),
    (['color=red'], {'color': 'red'}),
    (['width=3'], {'width': 3}),
    (['tag={a}', 'tag={b c}'], {'tags': ['a', 'b c']}),
    (['text={x y; z}'], {'text': 'x y; z'}),
    (['text="quoted # text"'], {'text': 'quoted # text'}),
    (["text='single q'"], {'text': 'single q'}),
    # braces delimit: quote characters at the edges of the label belong to the label
    (['text={r = 10"}'], {'text': 'r = 10"'}),
    # an opening brace inside a braced label is a character like any other: the label ends at the first closing brace
    (['text={a {b; c}'], {'text': 'a {b; c'}),
    (['text={"NGC 5194" core}', 'color=red'], {'text': '"NGC 5194" core', 'color': 'red'}),
    (["tag={5'}", "text={radius 5'}"], {'tags': ["5'"], 'text': "radius 5'"}),
    # only the newline (and ';') ends a DS9 line: other separator-like characters inside a label belong to the label
    (['text={page\x0cbreak}', 'color=red'], {'text': 'page\x0cbreak', 'color': 'red'}),
    (['text="line\u2028sep \x85 next"', 'width=3'], {'text': 'line\u2028sep \x85 next', 'width': 3}),
    (['select=0', 'fixed=1'], {'meta': {'select': 0, 'fixed': 1}}),
    (['color=#ff8800', 'dash=1'], {'color': '#ff8800'}),
    (['font="times 12 bold"', 'fill=1', 'color=Cyan'], {'color': 'Cyan'}),
]


def _parse(text):
    from regions import Regions
    with warnings.catch_warnings(record=True) as w:
        warnings.simplefilter('always')
        out = Regions.parse(text, format='ds9')
    return list(out), [str(x.message) for x in w]


def _color_of(region):
    v = region.visual
    return v.get('edgecolor', v.get('color'))


def check_line(res, spec):
    """spec: dict of Line kwargs + 'props' index."""
    kw = dict(spec)
    pi = kw.pop('props', 0)
    props, pexp = PROPS[pi]
    shape = kw['shape']
    if shape == 'text' and 'text' in pexp:
        props, pexp = [], {}
    L = D.Line(props=props, **kw)
    text = f'{L.frame_word()}\n{L.render()}\n'
    case = {'op': 'line', 'spec': spec}
    res.evaluations += 1
    res.transitions += 1
    try:
        P, w = _parse(text)
    except Exception as exc:
        res.violation(ID, 'parse_raises', case, f'{text!r}: {type(exc).__name__}: {exc}', None, text)
        return
    if any(ord(ch) > 127 for ch in text):
        # the same text stored in a (UTF-8) file is read as it is parsed
        import os
        from regions import Regions
        from mc import env as _env
        path = os.path.join(_env.scratch(), f'c10_{os.getpid()}.reg')
        try:
            with open(path, 'w', encoding='utf-8') as fh:
                fh.write(text)
            with warnings.catch_warnings():
                warnings.simplefilter('ignore')
                Pf = list(Regions.read(path, format='ds9'))
            same = len(Pf) == len(P) and all(a == b and getattr(a, 'text', None) == getattr(b, 'text', None) for a, b in zip(Pf, P))
        except Exception as exc:          # noqa: BLE001
            same = False
            Pf = f'{type(exc).__name__}: {exc}'
        finally:
            if os.path.exists(path):
                os.remove(path)
        res.transitions += 1
        if not same:
            res.violation(ID, 'file_differs_from_text', case, f'{text!r}: Regions.read of a UTF-8 file holding this text gives '
                                                              f'{[dict(r.meta) for r in Pf] if isinstance(Pf, list) else Pf}, Regions.parse gives '
                                                              f'{[dict(r.meta) for r in P]}')
    exp = L.expected()
    if len(P) != len(exp):
        res.violation(ID, 'region_count', case, f'{text!r}: expected {len(exp)} region(s), parser produced {len(P)} (warnings: {w[:2]})', len(exp), {'n': len(P), 'text': text})
        return
    for k, (e, r) in enumerate(zip(exp, P)):
        d = RD.describe(r)
        diffs = RD.compare(e, d, TOL, TOL, TOL)
        if diffs:
            res.violation(ID, 'line_geometry', case, f'{text!r} region {k}: ' + '; '.join(diffs[:4]), e, {'desc': d, 'text': text})
        if d['include'] != e['include']:
            res.violation(ID, 'line_include', case, f'{text!r}: include expected {e["include"]}, got {d["include"]}', e['include'], {'got': d['include'], 'text': text})
        if e.get('text_param') is not None and d['text_param'] != e['text_param']:
            res.violation(ID, 'line_text', case, f'{text!r}: text expected {e["text_param"]!r}, got {d["text_param"]!r}', e['text_param'], {'got': d['text_param'], 'text': text})
        if 'text' in pexp and d['meta_text'] != pexp['text']:
            res.violation(ID, 'line_text', case, f'{text!r}: text property expected {pexp["text"]!r}, got {d["meta_text"]!r}', pexp['text'], {'got': d['meta_text'], 'text': text})
        if 'tags' in pexp and d['tags'] != pexp['tags']:
            res.violation(ID, 'line_tags', case, f'{text!r}: tags expected {pexp["tags"]!r}, got {d["tags"]!r}', pexp['tags'], {'got': d['tags'], 'text': text})
        if 'color' in pexp and _color_of(r) != pexp['color']:
            res.violation(ID, 'line_property', case, f'{text!r}: colour expected {pexp["color"]!r}, got {_color_of(r)!r}', pexp['color'], {'got': _color_of(r), 'text': text})
        if 'width' in pexp and e['shape'] not in ('text',):
            got = r.visual.get('markeredgewidth') if e['shape'] == 'point' else r.visual.get('linewidth')
            if got != pexp['width']:
                res.violation(ID, 'line_property', case, f'{text!r}: width expected {pexp["width"]!r}, got {got!r}', pexp['width'], {'got': got, 'text': text})
        for mk, mv in (pexp.get('meta') or {}).items():
            if r.meta.get(mk) != mv:
                res.violation(ID, 'line_property', case, f'{text!r}: {mk} expected {mv!r}, got {r.meta.get(mk)!r}', mv, {'got': r.meta.get(mk), 'text': text})
    default = (kw.get('coordnot', 'bare') == 'bare' and kw.get('sizenot', '') == '' and kw.get('sep', 'paren_comma') == 'paren_comma'
               and kw.get('sign', '') == '' and kw.get('include') is None and pi == 0)
    if not default:
        res.nontriv(('line', spec))
    res.outcome(('line', shape, kw['frame'].lower() == 'image', kw.get('coordnot', 'bare'), kw.get('sizenot', ''), len(exp)))
    res.axis('shape', shape)
    res.axis('frame', kw['frame'])
    res.axis('coordnot', kw.get('coordnot', 'bare'))
    res.axis('sizenot', kw.get('sizenot', ''))
    res.axis('sep', kw.get('sep', 'paren_comma'))


def line_specs(tier):
    out = []
    # (1) shape x frame spelling x coordinate notation x size notation (x latitude sign), default syntax
    for shape in SHAPES:
        word, npairs, nsizes, has_angle = D.SHAPES[shape]
        for frame in FRAMES:
            for fcase in ('lower', 'upper'):
                if frame == 'image':
                    cn, sn = ['bare', 'i'], (['', 'i'] if nsizes else [''])
                else:
                    cn, sn = SKY_COORDNOT, (SKY_SIZENOT if nsizes else [''])
                for c in cn:
                    for s in sn:
                        for latneg in ((False, True) if frame != 'image' else (False,)):
                            for an in (ANGLENOT if has_angle else ['']):
                                out.append({'shape': shape, 'frame': frame, 'framecase': fcase, 'coordnot': c, 'sizenot': s,
                                            'anglenot': an, 'latneg': latneg})
                                if latneg and s == SKY_SIZENOT[0] and an in ('', ANGLENOT[0]):
                                    # |latitude| < 1 degree: -0:23:28.04, -0d23m28.04s, -0.391123
                                    out.append({'shape': shape, 'frame': frame, 'framecase': fcase, 'coordnot': c, 'sizenot': s,
                                                'anglenot': an, 'latneg': True, 'latzero': True})
    # (2) syntax axes x props
    frames2 = ['image', 'fk5'] if tier == 'quick' else FRAMES
    proplist = list(range(len(PROPS))) if tier == 'quick' else [0, 3, 4]
    for shape in SHAPES:
        word, npairs, nsizes, has_angle = D.SHAPES[shape]
        for frame in frames2:
            cns = ['bare'] if tier == 'quick' else (['bare', 'i'] if frame == 'image' else ['bare', 'colon', 'hms'])
            for c in cns:
                for sep in SEPS:
                    for case in CASES:
                        for sign in SIGNS:
                            for inc in INCS:
                                for pi in proplist:
                                    if tier == 'quick' and pi and (sep != 'paren_comma' and case != 'lower'):
                                        continue
                                    out.append({'shape': shape, 'frame': frame, 'coordnot': c, 'sep': sep, 'namecase': case,
                                                'sign': sign, 'include': inc, 'props': pi})
    if tier == 'thorough':
        for shape in SHAPES:
            for frame in FRAMES:
                for pi in range(len(PROPS)):
                    for sep in SEPS:
                        out.append({'shape': shape, 'frame': frame, 'sep': sep, 'props': pi})
    # (2b) what stands between the parameter list and the properties: blanks and tabs around the '#', or nothing before it
    for shape in SHAPES:
        for frame in ('image', 'fk5'):
            for sep in ('paren_comma', 'space', 'paren_tab'):
                for hs in ('\t# ', ' #\t', '\t#\t', '# ', '  #  '):
                    for pi in (1, 3):
                        out.append({'shape': shape, 'frame': frame, 'sep': sep, 'hashsep': hs, 'props': pi})
    # (3) text spellings
    for frame in ('image', 'fk5', 'galactic'):
        for style in ('brace', 'dquote', 'squote'):
            for odd in (False, True):
                for txt in ('hello world', 'semi;colon inside', 'eq=sign and # hash', 'MiXeD Case', 'two  blanks and a\ttab'):
                    if odd and '#' in txt:
                        continue
                    out.append({'shape': 'text', 'frame': frame, 'text_style': style, 'odd_text': odd, 'text': txt})
    return out


# ------------------------------------------------------------- programs ------
PROBE = 'circle(7,8,2)'
TOKENS = {
    'image': ('frame', 'image'), 'fk5': ('frame', 'fk5'), 'GALACTIC': ('frame', 'galactic'), 'j2000': ('frame', 'fk5'),
    'physical': ('noframe', None), 'wcsa': ('noframe', None),
    'global color=red': ('global', {'color': 'red'}),
    'global color=blue width=2 dash=1': ('global', {'color': 'blue', 'width': 2}),
    # the line DS9 itself writes at the top of every file: its include=1 is a default, not an override of '-'
    'global dashlist=8 3 select=1 include=1 source=1': ('global', {}),
    'circle(10,20,3)': ('region', {'shape': 'circle', 'xy': (10.0, 20.0), 'sizes': [3.0], 'angle': None}),
    'circle(30,40,5) # color=green': ('region', {'shape': 'circle', 'xy': (30.0, 40.0), 'sizes': [5.0], 'angle': None, 'color': 'green'}),
    '-box(1,2,3,4,0)': ('region', {'shape': 'rectangle', 'xy': (1.0, 2.0), 'sizes': [3.0, 4.0], 'angle': 0.0, 'include': False}),
    '# text(5,6) text={hi}': ('region', {'shape': 'text', 'xy': (5.0, 6.0), 'sizes': [], 'angle': None, 'text': 'hi'}),
    '# composite(50,50,0) || composite=1 color=yellow\ncircle(50,50,5) ||\nbox(50,50,8,8,0)':
        ('composite', [{'shape': 'circle', 'xy': (50.0, 50.0), 'sizes': [5.0], 'angle': None, 'color': 'yellow'},
                       {'shape': 'rectangle', 'xy': (50.0, 50.0), 'sizes': [8.0, 8.0], 'angle': 0.0, 'color': 'yellow'}]),
    # a composite whose last member (the line without '||') is a shape the package skips: the composite still ends there
    '# composite(60,60,0) || composite=1 color=cyan width=5\ncircle(60,60,4) ||\nvector(60,60,5,30)':
        ('composite', [{'shape': 'circle', 'xy': (60.0, 60.0), 'sizes': [4.0], 'angle': None, 'color': 'cyan', 'width': 5}]),
    '# a comment line': ('comment', None),
    '': ('blank', None),
    # an empty label followed, on the same physical line in ';' programs, by other labels
    'circle(12,22,4) # text={}': ('region', {'shape': 'circle', 'xy': (12.0, 22.0), 'sizes': [4.0], 'angle': None}),
    'vector(1,2,3,4)': ('skip', None),
    'foobar(1,2)': ('skip', None),
    # tags: a region's own tags replace the global ones (like every other key), they are not added to them
    'global tag={g1} tag={g2}': ('global', {'tags': ('g1', 'g2')}),
    'circle(14,24,2) # tag={own}': ('region', {'shape': 'circle', 'xy': (14.0, 24.0), 'sizes': [2.0], 'angle': None, 'tags': ('own',)}),
}
TOKEN_NAMES = list(TOKENS)


def model_run(tokens):
    """Reference interpreter: returns (expected region list, final state)."""
    frame, glob = None, {}
    out = []

    def emit(r):
        if frame is None:
            return
        fr = D.FRAME_MAP[frame]
        x, y = r['xy']
        coords = [(x - 1.0, y - 1.0)] if fr == 'image' else [(x, y)]
        color = r.get('color', glob.get('color'))
        out.append({'shape': r['shape'], 'kind': 'pixel' if fr == 'image' else 'sky', 'frame': fr, 'coords': coords,
                    'sizes': list(r['sizes']), 'angle': r['angle'], 'include': r.get('include', True), 'color': color,
                    'width': r.get('width', glob.get('width')), 'text_param': r.get('text'), 'tags_expected': r.get('tags', glob.get('tags'))})
    for t in tokens:
        kind, val = TOKENS[t] if t in TOKENS else ('region', None)
        if kind == 'frame':
            frame = val
        elif kind == 'noframe':
            frame = None
        elif kind == 'global':
            glob = {**glob, **val}
        elif kind == 'region':
            emit(val)
        elif kind == 'composite':
            for r in val:
                emit(r)
    return out, (frame, tuple(sorted(glob.items())))


PROBE_REGION = {'shape': 'circle', 'xy': (7.0, 8.0), 'sizes': [2.0], 'angle': None}
TOKENS[PROBE] = ('region', PROBE_REGION)


def render_program(tokens, sep):
    if sep == '\n':
        return '\n'.join(tokens) + '\n'
    parts = []
    for i, t in enumerate(tokens):
        parts.append(t)
        if i < len(tokens) - 1:
            # a comment line runs to the end of its line in DS9: always end it with a newline
            parts.append('\n' if t.startswith('# a comment') or t == '' else '; ')
    return ''.join(parts) + '\n'


def check_program(res, tokens, sep):
    toks = list(tokens) + [PROBE]
    text = render_program(toks, sep)
    case = {'op': 'program', 'tokens': list(tokens), 'sep': sep}
    res.evaluations += 1
    res.transitions += 1
    exp, state = model_run(toks)
    try:
        P, w = _parse(text)
    except Exception as exc:
        res.violation(ID, 'program_raises', case, f'{text!r}: {type(exc).__name__}: {exc}', None, text)
        return state
    if len(P) != len(exp):
        res.violation(ID, 'program_region_count', case, f'{text!r}: expected {len(exp)} regions ({[e["shape"] for e in exp]}), got {len(P)} '
                      f'({[type(r).__name__ for r in P]})', len(exp), {'n': len(P), 'text': text})
        return state
    for k, (e, r) in enumerate(zip(exp, P)):
        d = RD.describe(r)
        diffs = RD.compare(e, d, TOL, TOL, TOL)
        if diffs:
            res.violation(ID, 'program_geometry', case, f'{text!r} region {k}: ' + '; '.join(diffs[:3]), e, {'desc': d, 'text': text})
            continue
        if d['include'] != e['include']:
            res.violation(ID, 'program_include', case, f'{text!r} region {k}: include expected {e["include"]}', e['include'], {'got': d['include'], 'text': text})
        if e['text_param'] is not None and d['text_param'] != e['text_param']:
            res.violation(ID, 'program_text', case, f'{text!r} region {k}: text {d["text_param"]!r}', e['text_param'], {'got': d['text_param'], 'text': text})
        got = _color_of(r)
        if got != e['color']:
            res.violation(ID, 'program_state_leak', case, f'{text!r} region {k} ({e["shape"]}): colour expected {e["color"]!r} '
                          f'(global/composite/local precedence), got {got!r}', e['color'], {'got': got, 'text': text})
        gt = r.meta.get('tag')
        if tuple(gt or ()) != tuple(e.get('tags_expected') or ()):
            res.violation(ID, 'program_state_leak', case, f'{text!r} region {k}: tags expected {list(e.get("tags_expected") or ())!r} (a region\'s own tags replace '
                                                          f'the global ones), got {gt!r}', list(e.get('tags_expected') or ()), {'got': gt, 'text': text})
        if e['shape'] != 'text':
            gw = r.visual.get('linewidth')
            if gw != e['width']:
                res.violation(ID, 'program_state_leak', case, f'{text!r} region {k}: width expected {e["width"]!r}, got {gw!r}', e['width'], {'got': gw, 'text': text})
    unsupported = any(TOKENS[t][0] in ('skip', 'noframe') for t in tokens)
    if unsupported and not w:
        res.violation(ID, 'skip_without_warning', case, f'{text!r}: unsupported shape/frame skipped without a warning')
    res.outcome(('program', len(tokens), state[0], len(exp)))
    res.nontriv(('program', tuple(tokens), sep))
    return state


def closure(res, sep):
    """BFS over reference-interpreter states; each (state, token) transition is executed on the real parser."""
    start = (None, ())
    prefix = {start: ()}
    frontier = collections.deque([start])
    trans = 0
    while frontier:
        st = frontier.popleft()
        for t in TOKEN_NAMES:
            toks = prefix[st] + (t,)
            nst = check_program(res, toks, sep)
            trans += 1
            if nst not in prefix:
                prefix[nst] = toks
                frontier.append(nst)
    res.states += len(prefix)
    res.extra.setdefault('closure', {})[repr(sep)] = {'model_states': len(prefix), 'transitions': trans,
                                                      'max_prefix': max(len(p) for p in prefix.values()), 'closed': True}


def check_override(res, frame):
    """global -> local precedence and persistence of the active frame across many lines."""
    text = (f'global color=blue width=2\n{frame}\ncircle(10,20,3) # color=red\ncircle(11,21,3)\n'
            'global width=5\ncircle(12,22,3) # width=1\ncircle(13,23,3)\n')
    case = {'op': 'override', 'frame': frame}
    res.evaluations += 1
    res.transitions += 1
    try:
        P, w = _parse(text)
    except Exception as exc:
        res.violation(ID, 'program_raises', case, f'{text!r}: {exc}')
        return
    want = [('red', 2), ('blue', 2), ('blue', 1), ('blue', 5)]
    got = [(_color_of(r), r.visual.get('linewidth')) for r in P]
    if got != want:
        res.violation(ID, 'program_state_leak', case, f'{text!r}: (colour, width) per region expected {want}, got {got}', want, got)
    fr = D.FRAME_MAP[frame]
    if any(RD.describe(r)['frame'] != fr for r in P):
        res.violation(ID, 'program_geometry', case, f'{text!r}: active frame did not persist')
    res.nontriv(('override', frame))
    res.outcome(('override', got == want))


# ------------------------------------------------------------------ driver --
def shards(tier, seed):
    out = []
    for ch in chunks(line_specs(tier), 64 if tier == 'quick' else 192):
        out.append({'kind': 'lines', 'cases': ch['cases']})
    progs = []
    for L in range(0, 4):
        for toks in itertools.product(TOKEN_NAMES, repeat=L):
            progs.append(list(toks))
    for ch in chunks(progs, 48):
        out.append({'kind': 'programs', 'cases': ch['cases']})
    out.append({'kind': 'closure', 'sep': '\n'})
    out.append({'kind': 'closure', 'sep': ';'})
    out.append({'kind': 'override'})
    return out


def run_shard(shard, tier, seed):
    res = Result()
    k = shard['kind']
    if k == 'lines':
        for spec in shard['cases']:
            res.states += 1
            check_line(res, spec)
        s0 = shard['cases'][0]
        kw = dict(s0)
        pi = kw.pop('props', 0)
        res.sample({'op': 'line', 'spec': s0, 'text': D.Line(props=PROPS[pi][0], **kw).render()})
    elif k == 'programs':
        for toks in shard['cases']:
            for sep in ('\n', ';'):
                res.states += 1
                check_program(res, toks, sep)
        res.sample({'op': 'program', 'tokens': shard['cases'][-1], 'text': render_program(shard['cases'][-1] + [PROBE], ';')})
    elif k == 'closure':
        closure(res, shard['sep'])
        res.sample({'op': 'closure', 'sep': shard['sep'], 'stats': res.extra['closure']})
    elif k == 'override':
        for f in FRAMES:
            res.states += 1
            check_override(res, f)
    return res


def replay(case):
    res = Result()
    if case['op'] == 'line':
        check_line(res, case['spec'])
    elif case['op'] == 'program':
        check_program(res, case['tokens'], case['sep'])
    elif case['op'] == 'override':
        check_override(res, case['frame'])
    return res
