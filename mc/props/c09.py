"""C09 -- DS9 serialise->parse round-trips every region and is a fixed point thereafter.

E2 lattice over shape x frame x position x size(unit) x angle x precision and
over the metadata vocabulary; all short lists over a catalogue (hoisting into
the global line, mixed frames), inexpressible members at every position; E3:
serialisation compared across PYTHONHASHSEED 0..3 in fresh interpreters.
Oracle: round-trip relations on a format-neutral description of the regions
(mc.oracles.regdesc) with tolerances derived from the requested precision.
"""
import os
import sys
import json
import math
import operator
import subprocess
import warnings
import itertools

import numpy as np

from mc.result import Result, jhash
from mc.lattice import chunks
from mc.oracles import regdesc as RD
from mc import fingerprint as FP
from mc import env

ID = 'C09'
LEVEL = 'model_checking'
ENGINE = 'E2-lattice'
FILES = ['regions/io/ds9/write.py', 'regions/io/ds9/read.py', 'regions/io/ds9/meta.py', 'regions/io/ds9/core.py',
         'regions/core/registry.py']
RULE = ('full product of the 10 DS9 shapes x 6 frames x 4 positions x 4 sizes (each in its own unit) x 4 angles x '
        'precisions; metadata vocabulary (include x text x tags x visual sets) x shapes x 2 frames; text-origin regions '
        '(DS9 lines carrying every supported property) for the fixed-point clause; all lists of length <= 3 over a 12-region '
        'catalogue + cyclic windows of length 4..8; inexpressible members (compound pixel/sky, supergalactic region) at every '
        'position of every list of length <= 2; determinism across 4 hash seeds. A case is non-trivial when rounding at the '
        'requested precision actually changes a value, or the list mixes frames/shared metadata, or a member is skipped')
BOUNDS = {'quick': 'precisions {1,3,8,12}, 2 positions, 2 sizes, 2 angles; lists <= 2 + windows; 4 hash seeds',
          'thorough': 'precisions 1..12, 4 positions, 4 sizes, 4 angles; lists <= 3 + windows; 4 hash seeds'}
ASSUMPTIONS = ['astropy SkyCoord/Quantity construction, unit conversion and to_string are trusted',
               'sizes that would be written as zero (or annuli whose radii coincide) at the requested precision are outside the lattice',
               "the regions-internal meta key 'label' has no DS9 spelling and text containing braces cannot be quoted in DS9: both are outside 'metadata expressible in DS9'",
               'ellipse axes are written as semi-axes, so the full axis is demanded within one (not half a) unit of the precision']

SHAPES = ['circle', 'ellipse', 'rectangle', 'polygon', 'circleannulus', 'ellipseannulus', 'rectangleannulus', 'line', 'point', 'text']
FRAMES = ['image', 'icrs', 'fk5', 'fk4', 'galactic', 'ecliptic']
ASTROPY_FRAME = {'icrs': 'icrs', 'fk5': 'fk5', 'fk4': 'fk4', 'galactic': 'galactic', 'ecliptic': 'barycentricmeanecliptic'}
# values with long decimal expansions so that every precision 1..12 really rounds something
SKY_POS = [(10.5, 0.0), (187.705931234567, 12.391123456789), (0.001, -85.5), (359.999, 45.000000000049)]
PIX_POS = [(1.5, -3.25), (4096.123456789012, 0.000123456789), (0.0, 1.5), (-3.254999999999, 4096.125)]
SKY_SIZES = [(3.123456789012, 'arcmin'), (0.5, 'arcsec'), (2.5, 'deg'), (0.01, 'rad'), (0.25, 'arcsec')]
PIX_SIZES = [7.123456789012, 0.125, 1.0, 1000.0, 0.000244140625]
ANGLES = [30.0, 123.456789012345, 0.0, -60.0]
DEG = {'arcsec': 1 / 3600.0, 'arcmin': 1 / 60.0, 'deg': 1.0, 'rad': 180.0 / math.pi}


def make_region(spec):
    """Real region from an abstract spec (shape, frame, pos index, size index, angle, meta, visual)."""
    import astropy.units as u
    from astropy.coordinates import SkyCoord
    import regions as R
    from regions import PixCoord, RegionMeta, RegionVisual
    shape, frame = spec['shape'], spec['frame']
    meta = RegionMeta(spec.get('meta') or {})
    vis = RegionVisual(_devisual(spec.get('visual') or {}))
    kw = {'meta': meta, 'visual': vis}
    ang = spec.get('angle', 0.0) * u.deg
    if frame == 'image':
        x, y = PIX_POS[spec['pos']]
        s = PIX_SIZES[spec['size']]
        c = PixCoord(x, y)
        mk = lambda dx, dy: PixCoord(x + dx, y + dy)    # noqa
        verts = lambda pts: PixCoord([x + a * s for a, b in pts], [y + b * s for a, b in pts])    # noqa
        q = lambda v: v    # noqa
        K = lambda n: getattr(R, n + 'PixelRegion')    # noqa
    else:
        lon, lat = SKY_POS[spec['pos']]
        sv, su = SKY_SIZES[spec['size']]
        s = sv * DEG[su]
        fr = ASTROPY_FRAME[frame]
        c = SkyCoord(lon * u.deg, lat * u.deg, frame=fr)
        mk = lambda dx, dy: SkyCoord((lon + dx) * u.deg, (lat + dy) * u.deg, frame=fr)    # noqa
        verts = lambda pts: SkyCoord([(lon + a * s) for a, b in pts] * u.deg, [(lat + b * s) for a, b in pts] * u.deg, frame=fr)    # noqa
        unit = getattr(u, su)
        q = lambda v: (v / DEG[su]) * unit    # noqa   (v in degrees -> quantity in the spec's unit)
        if spec.get('qtype') == 'angle':
            from astropy.coordinates import Angle
            q = lambda v: Angle((v / DEG[su]) * unit)    # noqa   (the same size as an Angle, the Quantity subclass for angles)
        K = lambda n: getattr(R, n + 'SkyRegion')    # noqa
    if shape == 'circle':
        return K('Circle')(c, q(s), **kw)
    if shape == 'ellipse':
        return K('Ellipse')(c, q(2 * s), q(s), angle=ang, **kw)
    if shape == 'rectangle':
        return K('Rectangle')(c, q(1.5 * s), q(s), angle=ang, **kw)
    if shape == 'polygon':
        pts = [(0, 0), (1, 0.125), (0.75, 1), (-0.25, 0.5)]
        if spec.get('closed'):
            pts = pts + [pts[0]]        # a closed ring: the last vertex repeats the first, bit for bit
        return K('Polygon')(verts(pts), **kw)
    if shape == 'circleannulus':
        return K('CircleAnnulus')(c, q(s), q(2 * s), **kw)
    if shape == 'ellipseannulus':
        return K('EllipseAnnulus')(c, q(s), q(2 * s), q(0.625 * s), q(1.5 * s), angle=ang, **kw)
    if shape == 'rectangleannulus':
        return K('RectangleAnnulus')(c, q(s), q(2.5 * s), q(0.75 * s), q(1.25 * s), angle=ang, **kw)
    if shape == 'line':
        if frame == 'image':
            return K('Line')(c, mk(s, 0.5 * s), **kw)
        return K('Line')(c, mk(s, 0.5 * s), **kw)
    if shape == 'point':
        return K('Point')(c, **kw)
    if shape == 'text':
        return K('Text')(c, spec.get('text', 'a label'), **kw)
    raise ValueError(shape)


def _devisual(v):
    out = {}
    for k, val in v.items():
        if k == 'linestyle' and isinstance(val, list):
            val = (val[0], tuple(val[1]))
        if k == 'marker' and isinstance(val, str) and val.startswith('ds9:'):
            from regions.io.ds9.core import ds9_valid_symbols
            val = ds9_valid_symbols[val[4:]]
        out[k] = val
    return out


def feasible(spec, precision):
    """Inside the lattice? (sky geometry stays on the sphere; nothing is written as zero or collapses)."""
    shape, frame = spec['shape'], spec['frame']
    if frame == 'image':
        s = PIX_SIZES[spec['size']]
    else:
        sv, su = SKY_SIZES[spec['size']]
        s = sv * DEG[su]
        lon, lat = SKY_POS[spec['pos']]
        if abs(lat) + 1.1 * s > 89.5 and shape in ('polygon', 'line'):
            return False
        if shape in ('polygon', 'line') and not (0 <= lon - 0.3 * s and lon + 1.1 * s < 360):
            return False
    written = {'circle': [s], 'ellipse': [s, 0.5 * s], 'rectangle': [1.5 * s, s], 'circleannulus': [s, 2 * s],
               'ellipseannulus': [0.5 * s, 0.3125 * s, s, 0.75 * s], 'rectangleannulus': [s, 0.75 * s, 2.5 * s, 1.25 * s]}.get(shape, [])
    r = [float(f'{w:.{precision}f}') for w in written]
    if any(v <= 0 for v in r):
        return False
    if shape == 'circleannulus' and not r[0] < r[1]:
        return False
    if shape in ('ellipseannulus', 'rectangleannulus') and not (r[0] < r[2] and r[1] < r[3]):
        return False
    if shape in ('polygon', 'line') and s < 4 * 10.0 ** -precision:
        return False       # distinct vertices would coincide
    return True


def _ser(regs, **kw):
    from regions import Regions
    with warnings.catch_warnings(record=True) as w:
        warnings.simplefilter('always')
        out = Regions(regs).serialize(format='ds9', **kw)
    return out, [str(x.message) for x in w]


def _parse(text):
    from regions import Regions
    with warnings.catch_warnings(record=True) as w:
        warnings.simplefilter('always')
        out = Regions.parse(text, format='ds9')
    return out, [str(x.message) for x in w]


def _tols(desc, precision):
    half = 0.5 * 10.0 ** -precision
    shape = desc['shape']
    if shape in ('ellipse', 'ellipseannulus'):
        ts = [2 * half] * len(desc['sizes'])
    else:
        ts = [half] * len(desc['sizes'])
    return half, ts, half


def _meta_expect(orig):
    """(text, tags, include) the round trip must preserve."""
    d = RD.describe(orig)
    text = d['text_param'] if d['shape'] == 'text' else d['meta_text']
    return text, d['tags'], d['include']


def check_single(res, spec, precision, what='geom'):
    case = {'op': 'single', 'spec': spec, 'precision': precision}
    res.evaluations += 1
    try:
        orig = make_region(spec)
    except Exception as exc:
        raise RuntimeError(f'harness: cannot build {spec}: {exc}')
    d0 = RD.describe(orig)
    fp0 = FP.fp(orig)
    try:
        res.transitions += 1
        text, w1 = _ser([orig], precision=precision)
        res.transitions += 1
        text_b, _ = _ser([orig], precision=precision)
    except Exception as exc:
        res.violation(ID, 'serialize_raises', case, f'serialize raised {type(exc).__name__}: {exc}')
        return
    if text != text_b:
        res.violation(ID, 'serialize_not_deterministic', case, 'two serialisations of the same region differ', text, text_b)
    if FP.fp(orig) != fp0:
        res.violation(ID, 'serialize_mutates_input', case, 'serialising changed the region')
    try:
        res.transitions += 1
        P, w2 = _parse(text)
    except Exception as exc:
        res.violation(ID, 'parse_back_raises', case, f'parsing the serialised text raised {type(exc).__name__}: {exc}', None, text)
        return
    if len(P) != 1:
        res.violation(ID, 'roundtrip_count', case, f'round trip gave {len(P)} regions instead of 1', 1, text)
        return
    d1 = RD.describe(P[0])
    tc, ts, ta = _tols(d0, precision)
    diffs = RD.compare(d0, d1, tc, ts, ta)
    if diffs:
        res.violation(ID, 'roundtrip_geometry', case, f'{spec["shape"]}/{spec["frame"]} precision {precision}: ' + '; '.join(diffs[:4]), d0, {'desc': d1, 'text': text})
    t0, tags0, inc0 = _meta_expect(orig)
    t1, tags1, inc1 = _meta_expect(P[0])
    if (t0 or '') != (t1 or ''):
        res.violation(ID, 'roundtrip_text', case, f'text {t0!r} came back as {t1!r}', t0, {'got': t1, 'text': text})
    if (tags0 or []) != (tags1 or []):
        res.violation(ID, 'roundtrip_tags', case, f'tags {tags0!r} came back as {tags1!r}', tags0, {'got': tags1, 'text': text})
    if inc0 != inc1:
        res.violation(ID, 'roundtrip_include', case, f'include sense {inc0} came back as {inc1}', inc0, {'got': inc1, 'text': text})
    extra = sorted(set(P[0].meta) - set(orig.meta) - {'include'})
    if extra:
        res.violation(ID, 'roundtrip_meta_gained', case, f'the region read back has metadata the original does not have: '
                                                          f'{ {k: P[0].meta[k] for k in extra} } (original meta {dict(orig.meta)})', dict(orig.meta), {'got': dict(P[0].meta), 'text': text})
    _visual_expect(res, case, orig, P[0], text)
    # fixed point: serialise the parsed region (same precision, and the default) and parse again
    for prec2 in sorted({precision, 8} if precision <= 8 else {precision}):
        try:
            res.transitions += 2
            text2, _ = _ser([P[0]], precision=prec2)
            P2, _ = _parse(text2)
        except Exception as exc:
            res.violation(ID, 'fixed_point_raises', case, f'parse->serialise->parse raised {type(exc).__name__}: {exc}')
            continue
        if len(P2) != 1 or not (P2[0] == P[0]):
            ddiff = RD.compare(d1, RD.describe(P2[0]), 0, 0, 0) if len(P2) == 1 else ['count']
            res.violation(ID, 'not_fixed_point', case,
                          f'parse(serialize(P, precision={prec2})) != P for the parsed {spec["shape"]}/{spec["frame"]}: {ddiff[:3]} '
                          f'meta {dict(P[0].meta)} -> {dict(P2[0].meta) if len(P2) == 1 else None}; visual {dict(P[0].visual)} -> {dict(P2[0].visual) if len(P2) == 1 else None}',
                          text, text2)
    # what a parse returns belongs to the caller: tags appended to a parsed region's list must not show up when the same text is
    # parsed again
    if tags0:
        try:
            res.transitions += 1
            Pa, _ = _parse(text)
            if isinstance(Pa[0].meta.get('tag'), list):
                Pa[0].meta['tag'].append('added by the caller')
            Pb, _ = _parse(text)
            tb = Pb[0].meta.get('tag') if len(Pb) == 1 else None
        except Exception as exc:
            res.violation(ID, 'fixed_point_raises', case, f'parsing the same text again raised {type(exc).__name__}: {exc}')
            tb = tags1
        if (tb or []) != (tags1 or []):
            res.violation(ID, 'parse_result_shared', case, f'after the caller appended to the tag list of a parsed region, parsing the same text '
                                                           f'again gives tags {tb!r} instead of {tags1!r}', tags1, tb)
    # a parsed region is a region like any other: what is written after an edit is its CURRENT state
    if spec['shape'] == 'text':
        try:
            res.transitions += 1
            Pe, _ = _parse(text)
            Pe[0].text = 'renamed after parsing'
            text4, _ = _ser([Pe[0]], precision=precision)
            P4, _ = _parse(text4)
            back = P4[0].text if len(P4) == 1 else None
        except Exception as exc:
            res.violation(ID, 'fixed_point_raises', case, f'serialising a parsed text region after editing its text raised {type(exc).__name__}: {exc}')
            back = 'renamed after parsing'
        if back != 'renamed after parsing':
            res.violation(ID, 'edit_after_parse_lost', case, f"a parsed text region whose text was changed to 'renamed after parsing' is written and read "
                                                            f'back with text {back!r}', 'renamed after parsing', back)
    # non-trivial: the precision really rounded something
    changed = any(abs(a - b) > 0 for a, b in zip(d0['sizes'], d1['sizes'])) or any(
        abs(a - c) > 0 or abs(b - d) > 0 for (a, b), (c, d) in zip(d0['coords'], d1['coords']))
    res.outcome((what, spec['shape'], spec['frame'] == 'image', changed))
    if changed or what != 'geom':
        res.nontriv((what, spec, precision))
    res.axis('shape', spec['shape'])
    res.axis('frame', spec['frame'])
    res.axis('precision', precision)


def _visual_expect(res, case, orig, back, text):
    """Visual attributes with an unambiguous DS9 spelling must survive (values compared as DS9 would write them)."""
    v0, v1 = dict(orig.visual), dict(back.visual)
    shape = RD.describe(orig)['shape']
    patchlike = shape not in ('point', 'line', 'text')
    col = v0.get('color', v0.get('edgecolor', v0.get('facecolor')))
    if col is not None:
        got = v1.get('edgecolor') if patchlike else v1.get('color')
        if got != col:
            res.violation(ID, 'roundtrip_visual', case, f'colour {col!r} came back as {got!r} ({v1})', col, {'got': got, 'text': text})
    lw = v0.get('linewidth')
    if lw is not None and shape not in ('text',):
        got = v1.get('markeredgewidth') if shape == 'point' else v1.get('linewidth')
        if got != lw:
            res.violation(ID, 'roundtrip_visual', case, f'linewidth {lw!r} came back as {got!r} ({v1})', lw, {'got': got, 'text': text})
    if v0.get('fill') and shape in ('circle', 'ellipse', 'rectangle', 'polygon'):
        if v1.get('fill') is not True:
            res.violation(ID, 'roundtrip_visual', case, f'fill=True came back as {v1.get("fill")!r}', True, {'got': v1.get('fill'), 'text': text})
    ls = v0.get('linestyle')
    if ls is not None and shape not in ('point', 'text'):
        if v1.get('linestyle') != ls:
            res.violation(ID, 'roundtrip_visual', case, f'linestyle {ls!r} came back as {v1.get("linestyle")!r}', repr(ls), {'got': repr(v1.get('linestyle')), 'text': text})
    if 'fontname' in v0:
        want = (v0['fontname'], int(v0.get('fontsize', 10)), v0.get('fontweight', 'normal'), v0.get('fontstyle', 'normal').replace('roman', 'normal'))
        got = (v1.get('fontname'), v1.get('fontsize'), v1.get('fontweight'), v1.get('fontstyle'))
        if got != want:
            res.violation(ID, 'roundtrip_visual', case, f'font {want!r} came back as {got!r}', list(want), {'got': list(got), 'text': text})
    if shape == 'point' and 'marker' in v0:
        if v1.get('marker') is not v0['marker'] and v1.get('marker') != v0['marker']:
            res.violation(ID, 'roundtrip_visual', case, f'point symbol came back as {v1.get("marker")!r}', repr(v0['marker']), {'got': repr(v1.get('marker')), 'text': text})
        if 'markersize' in v0 and str(v1.get('markersize')) != str(v0['markersize']):
            res.violation(ID, 'roundtrip_visual', case, f'point size {v0["markersize"]!r} came back as {v1.get("markersize")!r}', v0['markersize'], {'got': v1.get('markersize'), 'text': text})
    if shape == 'text' and 'rotation' in v0:
        if v1.get('rotation') != v0['rotation']:
            res.violation(ID, 'roundtrip_visual', case, f'text angle {v0["rotation"]!r} came back as {v1.get("rotation")!r}', v0['rotation'], {'got': v1.get('rotation'), 'text': text})


# ---------------------------------------------------------- meta vocabulary --
TEXTS = ['plain', '', 'sky background level', 'A || B', 'NGC 1234\u2028core \x85 n', 'page1\x0cpage2', 'with space', 'semi;colon', 'hash#tag', 'eq=sign', "it's", 'say "hi"', 'MiXed Case 42']
TAGSETS = [None, ['g1'], ['group 1', 'Group=2#x'], ['grp||1']]
INCLUDES = ['absent', True, False, 1, 0]
VISUALS = [
    {}, {'color': 'red'}, {'color': '#ff8800', 'linewidth': 3}, {'edgecolor': 'blue', 'facecolor': 'blue', 'fill': True},
    {'linestyle': 'dashed'}, {'linestyle': [0, [8, 3]], 'color': 'cyan'},
    {'fontname': 'times', 'fontsize': 14, 'fontweight': 'bold', 'fontstyle': 'italic', 'color': 'white'},
    {'fontname': 'helvetica'}, {'marker': 'ds9:cross', 'markersize': 9}, {'marker': 'ds9:boxcircle'}, {'marker': 'ds9:diamond', 'markersize': 15, 'color': 'yellow'},
    {'rotation': 37.5}, {'linewidth': 2},
]


def meta_cases(tier):
    out = []
    for shape in SHAPES:
        for frame in ('image', 'fk5'):
            base = {'shape': shape, 'frame': frame, 'pos': 0, 'size': 0, 'angle': 30.0}
            for inc in INCLUDES:
                for ti, t in enumerate(TEXTS):
                    if tier == 'quick' and inc not in ('absent', False) and ti > 1:
                        continue
                    for tags in TAGSETS:
                        s = dict(base)
                        m = {}
                        if inc != 'absent':
                            m['include'] = inc
                        if shape == 'text':
                            s['text'] = t
                        else:
                            m['text'] = t
                        if tags:
                            m['tag'] = tags
                        s['meta'] = m
                        out.append(s)
            for vi, v in enumerate(VISUALS):
                for inc in ('absent', False):
                    for empty_text in (False, True):     # an empty label followed by other items on the line
                        s = dict(base)
                        s['meta'] = {} if inc == 'absent' else {'include': False}
                        if empty_text and shape == 'text':
                            s['text'] = ''
                        elif empty_text:
                            s['meta']['text'] = ''
                        s['visual'] = v
                        out.append(s)
    return out


# ------------------------------------------------------ text-origin regions --
PROP_SETS = ['', 'color=red', 'color=#00ff88 width=3', 'dash=1', 'dash=1 dashlist=8 3', 'fill=1', 'font="times 14 bold italic"',
             'font="helvetica 10 normal roman"', 'point=cross 9', 'point=boxcircle', 'textangle=30', 'textangle=30 textrotate=0',
             'tag={g1} tag={g 2}', 'text={label; with # and =}', 'include=0', 'select=0 highlite=0 fixed=1 edit=0 move=0 delete=0 source=0',
             'background', 'color=blue width=2 dash=1 dashlist=4 2 fill=1 text={all of it} tag={x}']
LINE_GEOM = {
    'image': {'circle': 'circle(10.5,20.25,3)', 'ellipse': 'ellipse(30,40,5,3,20)', 'rectangle': 'box(50,60,7,4,45)',
              'polygon': 'polygon(1,2,8,3,5,9)', 'circleannulus': 'annulus(20,20,2,5)', 'ellipseannulus': 'ellipse(30,40,5,3,10,6,20)',
              'rectangleannulus': 'box(50,60,7,4,14,8,45)', 'line': 'line(1,1,9,9)', 'point': 'point(4,5)', 'text': 'text(12,13)'},
    # sky sizes are given in degrees with few decimals so that they are exactly representable at precision 8
    # (the fixed-point clause is about texts this package wrote, i.e. numbers with at most `precision` decimals)
    'fk5': {'circle': 'circle(150.0,20.0,0.0125)', 'ellipse': 'ellipse(150.0,20.1,0.02,0.01,15)', 'rectangle': 'box(150.1,20.2,0.01,0.02,10)',
            'polygon': 'polygon(150.0,20.0,150.1,20.0,150.05,20.1)', 'circleannulus': 'annulus(150.0,20.0,0.005,0.0125)',
            'ellipseannulus': 'ellipse(150.0,20.1,0.01,0.005,0.02,0.01,15)', 'rectangleannulus': 'box(150.1,20.2,0.01,0.02,0.02,0.04,10)',
            'line': 'line(150.0,20.0,150.1,20.1)', 'point': 'point(150.0,20.0)', 'text': 'text(150.0,20.0)'},
}


def check_text_origin(res, frame, shape, pi):
    props = PROP_SETS[pi]
    line = LINE_GEOM[frame][shape]
    if shape == 'text' and 'text=' not in props:
        props = (props + ' text={words here}').strip()
    text = f'# Region file format: DS9\n{frame}\n{line}' + (f' # {props}' if props else '') + '\n'
    case = {'op': 'text_origin', 'frame': frame, 'shape': shape, 'props': pi}
    res.evaluations += 1
    res.transitions += 1
    try:
        P, _ = _parse(text)
    except Exception as exc:
        res.violation(ID, 'parse_raises', case, f'parsing {text!r} raised {type(exc).__name__}: {exc}')
        return
    if len(P) != 1:
        res.violation(ID, 'roundtrip_count', case, f'{text!r} parsed into {len(P)} regions')
        return
    for prec in (8, 3):
        try:
            res.transitions += 2
            t2, _ = _ser([P[0]], precision=prec)
            P2, _ = _parse(t2)
            t3, _ = _ser(list(P2), precision=prec)
        except Exception as exc:
            res.violation(ID, 'fixed_point_raises', case, f'serialise/parse of the parsed region raised {type(exc).__name__}: {exc}')
            return
        if prec == 8 and (len(P2) != 1 or not (P2[0] == P[0])):
            g = P2[0] if len(P2) == 1 else None
            res.violation(ID, 'not_fixed_point', case,
                          f'parse(serialize(parse(text))) != parse(text) for {line} # {props}: meta {dict(P[0].meta)} -> {dict(g.meta) if g else None}; '
                          f'visual {dict(P[0].visual)} -> {dict(g.visual) if g else None}', text, t2)
        if t3 != t2:
            res.violation(ID, 'not_fixed_point', case, f'serialize(parse(serialize(P))) != serialize(P) at precision {prec}', t2, t3)
    # a parsed region is a region like any other: visual attributes edited after parsing are what gets written
    edits = {'markersize': 25, 'linewidth': 7, 'fontsize': 31, 'color': 'magenta'}
    try:
        res.transitions += 2
        Pe, _ = _parse(text)
        applied = {}
        for k, v in edits.items():
            if k in Pe[0].visual:
                Pe[0].visual[k] = v
                applied[k] = v
        if applied:
            t4, _ = _ser([Pe[0]], precision=8)
            P4, _ = _parse(t4)
            back = {k: P4[0].visual.get(k) for k in applied} if len(P4) == 1 else None
            lost = None if back is None else {k: (applied[k], back[k]) for k in applied
                                              if str(back[k]) != str(applied[k]) and not (k == 'color' and back[k] is not None and str(back[k]).lower() == 'magenta')}
            if back is None or lost:
                res.violation(ID, 'edit_after_parse_lost', case, f'{line} # {props}: visual attributes changed after parsing to {applied} are written and '
                                                                f'read back as {back} (stale: {lost})', applied, back)
    except Exception as exc:          # noqa: BLE001
        res.violation(ID, 'fixed_point_raises', case, f'editing the visual attributes of a parsed region and serialising it raised {type(exc).__name__}: {exc}')
    res.outcome(('text_origin', shape, pi))
    res.nontriv(('text_origin', frame, shape, pi))


# ------------------------------------------------------------------- lists --
def catalogue():
    """12 regions mixing frames and shared/unshared metadata (specs)."""
    common = {'color': 'red', 'linewidth': 2}
    c = [
        {'shape': 'circle', 'frame': 'image', 'pos': 0, 'size': 0, 'visual': common, 'meta': {'text': 'shared'}},
        {'shape': 'ellipse', 'frame': 'image', 'pos': 1, 'size': 2, 'angle': 30.0, 'visual': common, 'meta': {'text': 'shared'}},
        {'shape': 'rectangle', 'frame': 'image', 'pos': 2, 'size': 0, 'angle': -60.0, 'visual': {'color': 'blue', 'linewidth': 2}, 'meta': {'include': False}},
        {'shape': 'polygon', 'frame': 'image', 'pos': 0, 'size': 0, 'visual': common, 'meta': {'tag': ['a', 'b'], 'text': 'shared'}},
        {'shape': 'circle', 'frame': 'fk5', 'pos': 0, 'size': 0, 'visual': common, 'meta': {'text': 'shared'}},
        {'shape': 'ellipseannulus', 'frame': 'fk5', 'pos': 1, 'size': 0, 'angle': 123.456, 'visual': common, 'meta': {}},
        {'shape': 'text', 'frame': 'fk5', 'pos': 1, 'size': 0, 'text': 'some; text', 'visual': {'color': 'red'}, 'meta': {}},
        {'shape': 'circle', 'frame': 'galactic', 'pos': 1, 'size': 0, 'visual': common, 'meta': {'text': 'shared', 'include': False}},
        {'shape': 'point', 'frame': 'icrs', 'pos': 0, 'size': 0, 'visual': {'marker': 'ds9:cross', 'markersize': 9, 'color': 'red'}, 'meta': {}},
        {'shape': 'line', 'frame': 'ecliptic', 'pos': 0, 'size': 0, 'visual': common, 'meta': {'text': 'shared'}},
        {'shape': 'circleannulus', 'frame': 'image', 'pos': 1, 'size': 0, 'visual': {}, 'meta': {}},
        {'shape': 'rectangleannulus', 'frame': 'fk4', 'pos': 1, 'size': 0, 'angle': 30.0, 'visual': common, 'meta': {'tag': ['z']}},
    ]
    return c


def _inexpressible(kind):
    import astropy.units as u
    from astropy.coordinates import SkyCoord
    import regions as R
    if kind == 'compound_pix':
        return R.CompoundPixelRegion(make_region(catalogue()[0]), make_region(catalogue()[2]), operator.or_)
    if kind == 'compound_sky':
        return R.CompoundSkyRegion(make_region(catalogue()[4]), make_region(catalogue()[5]), operator.and_)
    if kind in ('supergalactic', 'geocentrictrueecliptic', 'heliocentricmeanecliptic'):      # frames DS9 has no name for
        return R.CircleSkyRegion(SkyCoord(10 * u.deg, 20 * u.deg, frame=kind), 3 * u.arcmin)
    raise ValueError(kind)


def check_list(res, idxs, insert=None):
    """idxs: indices into the catalogue; insert: (position, kind) of an inexpressible member."""
    cat = catalogue()
    case = {'op': 'list', 'idxs': list(idxs), 'insert': insert}
    res.evaluations += 1
    regs = [make_region(cat[i]) for i in idxs]
    plain = list(regs)
    if insert is not None:
        regs.insert(insert[0], _inexpressible(insert[1]))
    fps = [FP.fp(r) for r in regs]
    try:
        res.transitions += 1
        text, w = _ser(regs)
        text_b, _ = _ser(regs)
    except Exception as exc:
        res.violation(ID, 'serialize_raises', case, f'serialising the list raised {type(exc).__name__}: {exc}')
        return
    if text != text_b:
        res.violation(ID, 'serialize_not_deterministic', case, 'two serialisations of the same list differ', text, text_b)
    if [FP.fp(r) for r in regs] != fps:
        res.violation(ID, 'serialize_mutates_input', case, 'serialising changed a region of the list')
    if insert is not None:
        res.transitions += 1
        text_plain, _ = _ser(plain)
        if not any('skipping' in m.lower() or 'cannot serialize' in m.lower() for m in w):
            res.violation(ID, 'skip_without_warning', case, f'inexpressible member {insert[1]} was not announced by a warning: {w}')
        if text != text_plain:
            res.violation(ID, 'skip_alters_output', case, f'inserting an inexpressible {insert[1]} at {insert[0]} changed the output of the other regions', text_plain, text)
        res.nontriv(('list_insert', tuple(idxs), tuple(insert)))
        res.outcome(('list_insert', insert[1], text == text_plain))
        return
    try:
        res.transitions += 1
        P, _ = _parse(text)
    except Exception as exc:
        res.violation(ID, 'parse_back_raises', case, f'parsing the serialised list raised {type(exc).__name__}: {exc}', None, text)
        return
    if len(P) != len(regs):
        res.violation(ID, 'roundtrip_count', case, f'{len(regs)} regions serialised, {len(P)} parsed back', len(regs), text)
        return
    for k, (o, b) in enumerate(zip(regs, P)):
        d0, d1 = RD.describe(o), RD.describe(b)
        tc, ts, ta = _tols(d0, 8)
        diffs = RD.compare(d0, d1, tc, ts, ta)
        if diffs:
            res.violation(ID, 'roundtrip_geometry', case, f'list member {k}: ' + '; '.join(diffs[:3]), d0, {'desc': d1, 'text': text})
        if _meta_expect(o) != _meta_expect(b):
            res.violation(ID, 'roundtrip_meta_in_list', case, f'list member {k}: (text, tags, include) {_meta_expect(o)} came back as {_meta_expect(b)}',
                          list(_meta_expect(o)), {'got': list(_meta_expect(b)), 'text': text})
        _visual_expect(res, case, o, b, text)
    try:
        res.transitions += 2
        text2, _ = _ser(list(P))
        P2, _ = _parse(text2)
    except Exception as exc:
        res.violation(ID, 'fixed_point_raises', case, f'parse->serialise->parse of the list raised {type(exc).__name__}: {exc}')
        return
    if len(P2) != len(P) or not all(a == b for a, b in zip(P, P2)):
        bad = [k for k, (a, b) in enumerate(zip(P, P2)) if not (a == b)]
        res.violation(ID, 'not_fixed_point', case, f'list members {bad} change on parse->serialise->parse', text, text2)
    frames = {cat[i]['frame'] for i in idxs}
    res.outcome(('list', len(idxs), len(frames) > 1, 'global' in text))
    if len(idxs) > 1:
        res.nontriv(('list', tuple(idxs)))


def list_cases(tier):
    n = len(catalogue())
    out = []
    maxlen = 2 if tier == 'quick' else 3
    for L in range(1, maxlen + 1):
        for idxs in itertools.product(range(n), repeat=L):
            out.append({'idxs': list(idxs), 'insert': None})
    for L in range(4, 9):
        for start in range(n):
            out.append({'idxs': [(start + k) % n for k in range(L)], 'insert': None})
    for L in (0, 1, 2):
        for idxs in itertools.product(range(0, n, 1 if tier == 'thorough' else 3), repeat=L):
            for pos in range(L + 1):
                for kind in ('compound_pix', 'compound_sky', 'supergalactic') + (('geocentrictrueecliptic', 'heliocentricmeanecliptic') if L < 2 else ()):
                    out.append({'idxs': list(idxs), 'insert': [pos, kind]})
    return out


# -------------------------------------------------- hash-seed determinism ----
def _seed_child():
    env.bootstrap()
    cat = catalogue()
    out = {}

    def ser(regs):
        try:
            return _ser(regs)[0]
        except Exception as exc:       # a library failure is reported by the parent as a violation
            return f'EXC {type(exc).__name__}: {exc}'
    for name, idxs in (('all', list(range(len(cat)))), ('img', [0, 1, 3]), ('sky', [4, 5, 7]), ('one', [2])):
        out[name] = ser([make_region(cat[i]) for i in idxs])
    for vi, v in enumerate(VISUALS):
        out[f'vis{vi}'] = ser([make_region({'shape': 'circle', 'frame': 'image', 'pos': 0, 'size': 0, 'visual': v, 'meta': {'text': 'x', 'tag': ['t']}}),
                               make_region({'shape': 'point', 'frame': 'fk5', 'pos': 0, 'size': 0, 'visual': v, 'meta': {'text': 'x'}})])
    print('C09CHILD ' + json.dumps(out, sort_keys=True))


def check_seed(res, seed):
    e = dict(os.environ, PYTHONHASHSEED=str(seed))
    outs = []
    for rep in range(1 if seed else 1):
        p = subprocess.run([sys.executable, '-c', f'import sys; sys.path.insert(0, {env.VERIF!r}); from mc.props import c09; c09._seed_child()'],
                           capture_output=True, text=True, cwd=env.VERIF, env=e, timeout=900)
        line = [ln for ln in p.stdout.splitlines() if ln.startswith('C09CHILD ')]
        if not line:
            raise RuntimeError(f'seed child failed rc={p.returncode}: {p.stderr[-600:]}')
        outs.append(json.loads(line[0][9:]))
    return outs[0]


def check_seeds(res):
    base = check_seed(res, 0)
    for k, v in base.items():
        if v.startswith('EXC '):
            res.violation(ID, 'serialize_raises', {'op': 'seeds', 'seed': 0, 'which': k}, f'serialising {k!r} raised {v[4:]}')
    for seed in (1, 2, 3):
        got = check_seed(res, seed)
        for k in base:
            res.evaluations += 1
            res.transitions += 1
            if got[k] != base[k]:
                res.violation(ID, 'serialize_depends_on_hash_seed', {'op': 'seeds', 'seed': seed, 'which': k},
                              f'serialisation {k!r} differs between PYTHONHASHSEED=0 and {seed}', base[k], got[k])
            res.outcome(('seed', seed, got[k] == base[k]))
            res.nontriv(('seed', seed, k))
    res.states += 4


# ------------------------------------------------------------------ driver --
def geom_cases(tier):
    if tier == 'quick':
        precs, poss, sizes, angles = [1, 3, 8, 10, 12], [0, 1], [0, 1, 4], [30.0, 123.456789012345]
    else:
        precs, poss, sizes, angles = list(range(1, 13)), [0, 1, 2, 3], [0, 1, 2, 3, 4], ANGLES
    out = []
    for shape in SHAPES:
        has_angle = shape in ('ellipse', 'rectangle', 'ellipseannulus', 'rectangleannulus')
        for frame in FRAMES:
            for pos in poss:
                for size in (sizes if shape not in ('point', 'text') else sizes[:1]):
                    for ang in (angles if has_angle else [0.0]):
                        spec = {'shape': shape, 'frame': frame, 'pos': pos, 'size': size, 'angle': ang}
                        for p in precs:
                            if feasible(spec, p):
                                out.append([spec, p])
                        if shape == 'polygon' and size == sizes[0]:
                            sc = dict(spec, closed=True)
                            for p in (precs[1], 8):
                                if feasible(sc, p):
                                    out.append([sc, p])
                        if frame != 'image' and shape not in ('point', 'text', 'line', 'polygon') and pos == poss[0] and ang == (angles if has_angle else [0.0])[0]:
                            # angular sizes given as Angle objects instead of plain Quantities
                            sa = dict(spec, qtype='angle')
                            if feasible(sa, 8):
                                out.append([sa, 8])
    return out


def shards(tier, seed):
    out = []
    for ch in chunks(geom_cases(tier), 48 if tier == 'quick' else 160):
        out.append({'kind': 'geom', 'cases': ch['cases']})
    for ch in chunks(meta_cases(tier), 32 if tier == 'quick' else 64):
        out.append({'kind': 'meta', 'cases': ch['cases']})
    to = [[f, s, pi] for f in ('image', 'fk5') for s in SHAPES for pi in range(len(PROP_SETS))]
    for ch in chunks(to, 16):
        out.append({'kind': 'text_origin', 'cases': ch['cases']})
    for ch in chunks(list_cases(tier), 32 if tier == 'quick' else 96):
        out.append({'kind': 'lists', 'cases': ch['cases']})
    out.append({'kind': 'seeds'})
    return out


def run_shard(shard, tier, seed):
    res = Result()
    k = shard['kind']
    if k == 'geom':
        for spec, p in shard['cases']:
            res.states += 1
            check_single(res, spec, p)
        res.sample({'op': 'single', 'spec': shard['cases'][0][0], 'precision': shard['cases'][0][1]})
    elif k == 'meta':
        for spec in shard['cases']:
            res.states += 1
            check_single(res, spec, 8, what='meta')
        res.sample({'op': 'single', 'spec': shard['cases'][0], 'precision': 8})
    elif k == 'text_origin':
        for f, s, pi in shard['cases']:
            res.states += 1
            check_text_origin(res, f, s, pi)
        res.sample({'op': 'text_origin', 'frame': shard['cases'][0][0], 'shape': shard['cases'][0][1], 'props': PROP_SETS[shard['cases'][0][2]]})
    elif k == 'lists':
        for c in shard['cases']:
            res.states += 1
            check_list(res, c['idxs'], tuple(c['insert']) if c['insert'] else None)
        res.sample({'op': 'list', **shard['cases'][-1]})
    elif k == 'seeds':
        check_seeds(res)
        res.sample({'op': 'seeds', 'seeds': [0, 1, 2, 3]})
    return res


def replay(case):
    res = Result()
    op = case['op']
    if op == 'single':
        check_single(res, case['spec'], case['precision'])
    elif op == 'text_origin':
        check_text_origin(res, case['frame'], case['shape'], case['props'])
    elif op == 'list':
        check_list(res, case['idxs'], tuple(case['insert']) if case.get('insert') else None)
    elif op == 'seeds':
        check_seeds(res)
    return res
