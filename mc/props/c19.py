"""C19 -- bounding-box arithmetic is exact integer rectangle algebra.

Engine E2 (bounded-exhaustive lattice).  Reference model: a box is the set of
integer pixels {(x, y): ixmin <= x < ixmax, iymin <= y < iymax}; everything
is decided by plain integer/Fraction arithmetic on that set, never by calling
the code under test.
"""
import itertools
from fractions import Fraction
import math

import numpy as np

from mc.result import Result

ID = 'C19'
LEVEL = 'model_checking'
FILES = ['regions/core/bounding_box.py']
RULE = ('exhaustive enumeration of all boxes with corners in a stated integer range (including empty '
        'boxes), all ordered pairs, all ordered triples over a smaller range, all image shapes 0..7 x 0..7 '
        'per box, float rectangles on the 1/8-pixel lattice and at 2^k / 1e9 boundaries, and a fixed '
        'catalogue of magnitudes x numpy integer types (pairs), all boxes with corners in [0,5] / [-2,5] given as scalars of each '
        'of 10 numpy integer types (signed and unsigned) x all image shapes (shape, centre, extent, overlap slices); a case is non-trivial when the operation has a '
        'non-degenerate answer (pair: both boxes non-empty and they overlap partially; slices: overlap '
        'non-empty and clipped; from_float: an edge falls exactly on a rounding boundary)')
BOUNDS = {
    'quick': 'pairs over corners [-3,4] (1296 boxes, 1.68M ordered pairs); triples over [-1,2] (1M); '
             'slices: all 4356 boxes of [-4,6] x 64 image shapes; from_float: 1/8 lattice on [-3,3]; typed boxes: 10 corner types x '
             'all boxes of [0,5] (unsigned) / [-2,5] (signed) x 25 image shapes',
    'thorough': 'pairs over corners [-4,6] (4356 boxes, 19.0M ordered pairs); triples over [-2,3] '
                '(441 boxes, 85.8M); slices as quick plus shapes to 9; from_float: 1/8 lattice on [-5,5]; typed boxes as quick x 49 image shapes',
}
ASSUMPTIONS = ['numpy integer indexing semantics are trusted when the returned slices are applied to '
               'coordinate arrays', 'corner magnitudes are bounded by the stated ranges']


def _boxes(lo, hi):
    r = range(lo, hi + 1)
    ax = [(a, b) for a in r for b in r if a <= b]
    return [(x0, x1, y0, y1) for (x0, x1) in ax for (y0, y1) in ax]


def _mk(t):
    from regions import RegionBoundingBox
    return RegionBoundingBox(t[0], t[1], t[2], t[3])


def _tup(b):
    return (int(b.ixmin), int(b.ixmax), int(b.iymin), int(b.iymax))


def _empty(t):
    return t[0] >= t[1] or t[2] >= t[3]


def _isect_ref(a, b):
    """Reference intersection as a tuple, or None if no common pixel."""
    t = (max(a[0], b[0]), min(a[1], b[1]), max(a[2], b[2]), min(a[3], b[3]))
    return None if _empty(t) else t


def _hull(a, b):
    return (min(a[0], b[0]), max(a[1], b[1]), min(a[2], b[2]), max(a[3], b[3]))


def _pixhull(a, b):
    """Smallest box containing the *pixels* of both (empty operands contribute nothing)."""
    if _empty(a) and _empty(b):
        return None
    if _empty(a):
        return b
    if _empty(b):
        return a
    return _hull(a, b)


def _call(res, fn):
    res.transitions += 1
    try:
        return True, fn()
    except Exception as exc:  # noqa
        return False, f'{type(exc).__name__}: {exc}'


def _V(res, kind, case, msg, expected=None, observed=None):
    res.violation(ID, kind, case, msg, expected, observed)


# ----------------------------------------------------------------- pairs --
def check_pair(res, a, b, A=None, B=None):
    case = {'op': 'pair', 'a': list(a), 'b': list(b)}
    A = A or _mk(a)
    B = B or _mk(b)
    # union -----------------------------------------------------------------
    # the operands have been looked at before they are combined (shape, centre, extent of both)
    _call(res, lambda: (A.shape, A.center, A.extent, B.shape, B.center, B.extent))
    for name, fn in (('union', lambda: A.union(B)), ('or', lambda: A | B), ('intersection', lambda: A.intersection(B)), ('and', lambda: A & B),
                     ('intersection_rev', lambda: B & A)):
        ok0, r0 = _call(res, fn)
        if ok0 and r0 is not None and (r0 is A or r0 is B):
            _V(res, 'result_aliases_operand', case, f'{name} returned one of its operands itself ({"the first" if r0 is A else "the second"}), not a new box: '
                                                    f'editing the result would edit the operand', 'a new box', 'an operand')
    for name, fn in (('union', lambda: A.union(B)), ('or', lambda: A | B)):
        ok, u = _call(res, fn)
        if not ok:
            _V(res, 'union_raises', case, f'{name} raised {u}')
            continue
        ut = _tup(u)
        bad = _inconsistent(u)
        if bad:
            _V(res, 'result_inconsistent', case, f'{name}({a},{b}) reports {bad}')
        hull = _hull(a, b)
        if not _empty(a) and not _empty(b):
            if ut != hull:
                _V(res, 'union_wrong', case, f'{name}({a},{b}) = {ut}, smallest enclosing box is {hull}', hull, ut)
        else:
            # an empty operand: the coordinate hull and the pixel hull are both acceptable readings
            ph = _pixhull(a, b)
            if ut != hull and (ph is None or ut != ph):
                _V(res, 'union_wrong', case, f'{name}({a},{b}) = {ut}, expected {hull} (or {ph})', hull, ut)
    ok1, u1 = _call(res, lambda: A.union(B))
    ok2, u2 = _call(res, lambda: B.union(A))
    if ok1 and ok2 and _tup(u1) != _tup(u2):
        _V(res, 'union_not_commutative', case, f'{_tup(u1)} != {_tup(u2)}')
    # intersection ------------------------------------------------------------
    ref = _isect_ref(a, b)
    got = []
    for name, fn in (('intersection', lambda: A.intersection(B)), ('and', lambda: A & B),
                     ('intersection_rev', lambda: B.intersection(A))):
        ok, i = _call(res, fn)
        if not ok:
            _V(res, 'intersection_raises', case, f'{name} raised {i}')
            continue
        it = None if i is None else _tup(i)
        got.append(it)
        bad = None if i is None else _inconsistent(i)
        if bad:
            _V(res, 'result_inconsistent', case, f'{name}({a},{b}) reports {bad}')
        if ref is None:
            # no common pixel: None, or a box that is the exact empty set
            if it is not None and not _empty(it):
                _V(res, 'intersection_wrong', case, f'{name}({a},{b}) = {it} but the boxes share no pixel', None, it)
        else:
            if it != ref:
                _V(res, 'intersection_wrong', case, f'{name}({a},{b}) = {it}, common pixels are {ref}', ref, it)
    # augmented assignment: `t = A; t |= B` gives the union as t and leaves the box A refers to as it was (boxes are values)
    for opname, want in (('|=', _hull(a, b) if not (_empty(a) or _empty(b)) else None), ('&=', ref)):
        def aug():
            t = A
            if opname == '|=':
                t |= B
            else:
                t &= B
            return t
        ok, t = _call(res, aug)
        if not ok:
            _V(res, 'union_raises' if opname == '|=' else 'intersection_raises', case, f'{opname} raised {t}')
            continue
        if _tup(A) != tuple(a) or _tup(B) != tuple(b):
            _V(res, 'operand_modified', case, f'`t = A; t {opname} B` changed an operand: A = {_tup(A)} (was {tuple(a)}), B = {_tup(B)} (was {tuple(b)})',
               list(a), list(_tup(A)))
            A, B = _mk(a), _mk(b)
        if want is not None and (t is None or _tup(t) != want):
            _V(res, 'union_wrong' if opname == '|=' else 'intersection_wrong', case, f'`t = A; t {opname} B` gives {None if t is None else _tup(t)}, '
                                                                                    f'expected {want}', list(want), None if t is None else list(_tup(t)))
    # equality ------------------------------------------------------------------
    ok, e = _call(res, lambda: A == B)
    if not ok:
        _V(res, 'eq_raises', case, f'== raised {e}')
    elif bool(e) != (tuple(a) == tuple(b)):
        _V(res, 'eq_wrong', case, f'({a} == {b}) gave {e}')
    res.outcome(('pair', 'none' if ref is None else 'box', _empty(a), _empty(b)))
    if ref is not None and ref != tuple(a) and ref != tuple(b):
        res.nontriv(('pair', a, b))


def _iset(t):
    return t if (t is not None and not _empty(t)) else None


def _inconsistent(box):
    """None when shape, extent and centre of a box object agree with its own limits; else a message."""
    t = _tup(box)
    sh = tuple(int(v) for v in box.shape)
    if sh != (t[3] - t[2], t[1] - t[0]):
        return f'shape {sh} of a box with limits {t}'
    ex = tuple(float(v) for v in box.extent)
    if ex != (t[0] - 0.5, t[1] - 0.5, t[2] - 0.5, t[3] - 0.5):
        return f'extent {ex} of a box with limits {t}'
    c = tuple(Fraction(v) for v in box.center)
    if c != (Fraction(2 * t[2] + 2 * t[3] - 2, 4), Fraction(2 * t[0] + 2 * t[1] - 2, 4)):
        return f'center {tuple(float(v) for v in c)} of a box with limits {t}'
    return None


def check_triple(res, a, b, c, A=None, B=None, C=None):
    case = {'op': 'triple', 'a': list(a), 'b': list(b), 'c': list(c)}
    A = A or _mk(a)
    B = B or _mk(b)
    C = C or _mk(c)
    ok, r = _call(res, lambda: (_tup((A | B) | C), _tup(A | (B | C))))
    if not ok:
        _V(res, 'union_raises', case, f'union triple raised {r}')
    elif r[0] != r[1]:
        _V(res, 'union_not_associative', case, f'(a|b)|c = {r[0]} but a|(b|c) = {r[1]}', r[0], r[1])

    def isect(X, Y):
        if X is None or Y is None:
            return None
        return X & Y

    def both():
        l = isect(isect(A, B), C)
        r_ = isect(A, isect(B, C))
        return (None if l is None else _tup(l), None if r_ is None else _tup(r_))
    ok, r = _call(res, both)
    ref = None
    ab = _isect_ref(a, b)
    if ab is not None:
        ref = _isect_ref(ab, c)
    if not ok:
        _V(res, 'intersection_raises', case, f'intersection triple raised {r}')
    else:
        if _iset(r[0]) != _iset(r[1]):
            _V(res, 'intersection_not_associative', case, f'(a&b)&c = {r[0]} but a&(b&c) = {r[1]}', r[0], r[1])
        if _iset(r[0]) != ref:
            _V(res, 'intersection_wrong', case, f'(a&b)&c = {r[0]}, common pixels {ref}', ref, r[0])
    res.outcome(('triple', ref is None))
    if ref is not None and len({tuple(a), tuple(b), tuple(c)}) == 3:
        res.nontriv(('triple', a, b, c))


# --------------------------------------------------------- single-box stuff --
def _mkt(a, tname):
    """The box with every corner given as a scalar of the numpy integer type ``tname`` (None: python ints)."""
    if tname is None:
        return _mk(a)
    from regions import RegionBoundingBox
    return RegionBoundingBox(*[_conv(v, tname) for v in a])


def check_box(res, a, tname=None):
    case = {'op': 'box', 'a': list(a)}
    if tname:
        case['t'] = tname
    A = _mkt(a, tname)
    nx, ny = a[1] - a[0], a[3] - a[2]
    ok, s = _call(res, lambda: A.shape)
    if not ok or tuple(int(v) for v in s) != (ny, nx):
        _V(res, 'shape_wrong', case, f'shape {s} expected {(ny, nx)}', [ny, nx], repr(s))
    ok, e = _call(res, lambda: A.extent)
    exp = (a[0] - 0.5, a[1] - 0.5, a[2] - 0.5, a[3] - 0.5)
    if not ok or tuple(float(v) for v in e) != exp:
        _V(res, 'extent_wrong', case, f'extent {e} expected {exp}', list(exp), repr(e))
    if nx > 0 and ny > 0:
        xs = range(a[0], a[1])
        ys = range(a[2], a[3])
        cy = Fraction(sum(ys), len(ys))
        cx = Fraction(sum(xs), len(xs))
        ok, c = _call(res, lambda: A.center)
        if not ok or (Fraction(c[0]), Fraction(c[1])) != (cy, cx):
            _V(res, 'center_wrong', case, f'center {c} expected {(float(cy), float(cx))}',
               [float(cy), float(cx)], repr(c))
        res.nontriv(('box', a))
    # empty or not: the centre is the midpoint of the extent (for a non-empty box that is the mean pixel index)
    ok, c = _call(res, lambda: A.center)
    mid = (Fraction(2 * a[2] + 2 * a[3] - 2, 4), Fraction(2 * a[0] + 2 * a[1] - 2, 4))
    if not ok or (Fraction(c[0]), Fraction(c[1])) != mid:
        _V(res, 'center_wrong', case, f'center {c} is not the midpoint {(float(mid[0]), float(mid[1]))} of the extent {exp} '
           f'(box {a}, {"empty" if nx == 0 or ny == 0 else "non-empty"})', [float(mid[0]), float(mid[1])], repr(c))
    ok, r = _call(res, lambda: (A == _mk(a), A == A))
    if not ok or r != (True, True):
        _V(res, 'eq_wrong', case, f'box not equal to itself/copy: {r}')
    res.outcome(('box', nx > 0, ny > 0))


def check_slices(res, a, shape, coords=None, tname=None):
    case = {'op': 'slices', 'a': list(a), 'shape': list(shape)}
    if tname:
        case['t'] = tname
    ny, nx = shape
    A = _mkt(a, tname)
    ok, r = _call(res, lambda: A.get_overlap_slices((ny, nx)))
    if not ok:
        _V(res, 'slices_raise', case, f'get_overlap_slices raised {r}')
        return
    cx0, cx1 = max(a[0], 0), min(a[1], nx)
    cy0, cy1 = max(a[2], 0), min(a[3], ny)
    common = cx0 < cx1 and cy0 < cy1
    if not (isinstance(r, tuple) and len(r) == 2):
        _V(res, 'slices_wrong', case, f'returned {r!r}, not a pair')
        return
    sl, ss = r
    if not common:
        if sl is not None or ss is not None:
            _V(res, 'slices_not_none', case,
               f'box {a} and image {shape} share no pixel but slices are {sl}, {ss} instead of (None, None)',
               None, repr((sl, ss)))
        res.outcome(('slices', 'none'))
        return
    if sl is None or ss is None:
        _V(res, 'slices_wrong', case, f'box {a} and image {shape} share pixels but got {sl}, {ss}')
        return
    # apply the slices to coordinate arrays exactly as a user would
    YL, XL = np.mgrid[0:ny, 0:nx]
    YS, XS = np.mgrid[a[2]:a[3], a[0]:a[1]]
    try:
        res.transitions += 1
        xl, yl = XL[sl], YL[sl]
        xs, ys = XS[ss], YS[ss]
    except Exception as exc:
        _V(res, 'slices_wrong', case, f'slices unusable: {exc}')
        return
    exp_shape = (cy1 - cy0, cx1 - cx0)
    if xl.shape != exp_shape or xs.shape != exp_shape:
        _V(res, 'slices_wrong', case, f'window shapes {xl.shape} / {xs.shape}, expected {exp_shape} '
           f'(slices {sl}, {ss})', list(exp_shape), [list(xl.shape), list(xs.shape)])
        return
    EY, EX = np.mgrid[cy0:cy1, cx0:cx1]
    if not (np.array_equal(xl, EX) and np.array_equal(yl, EY)
            and np.array_equal(xs, EX) and np.array_equal(ys, EY)):
        _V(res, 'slices_wrong', case, f'slices {sl}, {ss} do not select the common pixels '
           f'x[{cx0},{cx1}) y[{cy0},{cy1})', [cx0, cx1, cy0, cy1], repr((sl, ss)))
    clipped = exp_shape != (a[3] - a[2], a[1] - a[0])
    res.outcome(('slices', 'clipped' if clipped else 'inside'))
    if clipped:
        res.nontriv(('slices', a, shape))


def _frac(v):
    """Exact rational value of a float of any precision."""
    if isinstance(v, np.longdouble):
        n, d = v.as_integer_ratio()
        return Fraction(int(n), int(d))
    return Fraction(v)


def _ref_from_float(xmin, xmax, ymin, ymax):
    def lo(v):
        return math.floor(_frac(v) + Fraction(1, 2))

    def hi(v):
        return math.ceil(_frac(v) + Fraction(1, 2))
    return (lo(xmin), hi(xmax), lo(ymin), hi(ymax))


def _ff_history(K, rect):
    b1 = K.from_float(*rect)
    b1.ixmin -= 5
    b1.iymax += 3
    b2 = K.from_float(*rect)
    return b2 is b1, _tup(b2)


def check_from_float_huge(res, rect):
    """Limits beyond 2^53 (no half pixels exist there): the box still covers the rectangle and is at most one pixel larger per side."""
    from regions import RegionBoundingBox
    case = {'op': 'from_float_huge', 'rect': [float(v) for v in rect]}
    res.transitions += 1
    ok, b = _call(res, lambda: RegionBoundingBox.from_float(*rect))
    if not ok:
        _V(res, 'from_float_raises', case, f'from_float{tuple(rect)} raised {b}')
        return
    bt = _tup(b)
    x0, x1, y0, y1 = (int(Fraction(float(v))) for v in rect)
    good = (x0 - 1 <= bt[0] <= x0 and x1 <= bt[1] <= x1 + 1 and y0 - 1 <= bt[2] <= y0 + 1 and y1 <= bt[3] <= y1 + 1)
    if not good:
        _V(res, 'from_float_wrong', case, f'from_float{tuple(rect)} = {bt}: does not cover the rectangle within one pixel per side', [x0, x1 + 1, y0, y1 + 1], list(bt))


def check_from_float(res, rect):
    from regions import RegionBoundingBox
    case = {'op': 'from_float', 'rect': [float(v) for v in rect]}
    if any(isinstance(v, np.longdouble) for v in rect):
        case['rect_longdouble'] = [[int(x) for x in np.longdouble(v).as_integer_ratio()] for v in rect]
    ok, b = _call(res, lambda: RegionBoundingBox.from_float(*rect))
    if not ok:
        _V(res, 'from_float_raises', case, f'from_float{tuple(rect)} raised {b}')
        return
    bt = _tup(b)
    exp = _ref_from_float(*rect)
    if bt != exp:
        _V(res, 'from_float_wrong', case, f'from_float{tuple(rect)} = {bt}, smallest covering box is {exp}',
           list(exp), list(bt))
    # independent restatement: the extent covers, and shrinking any side uncovers
    e = (Fraction(bt[0]) - Fraction(1, 2), Fraction(bt[1]) - Fraction(1, 2),
         Fraction(bt[2]) - Fraction(1, 2), Fraction(bt[3]) - Fraction(1, 2))
    fx0, fx1, fy0, fy1 = (_frac(v) for v in rect)
    covers = e[0] <= fx0 and e[1] >= fx1 and e[2] <= fy0 and e[3] >= fy1
    minimal = (e[0] + 1 > fx0 and e[1] - 1 < fx1 and e[2] + 1 > fy0 and e[3] - 1 < fy1)
    if not covers or not minimal:
        _V(res, 'from_float_wrong', case, f'from_float{tuple(rect)} = {bt}: covers={covers} minimal={minimal}',
           list(exp), list(bt))
    # a history: the caller edits the box it was given and asks again -- the second answer is a fresh, correct box
    ok, r = _call(res, lambda: _ff_history(RegionBoundingBox, rect))
    if not ok:
        _V(res, 'from_float_raises', case, f'from_float{tuple(rect)} called again after editing the first result raised {r}')
    elif r[0] or r[1] != exp:
        _V(res, 'from_float_wrong', case, f'from_float{tuple(rect)} called again after the first result was edited in place = {r[1]}'
                                           f'{" (the same object as the edited one)" if r[0] else ""}; smallest covering box is {exp}',
           list(exp), list(r[1]))
    onb = any((_frac(v) + Fraction(1, 2)).denominator == 1 for v in rect)
    res.outcome(('from_float', onb))
    if onb:
        res.nontriv(('ff', [float(v) for v in rect]))


_BAD_CTOR = [
    (1.0, 2, 3, 4), (1, 2.5, 3, 4), (1, 2, 3.0, 4), (1, 2, 3, 4.0), ('1', 2, 3, 4), (None, 2, 3, 4),
    (1, 2, 3, None), (5, 2, 3, 4), (1, 2, 9, 4), (np.float64(1), 2, 3, 4), (1, 2, 3, np.float32(4)),
    ([1], 2, 3, 4), (1, 2, 3, (4,)),
]


def check_ctor(res, idx):
    from regions import RegionBoundingBox
    args = _BAD_CTOR[idx]
    case = {'op': 'ctor', 'idx': idx, 'args': repr(args)}
    res.transitions += 1
    try:
        b = RegionBoundingBox(*args)
    except (TypeError, ValueError):
        res.outcome(('ctor', 'rejected'))
        res.nontriv(('ctor', idx))
        return
    except Exception as exc:
        _V(res, 'ctor_wrong_exception', case, f'RegionBoundingBox{args!r} raised {type(exc).__name__}: {exc}')
        return
    _V(res, 'ctor_accepts_invalid', case, f'RegionBoundingBox{args!r} accepted: {b!r}')


_MAGS = [0, 1, -1, 7, -7, 2 ** 15 - 1, -2 ** 15, 2 ** 31 - 1, -2 ** 31, 10 ** 9, -10 ** 9]
_NPTYPES = ['int8', 'int16', 'int32', 'int64', 'intp', 'uint8', 'pyint']
# corner types of the single-box part (shape, centre, extent, overlap slices): every numpy integer type
_BOXTYPES = ['int8', 'int16', 'int32', 'int64', 'intp', 'longlong', 'uint8', 'uint16', 'uint32', 'uint64']


def _fits(v, tname):
    if tname == 'pyint':
        return True
    info = np.iinfo(getattr(np, tname))
    return info.min <= v <= info.max


def _conv(v, tname):
    return int(v) if tname == 'pyint' else getattr(np, tname)(v)


def check_typed_pair(res, a, b, ta, tb):
    """Same algebra with numpy-typed / large corners.  Differences are kept
    inside the type's range (the property bounds corners by +-1e9)."""
    case = {'op': 'typed', 'a': list(a), 'b': list(b), 'ta': ta, 'tb': tb}
    from regions import RegionBoundingBox
    res.transitions += 1
    try:
        A = RegionBoundingBox(*[_conv(v, ta) for v in a])
        B = RegionBoundingBox(*[_conv(v, tb) for v in b])
        u = _tup(A | B)
        i = A & B
        it = None if i is None else _tup(i)
        sh = tuple(int(v) for v in A.shape)
        ex = tuple(float(v) for v in A.extent)
        eq = bool(A == _mk(a))
    except Exception as exc:
        _V(res, 'typed_raises', case, f'{type(exc).__name__}: {exc}')
        return
    if u != _hull(a, b) and not (_empty(a) or _empty(b)):
        _V(res, 'union_wrong', case, f'typed union {u} != {_hull(a, b)}', list(_hull(a, b)), list(u))
    ref = _isect_ref(a, b)
    if _iset(it) != ref:
        _V(res, 'intersection_wrong', case, f'typed intersection {it} != {ref}', ref, it)
    if sh != (a[3] - a[2], a[1] - a[0]):
        _V(res, 'shape_wrong', case, f'typed shape {sh}')
    if max(abs(v) for v in a) < 2 ** 51 and ex != (a[0] - 0.5, a[1] - 0.5, a[2] - 0.5, a[3] - 0.5):
        _V(res, 'extent_wrong', case, f'typed extent {ex}')
    if not eq:
        _V(res, 'eq_wrong', case, 'typed box != same box built from python ints')
    res.outcome(('typed', ta, tb, ref is None))
    if ref is not None:
        res.nontriv(('typed', a, b, ta, tb))


def check_huge_center(res, a):
    from regions import RegionBoundingBox
    res.transitions += 1
    case = {'op': 'huge_center', 'a': list(a)}
    try:
        c = RegionBoundingBox(*a).center
    except Exception as exc:      # noqa: BLE001
        _V(res, 'typed_raises', case, f'center of {a} raised {type(exc).__name__}: {exc}')
        return
    want = (float(Fraction(a[2] + a[3] - 1, 2)), float(Fraction(a[0] + a[1] - 1, 2)))
    if (float(c[0]), float(c[1])) != want:
        _V(res, 'center_wrong', case, f'center of {a} is {tuple(c)}, the correctly rounded midpoint of the limits is {want}', list(want), repr(c))


def check_typed_extremes(res, t):
    """Limits near the ends of a narrow numpy integer type: a valid box whose span exceeds the type's range is accepted
    (with the right shape), limits in the wrong order are rejected with ValueError."""
    from regions import RegionBoundingBox
    info = np.iinfo(getattr(np, t))
    lo, hi = int(info.min), int(info.max)
    mid = (lo + hi) // 2
    valid = [(lo, hi), (lo, lo + 1), (hi - 1, hi), (lo, mid), (mid, hi), (lo, lo), (hi, hi)]
    inverted = [(hi, lo), (hi, hi - 1), (lo + 1, lo), (mid, lo), (hi, mid), (mid + 1, mid)]
    for axis in ('x', 'y'):
        for (p, q) in valid:
            case = {'op': 'typed_extremes', 't': t, 'axis': axis, 'limits': [p, q]}
            res.transitions += 1
            args = [_conv(p, t), _conv(q, t), _conv(mid, t), _conv(mid, t)] if axis == 'x' else [_conv(mid, t), _conv(mid, t), _conv(p, t), _conv(q, t)]
            try:
                b = RegionBoundingBox(*args)
            except Exception as exc:      # noqa: BLE001
                _V(res, 'typed_raises', case, f'RegionBoundingBox with {axis} limits {t}({p}) .. {t}({q}) raised {type(exc).__name__}: {exc}')
                continue
            want = (0, q - p) if axis == 'x' else (q - p, 0)
            bad = _inconsistent(b)
            if tuple(int(v) for v in b.shape) != want or bad:
                _V(res, 'shape_wrong', case, f'box with {axis} limits {t}({p}) .. {t}({q}): shape {tuple(int(v) for v in b.shape)}, expected {want}'
                                             + (f'; {bad}' if bad else ''), list(want), [int(v) for v in b.shape])
            res.nontriv(('typed_extremes', t, axis, p, q))
        for (p, q) in inverted:
            case = {'op': 'typed_extremes', 't': t, 'axis': axis, 'limits': [p, q]}
            res.transitions += 1
            args = [_conv(p, t), _conv(q, t), _conv(mid, t), _conv(mid, t)] if axis == 'x' else [_conv(mid, t), _conv(mid, t), _conv(p, t), _conv(q, t)]
            try:
                b = RegionBoundingBox(*args)
            except ValueError:
                res.outcome(('typed_extremes', t, 'inverted_rejected'))
                continue
            except Exception as exc:      # noqa: BLE001
                _V(res, 'typed_raises', case, f'inverted {axis} limits {t}({p}) > {t}({q}) raised {type(exc).__name__} instead of ValueError')
                continue
            _V(res, 'inverted_accepted', case, f'RegionBoundingBox accepted {axis} limits {t}({p}) > {t}({q}): {b!r}', 'ValueError', repr(b))
    res.outcome(('typed_extremes', t))


# ---------------------------------------------------------------- driver --
def _ranges(tier):
    if tier == 'quick':
        return dict(pair=(-3, 4), triple=(-1, 2), slices=(-4, 6), maxshape=7, ff=3)
    return dict(pair=(-4, 6), triple=(-2, 3), slices=(-4, 6), maxshape=9, ff=5)


def shards(tier, seed):
    R = _ranges(tier)
    out = []
    pb = _boxes(*R['pair'])
    # group first operands so that a shard is ~100k pairs
    step = max(1, 120000 // len(pb))
    for i in range(0, len(pb), step):
        out.append({'kind': 'pairs', 'lo': R['pair'][0], 'hi': R['pair'][1], 'i0': i, 'i1': min(len(pb), i + step)})
    tb = _boxes(*R['triple'])
    step = max(1, 150000 // (len(tb) ** 2))
    for i in range(0, len(tb), step):
        out.append({'kind': 'triples', 'lo': R['triple'][0], 'hi': R['triple'][1], 'i0': i, 'i1': min(len(tb), i + step)})
    sb = _boxes(*R['slices'])
    step = 150
    for i in range(0, len(sb), step):
        out.append({'kind': 'slices', 'lo': R['slices'][0], 'hi': R['slices'][1], 'i0': i,
                    'i1': min(len(sb), i + step), 'maxshape': R['maxshape']})
    out.append({'kind': 'boxes', 'lo': R['slices'][0], 'hi': R['slices'][1]})
    n = R['ff']
    vals = [Fraction(k, 8) for k in range(-8 * n, 8 * n + 1)]
    chunk = 12
    for i in range(0, len(vals), chunk):
        out.append({'kind': 'from_float', 'n': n, 'i0': i, 'i1': min(len(vals), i + chunk)})
    out.append({'kind': 'from_float_big'})
    out.append({'kind': 'from_float_near'})
    out.append({'kind': 'ctor'})
    out.append({'kind': 'typed'})
    for t in _BOXTYPES:
        out.append({'kind': 'typed_boxes', 't': t, 'maxshape': 4 if tier == 'quick' else 6})
    return out


def _ff_big():
    cases = []
    for base in [2.0 ** k for k in (10, 20, 31, 40, 51)] + [1e9, 123456789.0]:
        for sgn in (1, -1):
            for d in (-1.0, -0.5, -0.25, 0.0, 0.25, 0.5, 1.0):
                v = sgn * base + d
                if v + 0.5 - 0.5 != v:   # keep exactly-representable half steps only
                    continue
                cases.append(v)
    return cases


def run_shard(shard, tier, seed):
    res = Result()
    k = shard['kind']
    if k == 'pairs':
        bx = _boxes(shard['lo'], shard['hi'])
        objs = [_mk(b) for b in bx]
        for i in range(shard['i0'], shard['i1']):
            a, A = bx[i], objs[i]
            res.states += 1
            for b, B in zip(bx, objs):
                res.evaluations += 1
                check_pair(res, a, b, A, B)
        res.sample({'op': 'pair', 'a': list(bx[shard['i0']]), 'b': list(bx[-1])})
    elif k == 'triples':
        bx = _boxes(shard['lo'], shard['hi'])
        objs = [_mk(b) for b in bx]
        for i in range(shard['i0'], shard['i1']):
            a, A = bx[i], objs[i]
            res.states += 1
            for b, B in zip(bx, objs):
                for c, C in zip(bx, objs):
                    res.evaluations += 1
                    check_triple(res, a, b, c, A, B, C)
        res.sample({'op': 'triple', 'a': list(bx[shard['i0']]), 'b': list(bx[3]), 'c': list(bx[-1])})
    elif k == 'slices':
        bx = _boxes(shard['lo'], shard['hi'])
        m = shard['maxshape']
        for i in range(shard['i0'], shard['i1']):
            a = bx[i]
            res.states += 1
            for ny in range(0, m + 1):
                for nx in range(0, m + 1):
                    res.evaluations += 1
                    check_slices(res, a, (ny, nx))
        res.sample({'op': 'slices', 'a': list(bx[shard['i0']]), 'shape': [3, 4]})
    elif k == 'boxes':
        for a in _boxes(shard['lo'], shard['hi']):
            res.states += 1
            res.evaluations += 1
            check_box(res, a)
    elif k == 'from_float':
        n = shard['n']
        vals = [Fraction(j, 8) for j in range(-8 * n, 8 * n + 1)]
        ys = [(Fraction(0), Fraction(0)), (Fraction(-1, 2), Fraction(1, 2)), (Fraction(-5, 8), Fraction(11, 8)),
              (Fraction(3, 8), Fraction(3, 8)), (Fraction(-3, 2), Fraction(5, 2))]
        for i in range(shard['i0'], shard['i1']):
            x0 = vals[i]
            res.states += 1
            for x1 in vals:
                if x1 < x0:
                    continue
                for (y0, y1) in ys:
                    res.evaluations += 2
                    check_from_float(res, (float(x0), float(x1), float(y0), float(y1)))
                    check_from_float(res, (float(y0), float(y1), float(x0), float(x1)))
        res.sample({'op': 'from_float', 'rect': [float(vals[shard['i0']]), 1.5, -0.5, 0.5]})
    elif k == 'from_float_big':
        vs = _ff_big()
        for v in vs:
            res.states += 1
            for w in (0.0, 0.5, 1.0, 2.25):
                if (v + w) - w != v:
                    continue
                res.evaluations += 2
                check_from_float(res, (v, v + w, -0.5, 0.5))
                check_from_float(res, (0.25, 0.75, v, v + w))
        res.sample({'op': 'from_float', 'rect': [vs[0], vs[0] + 0.5, -0.5, 0.5]})
    elif k == 'from_float_near':
        # limits a hair (2^-42 ... 2^-20 pixel) beside a pixel edge, a pixel centre and a quarter: exactly representable, so the
        # smallest covering box is unambiguous -- a limit just beyond an edge still touches the next pixel
        bases = [-2.5, -0.5, 0.5, 3.5, 0.0, 1.0, -3.0, 0.25]
        epss = [0.0] + [sg * 2.0 ** -k for k in (42, 36, 30, 20) for sg in (1.0, -1.0)]
        for lo_b in bases:
            for e1 in epss:
                for w in (0.0, 2.0, 2.5):
                    for e2 in epss:
                        lo, hi = lo_b + e1, lo_b + w + e2
                        if hi < lo:
                            continue
                        res.states += 1
                        res.evaluations += 2
                        check_from_float(res, (lo, hi, -0.5, 0.5))
                        check_from_float(res, (0.25, 0.75, lo, hi))
        # a lower corner far away (so that anything computed relative to it has lost the low bits) and an upper corner near the
        # origin a hair beyond / before a pixel edge
        for lo_far in (-8192.25, -1048576.25, -(2.0 ** 33) - 0.25, -(2.0 ** 45) - 0.5):
            for hi_b in (0.5, 3.5, -0.5, 0.0):
                for e2 in epss:
                    hi = hi_b + e2
                    res.states += 1
                    res.evaluations += 2
                    check_from_float(res, (lo_far, hi, -0.5, 0.5))
                    check_from_float(res, (0.25, 0.75, lo_far, hi))
        # the same with extended-precision limits closer to the edge than a double can express
        if np.finfo(np.longdouble).eps < 1e-18:
            ld = np.longdouble
            for lo_b in (0.5, -2.5, 8.5):
                for e1 in (ld(2) ** -60, -(ld(2) ** -60), ld(2) ** -64, -(ld(2) ** -64), ld(0)):
                    for e2 in (ld(2) ** -60, -(ld(2) ** -60), ld(0)):
                        lo, hi = ld(lo_b) + e1, ld(lo_b) + ld(2) + e2
                        res.states += 1
                        res.evaluations += 2
                        check_from_float(res, (lo, hi, ld(-0.5), ld(0.5)))
                        check_from_float(res, (ld(0.25), ld(0.75), lo, hi))
            res.axis('longdouble_limits', 'checked')
        else:
            res.axis('longdouble_limits', 'not available on this platform')
        res.sample({'op': 'from_float', 'rect': [0.5 - 2.0 ** -42, 2.5 + 2.0 ** -42, -0.5, 0.5]})
    elif k == 'ctor':
        for idx in range(len(_BAD_CTOR)):
            res.states += 1
            res.evaluations += 1
            check_ctor(res, idx)
        res.sample({'op': 'ctor', 'args': repr(_BAD_CTOR[0])})
    elif k == 'typed':
        for ta in _NPTYPES:
            for tb in _NPTYPES:
                ms = [m for m in _MAGS if _fits(m, ta) and _fits(m + 3, ta) and _fits(m - 3, ta)
                      and (ta != 'uint8' or m >= 3)]
                ms2 = [m for m in _MAGS if _fits(m, tb) and _fits(m + 3, tb) and _fits(m - 3, tb)
                       and (tb != 'uint8' or m >= 3)]
                for m in ms:
                    a = (m - 2, m + 1, m - 1, m + 2)
                    for m2 in ms2:
                        # keep differences inside int32 for the narrow types: the property bounds
                        # corners by +-1e9, so |difference| <= 2e9 < 2^31
                        if abs(m - m2) > 2 * 10 ** 9:
                            continue
                        if (ta in ('int8', 'int16', 'uint8') or tb in ('int8', 'int16', 'uint8')) and abs(m - m2) > 100:
                            continue
                        b = (m2 - 1, m2 + 3, m2 - 3, m2 + 1)
                        res.states += 1
                        res.evaluations += 1
                        check_typed_pair(res, a, b, ta, tb)
        # corners that a double cannot tell apart (beyond 2^52): the algebra is integer algebra there as well
        for ta in ('pyint', 'int64'):
            for tb in ('pyint', 'int64'):
                for m in (2 ** 52 + 1, 2 ** 53 + 1, -(2 ** 53) - 1, 2 ** 62 + 1, -(2 ** 62) - 3):
                    a = (m - 2, m + 1, m - 1, m + 2)
                    for d in (-7, -2, -1, 0, 1, 3, 7):
                        m2 = m + d
                        b = (m2 - 1, m2 + 3, m2 - 3, m2 + 1)
                        res.states += 1
                        res.evaluations += 1
                        check_typed_pair(res, a, b, ta, tb)
        # ... and the centre of such a box is the correctly rounded midpoint of its limits (when the midpoint is a double, exactly it)
        for big in (1e19, 2.0 ** 63, -(2.0 ** 63) - 4096.0, 2.0 ** 70, 1e17):
            res.states += 1
            res.evaluations += 1
            check_from_float_huge(res, (big, big + 2.0 ** 14 if big > 0 else big + 2.0 ** 14, 0.0, 3.0))
            check_from_float_huge(res, (0.0, 3.0, big, big + 2.0 ** 14))
        for m in (2 ** 53 + 1, -(2 ** 53) - 1, 2 ** 54 + 2, 2 ** 60 + 4):
            for (nx, ny) in ((3, 3), (5, 1), (1, 9), (4, 2)):
                res.states += 1
                res.evaluations += 1
                check_huge_center(res, (m, m + nx, -m, -m + ny))
        res.axis('corner_magnitude', 'beyond 2^52')
        for t in ('int8', 'int16', 'int32', 'uint8', 'uint16', 'uint32'):
            res.states += 1
            res.evaluations += 1
            check_typed_extremes(res, t)
        res.sample({'op': 'typed', 'a': [-3, 0, -2, 1], 'b': [-2, 2, -4, 0], 'ta': 'int8', 'tb': 'int64'})
    elif k == 'typed_boxes':
        t = shard['t']
        lo = 0 if t.startswith('u') else -2
        shapes = [(ny, nx) for ny in range(0, shard['maxshape'] + 1) for nx in range(0, shard['maxshape'] + 1)]
        for a in _boxes(lo, 5):
            res.states += 1
            res.evaluations += 1
            res.axis('corner_type', t)
            check_box(res, a, tname=t)
            for shp in shapes:
                res.evaluations += 1
                check_slices(res, a, shp, tname=t)
        res.sample({'op': 'slices', 'a': [1, 4, 0, 2], 'shape': [3, 3], 't': t})
    else:
        raise ValueError(k)
    return res


def replay(case):
    res = Result()
    op = case['op']
    if op == 'pair':
        check_pair(res, tuple(case['a']), tuple(case['b']))
    elif op == 'triple':
        check_triple(res, tuple(case['a']), tuple(case['b']), tuple(case['c']))
    elif op == 'box':
        check_box(res, tuple(case['a']), tname=case.get('t'))
    elif op == 'huge_center':
        check_huge_center(res, tuple(case['a']))
    elif op == 'from_float_huge':
        check_from_float_huge(res, tuple(case['rect']))
    elif op == 'slices':
        check_slices(res, tuple(case['a']), tuple(case['shape']), tname=case.get('t'))
    elif op == 'from_float':
        if 'rect_longdouble' in case:
            check_from_float(res, tuple(np.longdouble(n) / np.longdouble(d) for n, d in case['rect_longdouble']))
        else:
            check_from_float(res, tuple(case['rect']))
    elif op == 'ctor':
        check_ctor(res, case['idx'])
    elif op == 'typed_extremes':
        check_typed_extremes(res, case['t'])
    elif op == 'typed':
        check_typed_pair(res, tuple(case['a']), tuple(case['b']), case['ta'], case['tb'])
    else:
        raise ValueError(op)
    return res
