"""C14 -- file writing never clobbers or half-writes, and files read back as written.

E3 (fault / environment enumeration): the full product of format x
destination state x overwrite x entry point x format selection x region list
with an injected "difficult" element at every position x invalid options.
The harness does not predict which writes fail: *any* raised exception must
leave the destination exactly as it was (snapshot of existence, link-ness,
link target, bytes, directory listing), an existing destination without
overwrite must raise OSError, and every successful write must read back --
with the format given, inferred from every registered extension, from the
content of a renamed copy and of gzip copies -- as parse(serialize(list)).
"""
import os
import gzip
import shutil
import operator
import warnings
import itertools

from mc.result import Result
from mc.lattice import chunks
from mc.oracles import regdesc as RD
from mc import env

ID = 'C14'
LEVEL = 'fault_enumeration'
ENGINE = 'E3-faults'
TECHNIQUE = 'exhaustive fault/environment enumeration (destination state x overwrite x failing-element position x entry point) on the real writers with filesystem snapshots'
FILES = ['regions/io/ds9/write.py', 'regions/io/crtf/write.py', 'regions/io/fits/write.py', 'regions/io/ds9/connect.py',
         'regions/io/crtf/connect.py', 'regions/io/fits/connect.py', 'regions/core/registry.py', 'regions/core/regions.py',
         'regions/core/core.py']
RULE = ('full product of format {ds9, crtf, fits} x destination {absent, regular file, symlink to file, dangling symlink, directory} x '
        'overwrite {False, True} x entry {Regions.write, Region.write} x format selection {explicit, every registered write extension '
        'in lower and upper case, unknown extension} x lists of 3 regions with a difficult element (compound, sky region, unusual frame, '
        'partial components, pixel region among sky ones, rectangle annulus, none) at each position x invalid options; successful writes '
        'are read back through every identification route (given format, every read extension, renamed copy, gzip copies). A case is '
        'non-trivial when the destination pre-exists, or the write fails, or identification is by content')
BOUNDS = {'quick': 'full product (the space is small: ~3000 writes)', 'thorough': 'full product plus every read-back route for every successful write'}
ASSUMPTIONS = ['the filesystem under the scratch directory behaves like a POSIX filesystem; gzip copies are made with the standard library',
               'astropy.io.fits / get_readable_fileobj are trusted to read what was written']

FORMATS = ['ds9', 'crtf', 'fits']
# empty_file / symlink_empty: the destination exists with zero length (e.g. what an earlier write of nothing left behind)
DESTS = ['absent', 'file', 'symlink', 'dangling', 'directory', 'empty_file', 'symlink_empty']
WRITE_EXT = {'ds9': ['.reg', '.ds9'], 'crtf': ['.crtf'], 'fits': ['.fits', '.fit', '.fts']}
READ_EXT = {'ds9': ['.ds9', '.reg', '.ds9.gz', '.reg.gz'], 'crtf': ['.crtf', '.crtf.gz'],
            'fits': ['.fits', '.fit', '.fts', '.fits.gz', '.fit.gz', '.fts.gz']}
DIFFICULT = ['none', 'compound', 'sky_or_pixel_intruder', 'odd_frame', 'partial_components', 'rectangleannulus', 'text', 'nonascii_text',
             'linebreak_text']
OLD = b'PRECIOUS USER DATA\n' * 7


def _base_list(fmt):
    import astropy.units as u
    from astropy.coordinates import SkyCoord
    import regions as R
    from regions import PixCoord
    if fmt == 'crtf':
        c = lambda a, b: SkyCoord(a * u.deg, b * u.deg, frame='fk5')      # noqa
        return [R.CircleSkyRegion(c(150.0, 20.0), 30 * u.arcsec, meta={'label': 'c1'}),
                R.EllipseSkyRegion(c(150.1, 20.1), 80 * u.arcsec, 40 * u.arcsec, angle=30 * u.deg, meta={'include': False}),
                R.PolygonSkyRegion(SkyCoord([150.0, 150.1, 150.05] * u.deg, [20.0, 20.0, 20.1] * u.deg, frame='fk5'))]
    return [R.CirclePixelRegion(PixCoord(10.5, 20.25), 4.0, meta={'text': 'first'}, visual={'color': 'red'}),
            R.EllipsePixelRegion(PixCoord(30.0, 40.0), 9.0, 5.0, angle=30 * u.deg, meta={'include': False}),
            R.PolygonPixelRegion(PixCoord([1.0, 8.0, 5.0], [2.0, 3.0, 9.0]))]


def _difficult(fmt, kind):
    import astropy.units as u
    from astropy.coordinates import SkyCoord
    import regions as R
    from regions import PixCoord
    sky = fmt == 'crtf'
    if kind == 'compound':
        b = _base_list(fmt)
        K = R.CompoundSkyRegion if sky else R.CompoundPixelRegion
        return K(b[0], b[1], operator.or_)
    if kind == 'sky_or_pixel_intruder':
        if sky:
            return R.CirclePixelRegion(PixCoord(5.0, 6.0), 2.0)
        return R.CircleSkyRegion(SkyCoord(10 * u.deg, 20 * u.deg), 3 * u.arcsec)
    if kind == 'odd_frame':
        return R.CircleSkyRegion(SkyCoord(10 * u.deg, 20 * u.deg, frame='supergalactic'), 3 * u.arcsec)
    if kind == 'partial_components':
        if sky:
            return R.CircleSkyRegion(SkyCoord(151 * u.deg, 21 * u.deg, frame='fk5'), 5 * u.arcsec, meta={'component': 3})
        return R.CirclePixelRegion(PixCoord(5.0, 6.0), 2.0, meta={'component': 3})
    if kind == 'rectangleannulus':
        if sky:
            return R.RectangleAnnulusSkyRegion(SkyCoord(150 * u.deg, 20 * u.deg, frame='fk5'), 1 * u.arcsec, 2 * u.arcsec, 1 * u.arcsec, 2 * u.arcsec)
        return R.RectangleAnnulusPixelRegion(PixCoord(5.0, 5.0), 2.0, 4.0, 1.0, 3.0)
    if kind == 'nonascii_text':      # a label that not every text encoding can hold
        if sky:
            return R.TextSkyRegion(SkyCoord(150 * u.deg, 20 * u.deg, frame='fk5'), '\u03b1 Cen \u2013 n\u00b0 5', meta={'label': '\u03b1'})
        return R.TextPixelRegion(PixCoord(5.0, 5.0), '\u03b1 Cen \u2013 n\u00b0 5')
    if kind == 'linebreak_text':     # characters that str.splitlines() treats as line ends but the formats do not (only '\n' ends a line)
        lab = 'page1\x0cpage2 \u2028 x\x85y \x1c z'
        if sky:
            return R.TextSkyRegion(SkyCoord(150 * u.deg, 20 * u.deg, frame='fk5'), lab)
        return R.TextPixelRegion(PixCoord(5.0, 5.0), lab)
    if kind == 'text':
        if sky:
            return R.TextSkyRegion(SkyCoord(150 * u.deg, 20 * u.deg, frame='fk5'), 'words')
        return R.TextPixelRegion(PixCoord(5.0, 5.0), 'words')
    raise ValueError(kind)


def make_list(fmt, kind, pos):
    regs = _base_list(fmt)
    if kind != 'none':
        regs[pos] = _difficult(fmt, kind)
    return regs


OPTIONS = {
    'ds9': [{}, {'precision': 3}, {'precision': 'x'}, {'precision': -1}, {'bogus': 1}],
    'crtf': [{}, {'coordsys': 'galactic', 'fmt': '.3f', 'radunit': 'arcsec'}, {'radunit': 'furlong'}, {'coordsys': 'nope'}, {'fmt': 'q'}, {'bogus': 1}],
    'fits': [{}, {'header': {'EXTNAME': 'REGION', 'ORIGIN': 'me'}}, {'bogus': 1}, {'header': 'not a header'}, {'header': 5},
             {'header': {'EXTNAME': 'REGION', 'A KEY THAT IS FAR TOO LONG': object()}}],
}


class Box:
    """A fresh directory with the destination in the requested state."""

    def __init__(self, dest, fname):
        base = os.path.join(env.scratch(), f'c14_{os.getpid()}')
        os.makedirs(base, exist_ok=True)
        self.dir = os.path.join(base, f'd{id(self)}')
        if os.path.isdir(self.dir):
            shutil.rmtree(self.dir)
        os.makedirs(self.dir)
        self.path = os.path.join(self.dir, fname)
        self.target = os.path.join(self.dir, 'link_target.keep')
        if dest == 'file':
            with open(self.path, 'wb') as fh:
                fh.write(OLD)
        elif dest == 'symlink':
            with open(self.target, 'wb') as fh:
                fh.write(OLD)
            os.symlink(self.target, self.path)
        elif dest == 'empty_file':
            with open(self.path, 'wb') as fh:
                fh.write(b'')
        elif dest == 'symlink_empty':
            with open(self.target, 'wb') as fh:
                fh.write(b'')
            os.symlink(self.target, self.path)
        elif dest == 'dangling':
            os.symlink(self.target, self.path)
        elif dest == 'directory':
            os.makedirs(self.path)

    def snapshot(self):
        def rd(p):
            if os.path.isfile(p):
                with open(p, 'rb') as fh:
                    return fh.read()
            return None
        return {'lexists': os.path.lexists(self.path), 'islink': os.path.islink(self.path),
                'link': os.readlink(self.path) if os.path.islink(self.path) else None,
                'isdir': os.path.isdir(self.path),
                'bytes': rd(self.path), 'target_bytes': rd(self.target),
                'listing': sorted(os.listdir(self.dir))}

    def close(self):
        shutil.rmtree(self.dir, ignore_errors=True)


def _same(a, b):
    from regions import Region
    if len(a) != len(b):
        return False
    return all((x == y) and RD.describe(x) == RD.describe(y) for x, y in zip(a, b))


def _reference(regs, fmt, opts):
    """parse(serialize(list)) -- what a successful write must read back as."""
    from regions import Regions
    with warnings.catch_warnings():
        warnings.simplefilter('ignore')
        ser = Regions(regs).serialize(format=fmt, **opts)
        if fmt == 'fits' and len(ser.colnames) == 0:
            return [], ser
        return list(Regions.parse(ser, format=fmt)), ser


def check_write(res, fmt, dest, overwrite, entry, select, kind, pos, oi):
    from regions import Regions
    opts = dict(OPTIONS[fmt][oi])
    case = {'op': 'write', 'fmt': fmt, 'dest': dest, 'overwrite': overwrite, 'entry': entry, 'select': select, 'difficult': kind,
            'pos': pos, 'opts': oi}
    res.evaluations += 1
    ext = WRITE_EXT[fmt][0]
    fname = 'out' + ext
    kw = {'format': fmt}
    if select.startswith('ext:'):
        e = select[4:]
        fname = 'out' + e
        kw = {}
    elif select == 'unknown_ext':
        fname = 'out.dat'
        kw = {}
    elif select == 'no_ext':
        fname = 'notes'
        kw = {}
    elif select == 'ext_prefix':          # a proper prefix of the format's first extension: '.cr', '.re', '.fi'
        fname = 'out' + WRITE_EXT[fmt][0][:3]
        kw = {}
    elif select == 'tilde':               # the destination spelt with a leading '~' (HOME is the scratch directory)
        kw = {'format': fmt}
    elif select == 'pathlib':             # the destination given as a pathlib.Path object instead of a string
        kw = {'format': fmt}
    elif select == 'after_other_options':  # a history: an earlier write elsewhere used other options (FITS: a header naming another extension)
        kw = {'format': fmt}
    elif select == 'unknown_format':
        kw = {'format': 'nope'}
    regs = make_list(fmt, kind, pos)
    if entry == 'region':
        regs = [regs[pos]]
    box = Box(dest, fname)
    home0 = os.environ.get('HOME')
    try:
        before = box.snapshot()
        res.transitions += 1
        exc = None
        wpath = box.path
        if select == 'tilde':
            os.environ['HOME'] = box.dir
            wpath = '~/' + fname
        if select == 'pathlib':
            import pathlib
            wpath = pathlib.Path(box.path)
        if select == 'after_other_options':
            other = {'ds9': {'precision': 2}, 'crtf': {'coordsys': 'galactic', 'fmt': '.2f', 'radunit': 'arcmin'},
                     'fits': {'header': {'EXTNAME': 'SRCREG', 'TELESCOP': 'somewhere', 'HDUCLAS1': 'OTHER'}}}[fmt]
            elsewhere = os.path.join(env.scratch(), f'c14_prev_{os.getpid()}{ext}')
            try:
                with warnings.catch_warnings():
                    warnings.simplefilter('ignore')
                    Regions(_base_list(fmt)).write(elsewhere, format=fmt, overwrite=True, **other)
            except Exception:      # noqa: BLE001 -- only what it may leave behind matters
                pass
            finally:
                if os.path.lexists(elsewhere):
                    os.remove(elsewhere)
        try:
            with warnings.catch_warnings():
                warnings.simplefilter('ignore')
                if entry == 'region':
                    regs[0].write(wpath, overwrite=overwrite, **kw, **opts)
                else:
                    Regions(regs).write(wpath, overwrite=overwrite, **kw, **opts)
        except BaseException as e:          # noqa
            exc = e
        finally:
            if select == 'tilde':
                if home0 is None:
                    os.environ.pop('HOME', None)
                else:
                    os.environ['HOME'] = home0
        after = box.snapshot()
        if select in ('unknown_ext', 'no_ext', 'ext_prefix', 'unknown_format') and exc is None:
            res.violation(ID, 'unidentifiable_destination_written', case,
                          f'{fmt} regions written to {fname!r} with {kw or "no format"}: no format can be identified, yet the write succeeded '
                          f'(listing {before["listing"]} -> {after["listing"]})', 'an exception', 'no exception')
            return
        existed = before['lexists']
        res.outcome((fmt, dest, overwrite, 'raised' if exc else 'wrote'))
        if existed or exc is not None:
            res.nontriv(('write', tuple(sorted(case.items()))))
        if existed and not overwrite:
            if exc is None:
                res.violation(ID, 'existing_destination_overwritten', case,
                              f'{fmt}: destination ({dest}) existed, overwrite=False, but the write succeeded', 'OSError', 'no exception')
            elif not isinstance(exc, OSError) and select not in ('unknown_ext', 'unknown_format', 'no_ext', 'ext_prefix', 'tilde') \
                    and 'bogus' not in opts:
                # (unidentifiable names fail in the registry before any writer sees the destination; a '~' is not expanded by the
                # text writers, so for them the destination they are given does not exist: any failure will do, nothing may change)
                res.violation(ID, 'existing_destination_wrong_exception', case,
                              f'{fmt}: destination ({dest}) existed, overwrite=False: raised {type(exc).__name__}: {exc} instead of OSError',
                              'OSError', type(exc).__name__)
        if exc is not None and dest == 'absent' and kind == 'none' and oi == 0 and \
                (select == 'explicit' or select.startswith('ext:') or select in ('pathlib', 'after_other_options')):
            # nothing stands in the way of this write (representable regions, default options, a new path, a known format): the
            # read-back clause speaks about such writes and would be vacuous if they failed
            res.violation(ID, 'valid_write_raises', case, f'{fmt}: writing representable regions with default options to a new path raised '
                                                          f'{type(exc).__name__}: {str(exc)[:160]}', 'a file', type(exc).__name__)
        if exc is not None:
            if after != before:
                diff = [k for k in before if before[k] != after[k]]
                res.violation(ID, 'failed_write_changed_destination', case,
                              f'{fmt} write raised {type(exc).__name__}: {str(exc)[:120]} but the destination changed: {diff} '
                              f'(bytes {None if before["bytes"] is None else len(before["bytes"])} -> {None if after["bytes"] is None else len(after["bytes"])}, '
                              f'listing {before["listing"]} -> {after["listing"]})', None, diff)
            return
        # ---- success: read back through every route -------------------------------------------------
        ok_fmt = fmt
        try:
            ref, ser = _reference(regs, ok_fmt, opts if 'header' not in opts else {})
        except Exception as e:
            res.violation(ID, 'write_succeeded_but_serialize_fails', case, f'write succeeded but serialize raised {e}')
            return
        empty = (len(ser) == 0) if isinstance(ser, str) else (len(ser.colnames) == 0)
        routes = [('given', box.path, {'format': ok_fmt})]
        if not fname.endswith('.dat'):
            routes.append(('extension', box.path, {}))
        if not empty:
            # the same bytes under every registered read extension, under a neutral name, and gzip-compressed
            with open(box.path, 'rb') as fh:
                data = fh.read()
            for e in READ_EXT[ok_fmt]:
                p = os.path.join(box.dir, 'copy' + e.upper() if e.startswith('.f') and False else 'copy' + e)
                with (gzip.open(p, 'wb') if e.endswith('.gz') else open(p, 'wb')) as fh:
                    fh.write(data)
                routes.append((f'ext{e}', p, {}))
            p = os.path.join(box.dir, 'renamed.dat')
            with open(p, 'wb') as fh:
                fh.write(data)
            routes.append(('content', p, {}))
            p = os.path.join(box.dir, 'zipped.bin')
            with gzip.open(p, 'wb') as fh:
                fh.write(data)
            routes.append(('content_gzip', p, {}))
            p = os.path.join(box.dir, 'UPPER' + READ_EXT[ok_fmt][0].upper())
            with open(p, 'wb') as fh:
                fh.write(data)
            routes.append(('ext_upper', p, {}))
        for rname, p, rkw in routes:
            res.transitions += 1
            try:
                with warnings.catch_warnings():
                    warnings.simplefilter('ignore')
                    got = list(Regions.read(p, **rkw))
            except Exception as e:
                res.violation(ID, 'read_back_raises', {**case, 'route': rname}, f'{fmt}: reading the written file via {rname} raised {type(e).__name__}: {str(e)[:200]}')
                continue
            if not _same(got, ref):
                res.violation(ID, 'read_back_differs', {**case, 'route': rname},
                              f'{fmt}: file read via {rname} gives {len(got)} regions that differ from parse(serialize(list)) ({len(ref)} regions)')
            res.outcome(('read', fmt, rname))
            if rname.startswith('content'):
                res.nontriv(('read', tuple(sorted(case.items())), rname))
    finally:
        box.close()


def check_reuse(res, order):
    """The same neutral path holds, one after the other, files of different formats: every read must identify
    the *current* content (nothing about a path may be remembered between reads)."""
    from regions import Regions
    case = {'op': 'reuse', 'order': list(order)}
    res.evaluations += 1
    box = Box('absent', 'unused')
    try:
        neutral = os.path.join(box.dir, 'same_name.dat')
        zipped = os.path.join(box.dir, 'same_name.bin')
        for step, fmt in enumerate(order):
            regs = _base_list(fmt)
            src = os.path.join(box.dir, f'src{step}' + WRITE_EXT[fmt][0])
            try:
                with warnings.catch_warnings():
                    warnings.simplefilter('ignore')
                    Regions(regs).write(src, format=fmt)
            except Exception as e:          # noqa: BLE001 -- a plain write of representable regions to a new path
                res.violation(ID, 'valid_write_raises', {**case, 'step': step},
                              f'step {step} ({fmt}) of {order}: writing representable regions to a new path with default options raised '
                              f'{type(e).__name__}: {str(e)[:160]}')
                return
            with open(src, 'rb') as fh:
                data = fh.read()
            with open(neutral, 'wb') as fh:
                fh.write(data)
            with gzip.open(zipped, 'wb') as fh:
                fh.write(data)
            ref, _ = _reference(regs, fmt, {})
            for rname, p in (('content', neutral), ('content_gzip', zipped)):
                res.transitions += 1
                try:
                    with warnings.catch_warnings():
                        warnings.simplefilter('ignore')
                        got = list(Regions.read(p))
                except Exception as e:
                    res.violation(ID, 'read_back_raises', {**case, 'step': step, 'route': rname},
                                  f'step {step} ({fmt}) of {order}: reading the re-used path via {rname} raised {type(e).__name__}: {str(e)[:160]}')
                    continue
                if not _same(got, ref):
                    res.violation(ID, 'read_back_differs', {**case, 'step': step, 'route': rname},
                                  f'step {step} ({fmt}) of {order}: the re-used path read via {rname} gives {len(got)} regions that differ from '
                                  f'parse(serialize(list)) ({len(ref)} regions) -- the format of the previous content was used?')
        res.nontriv(('reuse', tuple(order)))
        res.outcome(('reuse', len(order)))
    finally:
        box.close()


def cases(tier):
    out = []
    for fmt in FORMATS:
        selects = ['explicit'] + [f'ext:{e}' for e in WRITE_EXT[fmt]] + [f'ext:{e.upper()}' for e in WRITE_EXT[fmt]] + \
            ['unknown_ext', 'unknown_format', 'no_ext', 'ext_prefix', 'tilde', 'pathlib', 'after_other_options']
        for dest in DESTS:
            for ow in (False, True):
                for entry in ('regions', 'region'):
                    for kind in DIFFICULT:
                        for pos in ((0, 1, 2) if kind != 'none' else (0,)):
                            out.append([fmt, dest, ow, entry, 'explicit', kind, pos, 0])
                    for sel in selects[1:]:
                        out.append([fmt, dest, ow, entry, sel, 'none', 0, 0])
                        out.append([fmt, dest, ow, entry, sel, 'compound', 1, 0])
                    for oi in range(1, len(OPTIONS[fmt])):
                        out.append([fmt, dest, ow, entry, 'explicit', 'none', 0, oi])
                        out.append([fmt, dest, ow, entry, 'explicit', 'rectangleannulus', 2, oi])
    return out


def shards(tier, seed):
    out = [{'cases': ch['cases']} for ch in chunks(cases(tier), 64)]
    out.append({'reuse': [list(p) for p in itertools.permutations(FORMATS)] + [['ds9', 'crtf', 'ds9'], ['fits', 'ds9', 'fits', 'crtf']]})
    return out


def run_shard(shard, tier, seed):
    res = Result()
    if 'reuse' in shard:
        for order in shard['reuse']:
            res.states += 1
            check_reuse(res, order)
        res.sample({'op': 'reuse', 'order': shard['reuse'][0]})
        return res
    for c in shard['cases']:
        res.states += 1
        check_write(res, *c)
    res.sample({'op': 'write', 'case': shard['cases'][0], 'fields': ['fmt', 'dest', 'overwrite', 'entry', 'select', 'difficult', 'pos', 'opts']})
    return res


def replay(case):
    res = Result()
    if case.get('op') == 'reuse':
        check_reuse(res, case['order'])
        return res
    check_write(res, case['fmt'], case['dest'], case['overwrite'], case['entry'], case['select'], case['difficult'], case['pos'], case['opts'])
    return res
