"""C17 -- no sequence of constructions and assignments yields an invalid region.

E1 (explicit-state BFS to closure) over assignments/deletes on every region
class, plus E2 products for constructors, the metadata dict mutators and the
region-list mutators.  Oracle: a domain-predicate model -- each catalogue value
is labelled valid / invalid / dontcare per parameter kind from the documented
domains quoted in the property statement; invalid => must raise
ValueError/TypeError/KeyError and leave the object bit-identical; valid =>
stored and read back unchanged; annulus ordering is a cross-field predicate
evaluated on the model state.
"""
import math
import operator

import numpy as np

from mc.result import Result
from mc.explorer import Explorer
from mc import fingerprint as FP

ID = 'C17'
LEVEL = 'model_checking'
ENGINE = 'E1-explorer'
FILES = ['regions/core/attributes.py', 'regions/core/metadata.py', 'regions/core/regions.py',
         'regions/shapes/annulus.py', 'regions/shapes/polygon.py', 'regions/core/bounding_box.py',
         'regions/core/mask.py', 'regions/core/compound.py']
RULE = ('per region class: breadth-first search from a valid construction over the events {assign every catalogue '
        'value (valid, invalid, dontcare) to every parameter incl. meta/visual, delete every parameter}, states = '
        'fingerprint of all current parameter values, run to closure (fixpoint => any interleaving length); '
        'constructor matrix: every catalogue value in every position; RegionMeta/RegionVisual: closure over 30 '
        'dict-mutation events; Regions: all mutator sequences to depth 3. A transition is non-trivial when the '
        'model says the event must be rejected or changes the state')
BOUNDS = {'quick': 'all 22 classes, closure for every class (2 valid values per parameter kind in the state space)',
          'thorough': 'as quick with 3 valid values per parameter kind, plus the un-deduplicated depth-2 search that tests the state abstraction'}
ASSUMPTIONS = ['the documented domains are those named in the property statement; values whose status the statement '
               'does not fix (0-d arrays, bool, falsy metadata arguments) are exercised but any outcome is accepted',
               'astropy Quantity/SkyCoord construction is trusted']

REJECT = (ValueError, TypeError, KeyError)


def _ename(exc):
    """Name under which an exception counts: a subclass of ValueError / TypeError / KeyError IS one (e.g. astropy's
    UnitConversionError is a ValueError)."""
    for base in REJECT:
        if isinstance(exc, base):
            return base.__name__
    return type(exc).__name__


# ------------------------------------------------------------ value catalogue --
def V(vid):
    """Fresh object for a catalogue id."""
    import astropy.units as u
    from astropy.coordinates import SkyCoord, Angle
    from regions import PixCoord, RegionMeta, RegionVisual, CirclePixelRegion, CircleSkyRegion
    t = {
        'i1': lambda: 1, 'f2.5': lambda: 2.5, 'np3': lambda: np.float64(3.0), 'npi4': lambda: np.int64(4),
        'f0.5': lambda: 0.5, 'f7': lambda: 7.0,
        'i3': lambda: 3, 'i5': lambda: 5, 'np6': lambda: np.int64(6), 'i2': lambda: 2, 'f2.999': lambda: 2.999,
        'nf2.75': lambda: np.float32(2.75), 'f2next': lambda: float(np.nextafter(2.0, 3.0)),
        'qarr1': lambda: [3] * u.deg, 'qarr11': lambda: [[3]] * u.arcsec, 'arr1': lambda: np.array([2.0]),
        'q1sr': lambda: 1 * u.sr, 'qdeg2': lambda: 2 * u.deg ** 2, 'qas2': lambda: 3 * u.arcsec ** 2,
        'qdegps': lambda: 1 * u.deg / u.s, 'q1s': lambda: 1 * u.s, 'qpdeg': lambda: 1 / u.deg,
        'zero': lambda: 0, 'fzero': lambda: 0.0, 'neg': lambda: -1, 'fneg': lambda: -0.5, 'nan': lambda: float('nan'),
        'inf': lambda: float('inf'), 'ninf': lambda: float('-inf'), 'npnan': lambda: np.float64('nan'),
        'str3': lambda: '3', 'none': lambda: None, 'list1': lambda: [1], 'tup1': lambda: (1.0,),
        'arr1d': lambda: np.array([1.0, 2.0]), 'arr0d': lambda: np.array(2.0), 'true': lambda: True,
        'q1deg': lambda: 1 * u.deg, 'q2.5as': lambda: 2.5 * u.arcsec, 'a3am': lambda: Angle(3, 'arcmin'),
        'q.01rad': lambda: 0.01 * u.rad, 'q7deg': lambda: 7 * u.deg,
        'q0deg': lambda: 0 * u.deg, 'qneg': lambda: -1 * u.deg, 'qnan': lambda: float('nan') * u.deg,
        'qinf': lambda: float('inf') * u.deg, 'q1m': lambda: 1 * u.m, 'qarr': lambda: [1, 2] * u.deg,
        'qdimless': lambda: u.Quantity(2.0), 'q1pix': lambda: 1 * u.pix, 'q30deg': lambda: 30 * u.deg,
        'q1rad': lambda: 1 * u.rad, 'a45': lambda: Angle(45, 'deg'), 'qm10am': lambda: -10 * u.arcmin,
        'f30': lambda: 30.0, 'i30': lambda: 30, 'str30deg': lambda: '30deg',
        'pix12': lambda: PixCoord(1, 2), 'pixf': lambda: PixCoord(3.5, -1.25), 'pix00': lambda: PixCoord(0.0, 0.0),
        'pixarr2': lambda: PixCoord([1, 2], [3, 4]), 'pixarr1': lambda: PixCoord([1.0], [2.0]),
        'pix2d': lambda: PixCoord([[1, 2], [3, 4]], [[5, 6], [7, 8]]),
        'pixv3': lambda: PixCoord([1.0, 2.0, 3.0], [4.0, 5.0, 7.0]), 'pixv4': lambda: PixCoord([0.0, 4.0, 4.0, 0.0], [0.0, 0.0, 3.0, 3.0]),
        'pixv5': lambda: PixCoord([0.0, 2.0, 3.0, 1.0, -1.0], [0.0, 0.0, 2.0, 4.0, 2.0]),
        'sky1': lambda: SkyCoord(10 * u.deg, 20 * u.deg, frame='icrs'),
        'skygal': lambda: SkyCoord(120 * u.deg, -5 * u.deg, frame='galactic'),
        'skyfk5': lambda: SkyCoord(1 * u.deg, 2 * u.deg, frame='fk5'),
        'icrsframe': lambda: __import__('astropy.coordinates', fromlist=['ICRS']).ICRS(10 * u.deg, 20 * u.deg),      # a frame object with data, not a SkyCoord
        'galframe': lambda: __import__('astropy.coordinates', fromlist=['Galactic']).Galactic(120 * u.deg, -5 * u.deg),
        'skyarr2': lambda: SkyCoord([10, 11] * u.deg, [20, 21] * u.deg),
        'skyarr1': lambda: SkyCoord([10] * u.deg, [20] * u.deg),
        'sky2d': lambda: SkyCoord([[10, 11], [12, 13]] * u.deg, [[20, 21], [22, 23]] * u.deg),
        'skyv3': lambda: SkyCoord([10, 11, 12] * u.deg, [20, 21, 20] * u.deg),
        'skyv4': lambda: SkyCoord([10, 11, 11, 10] * u.deg, [20, 20, 21, 21] * u.deg, frame='galactic'),
        'tup12': lambda: (1, 2), 'listpairs': lambda: [(1, 2), (3, 4), (5, 6)], 'strx': lambda: 'x', 'int5': lambda: 5,
        'd_empty': lambda: {}, 'd_label': lambda: {'label': 'a'}, 'rm_inc': lambda: RegionMeta({'include': False}),
        'd_tag': lambda: {'tag': ['t1', 't2'], 'text': 'hi'},
        'd_bogus': lambda: {'bogus': 1}, 'd_mixed': lambda: {'label': 'b', 'bogus': 1}, 'l_pairs': lambda: [('label', 'x')],
        'rv_color': lambda: RegionVisual({'color': 'red'}), 'd_color': lambda: {'color': 'blue'},
        'd_lw': lambda: {'linewidth': 2, 'fill': True},
        'reg_pix': lambda: CirclePixelRegion(PixCoord(1, 2), 3),
        'reg_pix2': lambda: CirclePixelRegion(PixCoord(4, 4), 1.5, meta={'include': False}),
        'reg_sky': lambda: CircleSkyRegion(SkyCoord(10 * u.deg, 20 * u.deg), 1 * u.arcsec),
        'reg_sky2': lambda: CircleSkyRegion(SkyCoord(11 * u.deg, 20 * u.deg), 2 * u.arcsec),
    }
    return t[vid]()


# kind -> (valid ids, invalid ids, dontcare ids)
KINDS = {
    'pixsize': (['i1', 'f2.5', 'np3', 'npi4'],
                ['zero', 'fzero', 'neg', 'fneg', 'nan', 'inf', 'ninf', 'npnan', 'str3', 'none', 'list1', 'tup1',
                 'arr1d', 'arr1', 'q1deg', 'q1m', 'qdimless', 'q1pix', 'q1sr'],
                ['arr0d', 'true']),
    # number of vertices of a regular polygon: documented as >= 3
    'nvert': (['i5', 'i3', 'np6'],
              ['i2', 'i1', 'zero', 'neg', 'f2.5', 'f2.999', 'nf2.75', 'f2next', 'nan', 'inf', 'str3', 'none', 'list1', 'arr1d', 'q1deg'],
              ['arr0d', 'true', 'f7']),
    'skysize': (['q1deg', 'q2.5as', 'a3am', 'q.01rad'],
                ['i1', 'f2.5', 'q0deg', 'qneg', 'qnan', 'qinf', 'q1m', 'qarr', 'str3', 'none', 'qdimless', 'q1pix', 'list1',
                 'q1sr', 'qdeg2', 'qas2', 'qdegps', 'q1s', 'qpdeg', 'qarr1', 'qarr11'],
                []),
    'pixcenter': (['pix12', 'pixf', 'pix00'],
                  ['pixarr2', 'pixarr1', 'pix2d', 'sky1', 'tup12', 'none', 'strx', 'arr1d'], []),
    'skycenter': (['sky1', 'skygal', 'skyfk5'],
                  ['skyarr2', 'skyarr1', 'sky2d', 'pix12', 'tup12', 'none', 'strx', 'icrsframe', 'galframe'], []),
    'pixverts': (['pixv3', 'pixv4', 'pixv5'], ['pix12', 'pix2d', 'skyv3', 'none', 'listpairs', 'arr1d'], []),
    'skyverts': (['skyv3', 'skyv4'], ['sky1', 'sky2d', 'pixv3', 'none', 'listpairs'], []),
    'angle': (['q30deg', 'q1rad', 'a45', 'q0deg', 'qm10am'],
              ['f30', 'i30', 'q1m', 'qarr', 'str30deg', 'none', 'qdimless', 'q1pix', 'q1sr', 'qdeg2', 'qas2', 'qdegps', 'q1s', 'qpdeg', 'qarr1', 'qarr11'], []),
    'meta': (['d_label', 'rm_inc', 'd_tag', 'd_empty'], ['d_bogus', 'd_mixed', 'l_pairs', 'strx', 'int5', 'rv_color'], ['none']),
    'visual': (['d_color', 'rv_color', 'd_lw', 'd_empty'], ['d_bogus', 'strx', 'int5', 'd_label'], ['none']),
    'pixregion': (['reg_pix', 'reg_pix2'], ['reg_sky', 'none', 'strx', 'int5', 'pix12'], []),
    'skyregion': (['reg_sky', 'reg_sky2'], ['reg_pix', 'none', 'strx', 'int5', 'sky1'], []),
}

P, S = 'Pixel', 'Sky'


def _cls_table():
    t = {}
    for kind in (P, S):
        c = 'pixcenter' if kind == P else 'skycenter'
        z = 'pixsize' if kind == P else 'skysize'
        v = 'pixverts' if kind == P else 'skyverts'
        t[f'Circle{kind}Region'] = [('center', c), ('radius', z)]
        t[f'Ellipse{kind}Region'] = [('center', c), ('width', z), ('height', z), ('angle', 'angle')]
        t[f'Rectangle{kind}Region'] = [('center', c), ('width', z), ('height', z), ('angle', 'angle')]
        t[f'Polygon{kind}Region'] = [('vertices', v)]
        t[f'CircleAnnulus{kind}Region'] = [('center', c), ('inner_radius', z), ('outer_radius', z)]
        for a in ('Ellipse', 'Rectangle'):
            t[f'{a}Annulus{kind}Region'] = [('center', c), ('inner_width', z), ('outer_width', z),
                                           ('inner_height', z), ('outer_height', z), ('angle', 'angle')]
        t[f'Point{kind}Region'] = [('center', c)]
        t[f'Line{kind}Region'] = [('start', c), ('end', c)]
        t[f'Text{kind}Region'] = [('center', c)]
        t[f'Compound{kind}Region'] = [('region1', 'pixregion' if kind == P else 'skyregion'),
                                      ('region2', 'pixregion' if kind == P else 'skyregion')]
    t['RegularPolygonPixelRegion'] = [('center', 'pixcenter'), ('nvertices', 'nvert'), ('radius', 'pixsize'), ('angle', 'angle')]
    return t


CLASSES = _cls_table()
ORDER = {'inner_radius': 'outer_radius', 'inner_width': 'outer_width', 'inner_height': 'outer_height'}
RORDER = {v: k for k, v in ORDER.items()}


def _init_vid(cls, pname, kind):
    """Initial (valid) value id for a parameter: annulus outer sizes start larger."""
    valid = KINDS[kind][0]
    if pname.startswith('outer_'):
        return valid[3] if kind == 'pixsize' else valid[0]      # 4 px / 1 deg
    if pname.startswith('inner_'):
        return valid[0] if kind == 'pixsize' else valid[1]      # 1 px / 2.5 arcsec
    if pname in ('end', 'region2'):
        return valid[1]
    return valid[0]


def construct(cls, overrides=None, extra=None):
    import regions
    K = getattr(regions, cls)
    kw = {}
    for pname, kind in CLASSES[cls]:
        kw[pname] = V((overrides or {}).get(pname, _init_vid(cls, pname, kind)))
    if cls.startswith('Text'):
        kw['text'] = 'hello'
    if cls.startswith('Compound'):
        kw['operator'] = operator.or_
    for k in ('meta', 'visual'):
        if overrides and k in overrides:
            kw[k] = V(overrides[k])
    if extra:
        kw.update(extra)
    return K(**kw)


def _num(v):
    """Numeric value of a size in a common unit (radians for angles)."""
    import astropy.units as u
    if isinstance(v, u.Quantity):
        return float(v.to_value(u.rad))
    return float(v)


def _params_of(cls):
    return CLASSES[cls] + [('meta', 'meta'), ('visual', 'visual')]


def _state_vals(tier, kind):
    """Valid values that take part in the explored state space."""
    n = 2 if tier == 'quick' else 3
    return KINDS[kind][0][:n] if kind not in ('meta', 'visual') else KINDS[kind][0][:2]


def _verdict(kind, vid):
    va, iv, dc = KINDS[kind]
    return 'valid' if vid in va else 'invalid' if vid in iv else 'dontcare'


# ----------------------------------------------------------- E1 per class ----
def explore_class(res, cls, tier, dedup=True, max_depth=None, run=True):
    params = _params_of(cls)
    kinds = dict(params)

    def build():
        return construct(cls)

    def events(obj):
        evs = []
        for pname, kind in params:
            va, iv, dc = KINDS[kind]
            for vid in list(_state_vals(tier, kind)) + iv + dc:
                evs.append(['set', pname, vid])
            if kind not in ('meta', 'visual'):      # the statement protects *shape parameters* from deletion
                evs.append(['del', pname])
        return evs

    def apply(obj, ev):
        try:
            if ev[0] == 'set':
                val = V(ev[2])
                obj.__dict__['__last_val'] = val
                setattr(obj, ev[1], val)
            else:
                delattr(obj, ev[1])
        except Exception as exc:
            return 'raise:' + _ename(exc)
        return 'ok'

    def canon(obj):
        d = FP.fp(obj)
        d[1]['extras'].pop('__last_val', None)
        return d

    def order_violated(obj, pname, newval):
        """Would assigning newval to pname break inner < outer (model state from the object)?"""
        other = ORDER.get(pname) or RORDER.get(pname)
        if other is None:
            return False
        try:
            a, b = _num(newval), _num(getattr(obj, other))
        except Exception:
            return False
        return (a >= b) if pname in ORDER else (b >= a)

    def on_transition(hist, ev, kb, obj, outcome, ka):
        res.transitions += 1
        res.evaluations += 1
        case = {'cls': cls, 'via': 'assign', 'param': ev[1], 'value': ev[2] if ev[0] == 'set' else None,
                'op': ev[0], 'hist': [list(h) for h in hist]}
        raised = outcome.startswith('raise:')
        if ev[0] == 'del':
            res.nontriv(('del', cls, ev[1]))
            res.outcome(('del', outcome))
            if not raised:
                res.violation(ID, 'delete_accepted', case, f'del {cls}.{ev[1]} succeeded')
                return False
            if ka != kb:
                res.violation(ID, 'rejected_but_changed', case, f'del {cls}.{ev[1]} raised but the object changed')
            return True
        kind = kinds[ev[1]]
        verdict = _verdict(kind, ev[2])
        res.outcome((kind, verdict, outcome))
        if verdict == 'dontcare':
            if raised and ka != kb:
                res.violation(ID, 'rejected_but_changed', case, f'{cls}.{ev[1]} = {ev[2]} raised {outcome} but the object changed')
            return not raised and False     # never expand from don't-care values
        if verdict == 'invalid':
            res.nontriv(('inv', cls, ev[1], ev[2]))
            if not raised:
                res.violation(ID, 'invalid_accepted', case,
                              f'{cls}.{ev[1]} = <{ev[2]}> ({V(ev[2])!r}) was accepted on assignment; the documented domain excludes it',
                              'ValueError/TypeError/KeyError', outcome)
                return False
            if outcome.split(':')[1] not in ('ValueError', 'TypeError', 'KeyError'):
                res.violation(ID, 'wrong_exception', case, f'{cls}.{ev[1]} = <{ev[2]}> raised {outcome}', 'ValueError/TypeError/KeyError', outcome)
            if ka != kb:
                res.violation(ID, 'rejected_but_changed', case, f'{cls}.{ev[1]} = <{ev[2]}> raised {outcome} but the object changed')
            return True
        # valid value: cross-field annulus ordering decided on the model state *before* the event
        before = Explorer.rebuild(ex, hist)
        if order_violated(before, ev[1], V(ev[2])):
            res.nontriv(('order', cls, ev[1], ev[2], kb))
            if not raised:
                res.violation(ID, 'annulus_order_accepted', case,
                              f'{cls}.{ev[1]} = <{ev[2]}> accepted although it makes the inner size >= the outer size',
                              'ValueError', outcome)
                return False
            if ka != kb:
                res.violation(ID, 'rejected_but_changed', case, f'{cls}.{ev[1]} = <{ev[2]}> raised but the object changed')
            return True
        if raised:
            res.violation(ID, 'valid_rejected', case, f'{cls}.{ev[1]} = <{ev[2]}> ({V(ev[2])!r}) raised {outcome} although it is inside the documented domain', 'ok', outcome)
            return True
        stored = getattr(obj, ev[1])
        given = obj.__dict__.get('__last_val')
        same = (stored is given) or FP.fp(stored) == FP.fp(given) or (kind in ('meta', 'visual') and dict(stored) == dict(given))
        if not same:
            res.violation(ID, 'readback_differs', case, f'{cls}.{ev[1]} = <{ev[2]}> reads back as {stored!r}', repr(given), repr(stored))
        if kind in ('meta', 'visual'):
            from regions import RegionMeta, RegionVisual
            want_t = RegionMeta if kind == 'meta' else RegionVisual
            if not isinstance(stored, want_t):
                res.violation(ID, 'readback_differs', case, f'{cls}.{ev[1]} holds a {type(stored).__name__}', want_t.__name__, type(stored).__name__)
        # no other field may change
        b = FP.fp(before)[1]
        a = canon(obj)[1]
        for k in a:
            if k not in ('extras', ev[1]) and a[k] != b[k]:
                # RegularPolygon/Polygon keep derived fields; only *declared parameters* are compared here
                res.violation(ID, 'other_field_changed', case, f'assigning {cls}.{ev[1]} changed field {k}')
        if ka != kb:
            res.nontriv(('chg', cls, ev[1], ev[2], kb))
        return True

    ex = Explorer(build, events, apply, canon, on_transition=on_transition, dedup=dedup, max_depth=max_depth,
                  max_states=20000)
    if not run:
        return ex
    ex.run()
    res.states += ex.states
    for mc_ in ex.merge_conflicts[:5]:
        res.violation(ID, 'state_abstraction_conflict', {'cls': cls, 'via': 'assign', 'event': mc_['event'], 'hist': mc_['hist']},
                      f'two histories with the same fingerprint behave differently on {mc_["event"]}: {mc_["first"][0]} vs {mc_["second"][0]}')
    if not ex.closed:
        res.caps.append(f'{cls}: {ex.capped}')
    res.extra.setdefault('closure', {})[cls] = ex.stats()
    return ex


# ------------------------------------------------------- constructor matrix --
def check_ctor(res, cls, pname, vid):
    kind = dict(_params_of(cls))[pname]
    verdict = _verdict(kind, vid)
    case = {'cls': cls, 'via': 'ctor', 'param': pname, 'value': vid}
    res.evaluations += 1
    res.transitions += 1
    try:
        obj = construct(cls, {pname: vid})
        outcome = 'ok'
    except Exception as exc:
        obj = None
        outcome = 'raise:' + _ename(exc)
    res.outcome(('ctor', kind, verdict, outcome))
    if verdict == 'dontcare':
        return
    if kind in ('meta', 'visual') and vid in ('d_empty',):
        pass
    if verdict == 'invalid':
        res.nontriv(('ctor', cls, pname, vid))
        if outcome == 'ok':
            res.violation(ID, 'invalid_accepted', case, f'{cls}({pname}=<{vid}> {V(vid)!r}) was accepted by the constructor',
                          'ValueError/TypeError/KeyError', 'ok')
        elif outcome.split(':')[1] not in ('ValueError', 'TypeError', 'KeyError'):
            res.violation(ID, 'wrong_exception', case, f'{cls}({pname}=<{vid}>) raised {outcome}', 'ValueError/TypeError/KeyError', outcome)
        return
    # valid
    other = ORDER.get(pname) or RORDER.get(pname)
    if other is not None:
        init_other = V(_init_vid(cls, other, kind))
        a, b = _num(V(vid)), _num(init_other)
        bad = (a >= b) if pname in ORDER else (b >= a)
        if bad:
            res.nontriv(('ctor-order', cls, pname, vid))
            if outcome == 'ok':
                res.violation(ID, 'annulus_order_accepted', case, f'{cls}({pname}=<{vid}>) accepted with inner >= outer', 'ValueError', 'ok')
            return
    if outcome != 'ok':
        res.violation(ID, 'valid_rejected', case, f'{cls}({pname}=<{vid}> {V(vid)!r}) raised {outcome}', 'ok', outcome)
        return
    stored = getattr(obj, pname)
    given = V(vid)
    if kind in ('meta', 'visual'):
        if dict(stored) != dict(given):
            res.violation(ID, 'readback_differs', case, f'{cls}({pname}=<{vid}>) reads back {dict(stored)!r}', repr(dict(given)), repr(dict(stored)))
    elif cls == 'PolygonPixelRegion' and pname == 'vertices':
        if FP.fp(stored) != FP.fp(given):     # origin (0,0) is added: values must be unchanged
            res.violation(ID, 'readback_differs', case, f'{cls}({pname}=<{vid}>) reads back {stored!r}', repr(given), repr(stored))
    elif FP.fp(stored) != FP.fp(given):
        res.violation(ID, 'readback_differs', case, f'{cls}({pname}=<{vid}>) reads back {stored!r}', repr(given), repr(stored))


def check_ctor_misc(res):
    """Constructor checks that are not per-parameter."""
    import regions
    from regions import PixCoord, RegionBoundingBox, RegionMask
    cases = [
        ('compound_operator_not_callable', lambda: regions.CompoundPixelRegion(V('reg_pix'), V('reg_pix2'), 'and'), True),
        ('compound_operator_none', lambda: regions.CompoundSkyRegion(V('reg_sky'), V('reg_sky2'), None), True),
        ('regpoly_nvertices_2', lambda: regions.RegularPolygonPixelRegion(V('pix12'), 2, 3.0), True),
        ('regpoly_nvertices_0', lambda: regions.RegularPolygonPixelRegion(V('pix12'), 0, 3.0), True),
        ('regpoly_nvertices_neg', lambda: regions.RegularPolygonPixelRegion(V('pix12'), -3, 3.0), True),
        ('mask_shape_mismatch', lambda: RegionMask(np.ones((2, 3)), RegionBoundingBox(0, 2, 0, 3)), True),
        ('mask_shape_mismatch_1d', lambda: RegionMask(np.ones(6), RegionBoundingBox(0, 3, 0, 2)), True),
        ('mask_ok', lambda: RegionMask(np.ones((3, 2)), RegionBoundingBox(0, 2, 0, 3)), False),
        ('mask_3d_leading_axes_match', lambda: RegionMask(np.ones((3, 2, 4)), RegionBoundingBox(0, 2, 0, 3)), True),
        ('mask_3d_trailing_one', lambda: RegionMask(np.ones((3, 2, 1)), RegionBoundingBox(0, 2, 0, 3)), True),
        ('mask_1d_rows_match', lambda: RegionMask(np.ones(3), RegionBoundingBox(0, 2, 0, 3)), True),
        ('mask_0d', lambda: RegionMask(np.float64(1.0), RegionBoundingBox(0, 2, 0, 3)), True),
        ('mask_list_ok', lambda: RegionMask([[1, 0], [0, 1], [1, 1]], RegionBoundingBox(0, 2, 0, 3)), False),
        ('bbox_float', lambda: RegionBoundingBox(0.5, 2, 0, 3), True),
        ('bbox_integral_float', lambda: RegionBoundingBox(0, 2.0, 0, 3), True),
        ('bbox_0d_int_array', lambda: RegionBoundingBox(np.array(1), 2, 0, 3), True),
        ('bbox_0d_int_array_last', lambda: RegionBoundingBox(0, 2, 0, np.array(3, dtype=np.uint8)), True),
        ('bbox_1d_array', lambda: RegionBoundingBox(0, 2, np.array([0]), 3), True),
        ('bbox_str', lambda: RegionBoundingBox(0, '2', 0, 3), True),
        ('bbox_none', lambda: RegionBoundingBox(0, 2, None, 3), True),
        ('bbox_quantity', lambda: RegionBoundingBox(0, 2, 0, 3 * _u().pix), True),
        ('bbox_from_float_nan_lower', lambda: RegionBoundingBox.from_float(float('nan'), 10.3, 2.0, 4.0), True),
        ('bbox_from_float_nan_upper', lambda: RegionBoundingBox.from_float(1.0, float('nan'), 2.0, 4.0), True),
        ('bbox_from_float_nan_both_y', lambda: RegionBoundingBox.from_float(1.0, 3.0, float('nan'), float('nan')), True),
        ('bbox_from_float_ok', lambda: RegionBoundingBox.from_float(1.2, 3.4, -2.0, 4.0), False),
        ('bbox_inverted_uint8', lambda: RegionBoundingBox(np.uint8(7), np.uint8(5), 0, 3), True),
        ('bbox_inverted_uint16_y', lambda: RegionBoundingBox(0, 3, np.uint16(9), np.uint16(2)), True),
        ('bbox_inverted_uint_vs_int', lambda: RegionBoundingBox(np.uint64(4), 3, 0, 3), True),
        ('bbox_inverted_int8_wide', lambda: RegionBoundingBox(np.int8(100), np.int8(-100), 0, 3), True),
        ('bbox_wide_int8_ok', lambda: RegionBoundingBox(np.int8(-100), np.int8(100), 0, 3), False),
        ('bbox_np_int8_ok', lambda: RegionBoundingBox(np.int8(0), np.int16(2), np.uint8(0), np.longlong(3)), False),
        ('bbox_inverted', lambda: RegionBoundingBox(3, 2, 0, 3), True),
        ('circle_annulus_equal', lambda: regions.CircleAnnulusPixelRegion(V('pix12'), 2.5, 2.5), True),
        ('circle_annulus_inverted', lambda: regions.CircleAnnulusPixelRegion(V('pix12'), 3.0, 2.5), True),
        ('sky_annulus_equal_units', lambda: regions.CircleAnnulusSkyRegion(V('sky1'), 60 * _u().arcsec, 1 * _u().arcmin), True),
        ('sky_annulus_inverted_units', lambda: regions.CircleAnnulusSkyRegion(V('sky1'), 61 * _u().arcsec, 1 * _u().arcmin), True),
        ('sky_annulus_ok_units', lambda: regions.CircleAnnulusSkyRegion(V('sky1'), 59 * _u().arcsec, 1 * _u().arcmin), False),
        ('ellipse_annulus_width_eq', lambda: regions.EllipseAnnulusPixelRegion(V('pix12'), 2, 2, 1, 3), True),
        ('ellipse_annulus_height_inv', lambda: regions.EllipseAnnulusPixelRegion(V('pix12'), 1, 2, 3, 3), True),
        ('rect_annulus_height_inv', lambda: regions.RectangleAnnulusPixelRegion(V('pix12'), 1, 2, 4, 3), True),
        ('rect_annulus_sky_width_inv', lambda: regions.RectangleAnnulusSkyRegion(V('sky1'), 2 * _u().deg, 1 * _u().deg, 1 * _u().deg, 2 * _u().deg), True),
    ]
    for name, fn, must_raise in cases:
        res.evaluations += 1
        res.transitions += 1
        res.states += 1
        case = {'via': 'ctor_misc', 'name': name}
        try:
            fn()
            out = 'ok'
        except Exception as exc:
            out = 'raise:' + _ename(exc)
        res.outcome(('ctor_misc', must_raise, out))
        res.nontriv(('ctor_misc', name))
        if must_raise and out == 'ok':
            res.violation(ID, 'invalid_accepted', case, f'{name}: constructor accepted an invalid argument', 'raise', out)
        elif must_raise and out.split(':')[1] not in ('ValueError', 'TypeError', 'KeyError'):
            res.violation(ID, 'wrong_exception', case, f'{name}: raised {out}', 'ValueError/TypeError/KeyError', out)
        elif not must_raise and out != 'ok':
            res.violation(ID, 'valid_rejected', case, f'{name}: raised {out}', 'ok', out)


def _u():
    import astropy.units as u
    return u


# -------------------------------------------------- metadata dict mutators ----
META_EVENTS = [
    ['setitem', 'VK1', 1], ['setitem', 'VK2', 'x'], ['setitem', 'BAD', 1],
    ['update_pos', {'VK1': 2}], ['update_pos', {'BAD': 2}], ['update_pos', {'VK2': 'y', 'BAD': 3}],
    ['update_pos', {'BAD': 3, 'VK2': 'z'}], ['update_pairs', [['VK1', 5]]], ['update_pairs', [['VK1', 6], ['BAD', 1]]],
    ['update_kw', {'VK1': 3}], ['update_kw', {'BAD': 3}], ['update_kw', {'VK2': 'w', 'BAD': 1}],
    ['update_both', {'VK1': 4}, {'BAD': 1}],
    ['setdefault', 'VK1', 9], ['setdefault', 'VK3', 9], ['setdefault', 'BAD', 9],
    ['ior', {'VK1': 7}], ['ior', {'BAD': 7}], ['ior', {'VK3': 1, 'BAD': 7}],
    ['or', {'BAD': 1}],
    ['update_meta_obj', 'other'], ['update_meta_obj', 'same'], ['ior_meta_obj', 'other'], ['ior_meta_obj', 'same'],
    ['pop', 'VK1'], ['del', 'VK2'], ['clear'],
]


def _keys(which):
    if which == 'RegionMeta':
        return {'VK1': 'label', 'VK2': 'text', 'VK3': 'include', 'BAD': 'bogus'}
    return {'VK1': 'color', 'VK2': 'linestyle', 'VK3': 'fill', 'BAD': 'bogus'}


def _sub(obj, km):
    if isinstance(obj, dict):
        return {km.get(k, k): v for k, v in obj.items()}
    if isinstance(obj, list):
        return [[km.get(k, k), v] for k, v in obj]
    return km.get(obj, obj)


def explore_meta(res, which, tier, run=True):
    import regions
    K = getattr(regions, which)
    km = _keys(which)
    bad = km['BAD']

    def build():
        return {'m': K()}

    def events(st):
        return META_EVENTS

    def apply(st, ev):
        m = st['m']
        op = ev[0]
        try:
            if op == 'setitem':
                m[km[ev[1]]] = ev[2]
            elif op == 'update_pos':
                m.update(_sub(ev[1], km))
            elif op == 'update_pairs':
                m.update([tuple(p) for p in _sub(ev[1], km)])
            elif op == 'update_kw':
                m.update(**_sub(ev[1], km))
            elif op == 'update_both':
                m.update(_sub(ev[1], km), **_sub(ev[2], km))
            elif op == 'setdefault':
                m.setdefault(km[ev[1]], ev[2])
            elif op == 'ior':
                m |= _sub(ev[1], km)
                st['m'] = m
            elif op == 'or':
                r = m | _sub(ev[1], km)
                if isinstance(r, K) and bad in r:
                    return 'ok:badkey-in-result'
            elif op in ('update_meta_obj', 'ior_meta_obj'):
                # a Meta instance as argument: of the same class (valid keys) or of the other class (its keys are
                # outside this class' vocabulary)
                Other = regions.RegionVisual if which == 'RegionMeta' else regions.RegionMeta
                arg = K({km['VK2']: 'from-obj'}) if ev[1] == 'same' else Other({'edgecolor': 'red'} if which == 'RegionMeta' else {'label': 'x'})
                if op == 'update_meta_obj':
                    m.update(arg)
                else:
                    m |= arg
                    st['m'] = m
            elif op == 'pop':
                m.pop(km[ev[1]], None)
            elif op == 'del':
                if km[ev[1]] in m:
                    del m[km[ev[1]]]
            elif op == 'clear':
                m.clear()
        except Exception as exc:
            return 'raise:' + _ename(exc)
        return 'ok'

    def canon(st):
        return [type(st['m']).__name__, sorted((k, repr(v)) for k, v in st['m'].items())]

    def introduces_bad(ev):
        if ev[0] in ('update_meta_obj', 'ior_meta_obj'):
            return ev[1] == 'other'
        return any(bad in (_sub(x, km) if not isinstance(x, str) else [_sub(x, km)]) or
                   (isinstance(x, list) and any(p[0] == bad for p in _sub(x, km)))
                   for x in ev[1:] if isinstance(x, (dict, list, str)))

    def on_transition(hist, ev, kb, st, outcome, ka):
        res.transitions += 1
        res.evaluations += 1
        case = {'cls': which, 'via': 'dict', 'event': ev, 'hist': [list(h) if isinstance(h, list) else h for h in hist]}
        m = st['m']
        raised = outcome.startswith('raise:')
        res.outcome((which, ev[0], outcome))
        if not isinstance(m, K):
            res.violation(ID, 'meta_type_lost', case, f'{which} became {type(m).__name__} after {ev}')
            return False
        if ev[0] == 'or':
            if outcome == 'ok:badkey-in-result':
                res.violation(ID, 'invalid_key_accepted', case, f'`{which} | dict` returned a {which} holding the invalid key {bad!r}')
            if ka != kb:
                res.violation(ID, 'rejected_but_changed', case, f'`|` changed its left operand')
            return True
        if introduces_bad(ev):
            res.nontriv(('meta', which, repr(ev), kb))
            foreign = [k for k in m if k not in K.valid_keys]
            if bad in m or foreign:
                res.violation(ID, 'invalid_key_accepted', case,
                              f'{which}: {ev} stored the key {(foreign or [bad])[0]!r}, which is outside the documented vocabulary', 'KeyError', outcome)
                return False
            if not raised:
                res.violation(ID, 'invalid_key_accepted', case, f'{which}: {ev} did not raise', 'KeyError', outcome)
                return True
            if outcome.split(':')[1] not in ('KeyError', 'ValueError', 'TypeError'):
                res.violation(ID, 'wrong_exception', case, f'{which}: {ev} raised {outcome}')
            if ka != kb:
                res.violation(ID, 'rejected_but_changed', case,
                              f'{which}: {ev} raised {outcome} but left the object changed ({kb} -> {ka})', kb, ka)
                return False
            return True
        if raised:
            res.violation(ID, 'valid_rejected', case, f'{which}: {ev} raised {outcome}')
        return True

    ex = Explorer(build, events, apply, canon, on_transition=on_transition, max_states=5000)
    if not run:
        return ex
    ex.run()
    res.states += ex.states
    if not ex.closed:
        res.caps.append(f'{which}: {ex.capped}')
    res.extra.setdefault('closure', {})[which] = ex.stats()
    # constructor forms
    for name, fn, must in [
        ('ctor_dict_bad', lambda: K({bad: 1}), True), ('ctor_pairs_bad', lambda: K([(km['VK1'], 1), (bad, 2)]), True),
        ('ctor_kw_bad', lambda: K(**{bad: 1}), True), ('ctor_dict_ok', lambda: K({km['VK1']: 1}), False),
        ('ctor_pairs_ok', lambda: K([(km['VK1'], 1)]), False), ('ctor_kw_ok', lambda: K(**{km['VK2']: 'q'}), False),
        ('ctor_mixed_bad', lambda: K({km['VK1']: 1}, **{bad: 1}), True),
    ]:
        res.transitions += 1
        res.evaluations += 1
        case = {'cls': which, 'via': 'dict_ctor', 'name': name}
        try:
            r = fn()
            out = 'ok'
        except Exception as exc:
            r = None
            out = 'raise:' + _ename(exc)
        res.outcome((which, name, out))
        if must and out == 'ok':
            res.violation(ID, 'invalid_key_accepted', case, f'{which} {name}: accepted')
        if not must and out != 'ok':
            res.violation(ID, 'valid_rejected', case, f'{which} {name}: {out}')
    if which == 'RegionVisual':
        # documented key aliases are readable back through either name
        v = K()
        v['width'] = 3
        v['point'] = 'x'
        res.transitions += 2
        if v.get('linewidth') != 3 or v['width'] != 3 or v['point'] != 'x' or v.get('symbol') != 'x':
            res.violation(ID, 'readback_differs', {'cls': which, 'via': 'alias'}, f'alias keys not readable back: {dict(v)}')
        # ... through every entry point that can introduce a key: constructor, update (dict / pairs / kwargs), |=, setdefault
        entries = {'ctor': lambda: K({'width': 3, 'point': 'x'}), 'update_dict': lambda: _upd(K(), {'width': 3, 'point': 'x'}),
                   'update_pairs': lambda: _upd(K(), [('width', 3), ('point', 'x')]), 'update_kwargs': lambda: _updkw(K(), width=3, point='x'),
                   'ior': lambda: _ior(K(), {'width': 3, 'point': 'x'}), 'setdefault': lambda: _setdef(K(), (('width', 3), ('point', 'x')))}
        for ename, fn in entries.items():
            res.transitions += 1
            case = {'cls': which, 'via': 'alias', 'entry': ename}
            try:
                v = fn()
                got = (v.get('linewidth'), v['width'], v['point'], v.get('symbol'))
                stray = sorted(k for k in dict(v) if k not in K.valid_keys)
            except Exception as exc:          # noqa: BLE001
                res.violation(ID, 'readback_differs', case, f'alias keys given through {ename}: {type(exc).__name__}: {exc}')
                continue
            if got != (3, 3, 'x', 'x') or stray:
                res.violation(ID, 'readback_differs', case, f'alias keys given through {ename} read back as (linewidth, width, point, symbol) = {got}; '
                                                            f'keys outside the vocabulary stored: {stray}; content {dict(v)}')


def _upd(v, arg):
    v.update(arg)
    return v


def _updkw(v, **kw):
    v.update(**kw)
    return v


def _ior(v, arg):
    v |= arg
    return v


def _setdef(v, pairs):
    for k, val in pairs:
        v.setdefault(k, val)
    return v


# ------------------------------------------------------- Regions mutators ----
REG_EVENTS = [['append', 'reg_pix'], ['append', 'strx'], ['append', 'none'],
              ['extend', ['reg_pix2']], ['extend', ['reg_pix', 'strx']], ['extend', ['strx', 'reg_pix']], ['extend_regions', ['reg_sky']],
              ['extend', []], ['insert', 0, 'reg_sky'], ['insert', 0, 'strx'], ['insert', 1, 'none'], ['insert', -1, 'int5'],
              ['pop'], ['reverse'],
              # item and slice assignment of non-regions (whether or not the list supports item assignment at all)
              ['setitem', 0, 'strx'], ['setslice', ['int5', 'none']], ['setslice_all', ['reg_sky', 'strx']], ['setslice_insert', ['none']]]


def explore_regions(res, tier, run=True):
    from regions import Regions, Region

    def build():
        return Regions([V('reg_pix')])

    def events(obj):
        return REG_EVENTS

    def apply(obj, ev):
        try:
            if ev[0] == 'append':
                obj.append(V(ev[1]))
            elif ev[0] == 'extend':
                obj.extend([V(v) for v in ev[1]])
            elif ev[0] == 'extend_regions':
                obj.extend(Regions([V(v) for v in ev[1]]))
            elif ev[0] == 'insert':
                obj.insert(ev[1], V(ev[2]))
            elif ev[0] == 'pop':
                if len(obj):
                    obj.pop()
            elif ev[0] == 'reverse':
                obj.reverse()
            elif ev[0] == 'setitem':
                obj[ev[1]] = V(ev[2])
            elif ev[0] == 'setslice':
                obj[0:2] = [V(v) for v in ev[1]]
            elif ev[0] == 'setslice_all':
                obj[:] = [V(v) for v in ev[1]]
            elif ev[0] == 'setslice_insert':
                obj[1:1] = [V(v) for v in ev[1]]
        except Exception as exc:
            return 'raise:' + _ename(exc)
        return 'ok'

    def canon(obj):
        return [type(r).__name__ + ':' + FP.digest(r) if isinstance(r, Region) else 'NONREGION:' + repr(r) for r in obj.regions]

    bad_ids = ('strx', 'none', 'int5')

    def on_transition(hist, ev, kb, obj, outcome, ka):
        res.transitions += 1
        res.evaluations += 1
        case = {'cls': 'Regions', 'via': 'list', 'event': ev, 'hist': [list(h) for h in hist]}
        raised = outcome.startswith('raise:')
        res.outcome(('Regions', ev[0], outcome))
        vals = ev[1] if isinstance(ev[1] if len(ev) > 1 else None, list) else ([ev[-1]] if len(ev) > 1 else [])
        introduces = any(v in bad_ids for v in vals)
        nonregion = any(not isinstance(r, Region) for r in obj.regions)
        if introduces:
            res.nontriv(('regions', repr(ev), kb))
            if nonregion or not raised:
                res.violation(ID, 'nonregion_accepted', case, f'Regions.{ev[0]}({ev[1:]}) accepted a non-region member', 'TypeError', outcome)
                return False
            if outcome.split(':')[1] not in ('TypeError', 'ValueError'):
                res.violation(ID, 'wrong_exception', case, f'Regions.{ev[0]} raised {outcome}')
            if ka != kb:
                res.violation(ID, 'rejected_but_changed', case, f'Regions.{ev[0]}({ev[1:]}) raised but the list changed')
                return False
            return True
        if raised:
            res.violation(ID, 'valid_rejected', case, f'Regions.{ev[0]}({ev[1:]}) raised {outcome}')
        return True

    ex = Explorer(build, events, apply, canon, on_transition=on_transition, max_depth=3 if tier == 'quick' else 4, max_states=100000)
    if not run:
        return ex
    ex.run()
    res.states += ex.states
    res.extra.setdefault('closure', {})['Regions'] = ex.stats()
    # constructor
    for name, arg, must in [('ctor_ok', ['reg_pix', 'reg_sky'], False), ('ctor_str', ['reg_pix', 'strx'], True),
                            ('ctor_none_member', ['none'], True), ('ctor_first_bad', ['int5', 'reg_pix'], True), ('ctor_empty', [], False)]:
        res.transitions += 1
        res.evaluations += 1
        case = {'cls': 'Regions', 'via': 'list_ctor', 'name': name}
        try:
            Regions([V(v) for v in arg])
            out = 'ok'
        except Exception as exc:
            out = 'raise:' + _ename(exc)
        if must and out == 'ok':
            res.violation(ID, 'nonregion_accepted', case, f'Regions({arg}) accepted')
        elif must and out.split(':')[1] not in ('TypeError', 'ValueError'):
            res.violation(ID, 'wrong_exception', case, f'Regions({arg}) raised {out}')
        elif not must and out != 'ok':
            res.violation(ID, 'valid_rejected', case, f'Regions({arg}) raised {out}')
    # the argument itself: something that is not a collection of regions is rejected, whatever its truth value
    for name, arg in [('ctor_arg_none', None), ('ctor_arg_zero', 0), ('ctor_arg_false', False), ('ctor_arg_int', 5),
                      ('ctor_arg_float', 2.5), ('ctor_arg_region', 'REGION'), ('ctor_arg_dict_bad', {'a': 1}), ('ctor_arg_npzero', np.int64(0))]:
        res.transitions += 1
        res.evaluations += 1
        case = {'cls': 'Regions', 'via': 'ctor_arg', 'name': name}
        a = V('reg_pix') if arg == 'REGION' else arg
        try:
            got = Regions(a)
            out = 'ok'
        except Exception as exc:
            out = 'raise:' + _ename(exc)
        if out == 'ok':
            res.violation(ID, 'nonregion_accepted', case, f'Regions({arg!r}) accepted and holds {len(got.regions)} regions')
        elif out.split(':')[1] not in ('TypeError', 'ValueError'):
            res.violation(ID, 'wrong_exception', case, f'Regions({arg!r}) raised {out}')
        else:
            res.nontriv(('regions_ctor_arg', name))


# ------------------------------------------------------------------ driver --
def shards(tier, seed):
    out = [{'kind': 'class', 'cls': c} for c in CLASSES]
    out += [{'kind': 'ctor', 'cls': c} for c in CLASSES]
    out += [{'kind': 'meta', 'which': 'RegionMeta'}, {'kind': 'meta', 'which': 'RegionVisual'},
            {'kind': 'regions'}, {'kind': 'ctor_misc'}]
    if tier == 'thorough':
        out += [{'kind': 'class_nodedup', 'cls': c} for c in CLASSES]
    return out


def run_shard(shard, tier, seed):
    res = Result()
    k = shard['kind']
    if k == 'class':
        explore_class(res, shard['cls'], tier)
        res.sample({'cls': shard['cls'], 'events': ['set <param> <value id>', 'del <param>'], 'closure': res.extra['closure'][shard['cls']]})
    elif k == 'class_nodedup':
        explore_class(res, shard['cls'], 'quick', dedup=False, max_depth=2)
        res.caps.clear()
    elif k == 'ctor':
        cls = shard['cls']
        for pname, kind in _params_of(cls):
            va, iv, dc = KINDS[kind]
            for vid in va + iv + dc:
                res.states += 1
                check_ctor(res, cls, pname, vid)
        res.sample({'cls': cls, 'via': 'ctor', 'param': _params_of(cls)[0][0], 'value': KINDS[_params_of(cls)[0][1]][1][0]})
    elif k == 'meta':
        explore_meta(res, shard['which'], tier)
        res.sample({'cls': shard['which'], 'events': META_EVENTS[:6]})
    elif k == 'regions':
        explore_regions(res, tier)
        res.sample({'cls': 'Regions', 'events': REG_EVENTS[:6]})
    elif k == 'ctor_misc':
        check_ctor_misc(res)
    return res


def replay(case):
    res = Result()
    via = case.get('via')
    if via == 'ctor':
        check_ctor(res, case['cls'], case['param'], case['value'])
    elif via == 'ctor_misc':
        check_ctor_misc(res)
        res.violations = [v for v in res.violations if v['case'].get('name') == case['name']]
        res.n_violations = len(res.violations)
    elif via == 'assign':
        ex = explore_class(res, case['cls'], 'thorough', run=False)
        ev = ['set', case['param'], case['value']] if case.get('op', 'set') == 'set' else ['del', case['param']]
        ex.replay_one([list(h) for h in case['hist']], ev)
    elif via == 'dict':
        ex = explore_meta(res, case['cls'], 'thorough', run=False)
        ex.replay_one(case['hist'], case['event'])
    elif via == 'list':
        ex = explore_regions(res, 'thorough', run=False)
        ex.replay_one(case['hist'], case['event'])
    elif via in ('dict_ctor', 'alias'):
        explore_meta(res, case['cls'], 'quick')
        res.violations = [v for v in res.violations if v['case'].get('via') == via and v['case'].get('name') == case.get('name')]
        res.n_violations = len(res.violations)
    elif via == 'list_ctor':
        explore_regions(res, 'quick')
        res.violations = [v for v in res.violations if v['case'].get('via') == via and v['case'].get('name') == case.get('name')]
        res.n_violations = len(res.violations)
    return res
