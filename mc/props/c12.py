"""C12 -- FITS region tables round-trip every supported pixel region.

E2: all lists of length <= 3 over a catalogue of FITS-representable regions
(+ cyclic windows of length 4..8 so that columns need padding to different
widths) x include flags x component patterns x medium (in-memory table,
Regions.write/read file, Region.write file); non-representable members at
every position; hand-built tables in the other accepted notations on the
read side.  Oracle: round-trip relations on format-neutral descriptions
(exact geometry: the columns are float64) and reference row arithmetic.
"""
import os
import itertools
import operator
import warnings

import numpy as np

from mc.result import Result
from mc.lattice import chunks
from mc.oracles import regdesc as RD
from mc import fingerprint as FP
from mc import env

ID = 'C12'
LEVEL = 'model_checking'
ENGINE = 'E2-lattice'
FILES = ['regions/io/fits/write.py', 'regions/io/fits/read.py', 'regions/io/fits/core.py', 'regions/io/fits/connect.py']
RULE = ('all lists of length <= 3 over a 13-region catalogue (point, circle, circle and polygon with coordinates equal to 0, ellipse, circle/ellipse annulus, rotated and '
        'unrotated box, polygons with 3 and 5 vertices, regular polygon) + cyclic windows of length 4..8, crossed with include '
        'patterns {absent, True, False, 0, 1} and component patterns {absent, all given, partially given} and 3 media; 5 kinds of '
        'non-representable members inserted at every position of every list of length <= 2; hand-built tables: box, rotbox, '
        'rectangle, rotrectangle, ! prefixes, missing SHAPE column, unsupported and invalid shapes; read lattice: all ordered pairs of 12 '
        'row kinds (every FITS notation incl. box / rectangle / rotrectangle, excluded and upper-case spellings, one unsupported) x '
        'ROTANG cells {0, 25} per row x optional columns {all, no ROTANG, neither R nor ROTANG, + COMPONENT}; files with further '
        'extensions (unrelated table, image, a second REGION table) around the written table. A list is non-trivial when it '
        'mixes classes (columns padded), carries exclusion or component numbers, or contains a skipped member')
BOUNDS = {'quick': 'lists <= 2 + windows, 3 include patterns, 3 component patterns, memory + file', 'thorough': 'lists <= 3 + windows, all patterns, 3 media'}
ASSUMPTIONS = ['astropy.table / astropy.io.fits are trusted to store and return float64 columns unchanged',
               'geometry is compared exactly (tolerance 0), angles in degrees exactly']

CAT = ['point', 'circle', 'ellipse', 'circleannulus', 'ellipseannulus', 'rotbox', 'box', 'poly3', 'poly5', 'regpoly', 'ellipse_rad',
       'poly_origin', 'circle_origin', 'poly_origin_kw']
NONREP = ['sky_circle', 'line', 'text', 'rectangleannulus', 'compound']
INC_PATTERNS = ['absent', 'all_false', 'alt_False_True', 'alt_0_1', 'first_false']
COMP_PATTERNS = ['absent', 'all', 'partial', 'partial_first', 'partial_desc', 'partial_mixed', 'all_desc', 'from_zero', 'zero_then_absent', 'big']


def make(name, include='absent', component=None):
    import astropy.units as u
    from astropy.coordinates import SkyCoord
    import regions as R
    from regions import PixCoord, RegionMeta
    meta = {}
    if include != 'absent':
        meta['include'] = include
    if component is not None:
        meta['component'] = component
    kw = {'meta': RegionMeta(meta)}
    c = PixCoord
    if name == 'point':
        return R.PointPixelRegion(c(3.5, -2.25), **kw)
    if name == 'circle':
        return R.CirclePixelRegion(c(10.0, 11.5), 4.25, **kw)
    if name == 'ellipse':
        return R.EllipsePixelRegion(c(20.5, 21.0), 7.5, 3.0, angle=30 * u.deg, **kw)
    if name == 'ellipse_rad':
        # angle given in radians (a dyadic value): the table stores degrees
        return R.EllipsePixelRegion(c(25.5, 26.0), 6.5, 2.5, angle=0.5 * u.rad, **kw)
    if name == 'circleannulus':
        return R.CircleAnnulusPixelRegion(c(30.0, 31.0), 2.5, 6.75, **kw)
    if name == 'ellipseannulus':
        return R.EllipseAnnulusPixelRegion(c(40.0, 41.0), 3.0, 8.0, 2.0, 6.5, angle=45 * u.deg, **kw)
    if name == 'rotbox':
        return R.RectanglePixelRegion(c(50.0, 51.0), 7.0, 3.5, angle=-20 * u.deg, **kw)
    if name == 'box':
        return R.RectanglePixelRegion(c(60.25, 61.0), 5.0, 9.0, **kw)
    if name == 'poly3':
        return R.PolygonPixelRegion(PixCoord([1.0, 5.5, 3.0], [2.0, 2.5, 7.0]), **kw)
    if name == 'poly_origin':
        # zero is a coordinate value like any other: the last vertex is the pixel origin
        return R.PolygonPixelRegion(PixCoord([4.0, 0.0, 0.0], [0.0, 3.0, 0.0]), **kw)
    if name == 'poly_origin_kw':
        # vertices given relative to an origin= (the region holds absolute vertices)
        return R.PolygonPixelRegion(PixCoord([1.0, 6.0, 3.5, 0.5], [0.5, 1.0, 5.0, 4.0]), origin=PixCoord(10.0, 20.0), **kw)
    if name == 'circle_origin':
        return R.CirclePixelRegion(c(0.0, 0.0), 1.5, **kw)
    if name == 'poly5':
        return R.PolygonPixelRegion(PixCoord([10.0, 14.0, 15.5, 12.0, 9.0], [1.0, 1.5, 4.0, 6.0, 3.5]), **kw)
    if name == 'regpoly':
        return R.RegularPolygonPixelRegion(c(70.0, 71.0), 5, 4.0, angle=12 * u.deg, **kw)
    if name == 'sky_circle':
        return R.CircleSkyRegion(SkyCoord(10 * u.deg, 20 * u.deg), 3 * u.arcsec)
    if name == 'line':
        return R.LinePixelRegion(c(1.0, 2.0), c(3.0, 4.0))
    if name == 'text':
        return R.TextPixelRegion(c(1.0, 2.0), 'txt')
    if name == 'rectangleannulus':
        return R.RectangleAnnulusPixelRegion(c(5.0, 5.0), 2.0, 4.0, 1.0, 3.0)
    if name == 'compound':
        return R.CompoundPixelRegion(make('circle'), make('box'), operator.or_)
    raise KeyError(name)


def _inc_for(pattern, k):
    if pattern == 'absent':
        return 'absent'
    if pattern == 'all_false':
        return False
    if pattern == 'alt_False_True':
        return False if k % 2 == 0 else True
    if pattern == 'alt_0_1':
        return 0 if k % 2 == 0 else 1
    if pattern == 'first_false':
        return False if k == 0 else 'absent'
    raise ValueError(pattern)


def _comp_for(pattern, k):
    if pattern == 'absent':
        return None
    if pattern == 'all':
        return 7 + 3 * k
    if pattern == 'partial':
        return (5 + k) if k % 2 == 1 else None
    if pattern == 'partial_first':
        return 4 if k == 0 else None
    if pattern == 'partial_desc':       # given numbers decrease along the list: 9, -, 7, -, 5, ...
        return (9 - k) if k % 2 == 0 else None
    if pattern == 'partial_mixed':      # 6, -, 4, -, -, ...: the largest given number is not the last given one
        return {0: 6, 2: 4}.get(k)
    if pattern == 'all_desc':
        return 40 - 3 * k
    if pattern == 'from_zero':          # 0 is a component number like any other
        return k
    if pattern == 'zero_then_absent':
        return 0 if k == 0 else None
    if pattern == 'big':                # component numbers are integers, not 16-bit integers
        return 40000 + 30011 * k
    raise ValueError(pattern)


def _expected_desc(region):
    """Description the round trip must return (regular polygons come back as polygons)."""
    from regions import RegularPolygonPixelRegion
    d = RD.describe(region)
    if isinstance(region, RegularPolygonPixelRegion):
        d = dict(d)
        d['shape'] = 'polygon'
        d['coords'] = [(float(a), float(b)) for a, b in zip(region.vertices.x, region.vertices.y)]
        d['sizes'] = []
        d['angle'] = None
    elif d['shape'] in ('point', 'circle', 'circleannulus', 'polygon'):
        d = dict(d)
        d['angle'] = None
    return d


def _norm_angle(d):
    """Rectangles/ellipses without rotation come back with angle 0 deg."""
    return d


def _roundtrip(regs, medium):
    from regions import Regions
    warns = []
    with warnings.catch_warnings(record=True) as w:
        warnings.simplefilter('always')
        if medium == 'memory':
            tbl = Regions(regs).serialize(format='fits')
            out = list(Regions.parse(tbl, format='fits')) if len(tbl.colnames) else []
        else:
            d = os.path.join(env.scratch(), f'c12_{os.getpid()}')
            os.makedirs(d, exist_ok=True)
            # file_ext: the format is inferred from the extension, every registered FITS extension in turn
            ext = {'file_ext': ['.fits', '.fit', '.fts', '.FITS', '.Fts'][len(regs) % 5]}.get(medium, '.fits')
            path = os.path.join(d, f'rt_{medium}{ext}')
            if os.path.lexists(path):
                os.remove(path)
            if medium == 'file_over':
                # the destination already holds an older region file and is overwritten on request
                from regions import CirclePixelRegion, PixCoord
                Regions([CirclePixelRegion(PixCoord(901.0, 902.0), 77.0)]).write(path, format='fits')
                Regions(regs).write(path, format='fits', overwrite=True)
            elif medium == 'file_region' and len(regs) == 1:
                regs[0].write(path, format='fits')
            elif medium == 'file_ext':
                if len(regs) == 1:
                    regs[0].write(path)
                else:
                    Regions(regs).write(path)
            else:
                Regions(regs).write(path, format='fits')
            if medium == 'file_multi':
                _add_extensions(path)
            out = list(Regions.read(path) if medium == 'file_ext' else Regions.read(path, format='fits'))
            os.remove(path)
        warns = [str(x.message) for x in w]
    return out, warns


def _add_extensions(path):
    """Rewrite the file as [primary, unrelated table EVENTS, the REGION table as written, an image extension, a second
    table named REGION (EXTVER 2) with one other circle].  The regions of a file are those of its first REGION
    extension (the lookup rule of FITS extension names)."""
    import numpy as np
    from astropy.io import fits
    from regions import Regions, CirclePixelRegion, PixCoord
    with fits.open(path) as hl:
        ours = [h.copy() for h in hl if h.name == 'REGION']
    other = Regions([CirclePixelRegion(PixCoord(901.0, 902.0), 77.0)]).serialize(format='fits')
    h2 = fits.table_to_hdu(other)
    h2.name = 'REGION'
    h2.header['EXTVER'] = 2
    ev = fits.BinTableHDU.from_columns([fits.Column(name='X', format='D', array=np.array([1.0, 2.0]))], name='EVENTS')
    img = fits.ImageHDU(np.zeros((2, 3)), name='SCI')
    fits.HDUList([fits.PrimaryHDU(), ev] + ours + [img, h2]).writeto(path, overwrite=True)


def check_list(res, names, incp, compp, medium, insert=None):
    case = {'op': 'list', 'names': list(names), 'inc': incp, 'comp': compp, 'medium': medium, 'insert': insert}
    res.evaluations += 1
    regs = [make(n, _inc_for(incp, k), _comp_for(compp, k)) for k, n in enumerate(names)]
    plain = list(regs)
    if insert is not None:
        for _ in range(insert[2] if len(insert) > 2 else 1):      # one, or several adjacent, non-representable members
            regs.insert(insert[0], make(insert[1]))
    fps = [FP.fp(r) for r in regs]
    res.transitions += 1
    try:
        P, w = _roundtrip(regs, medium)
    except Exception as exc:
        res.violation(ID, 'roundtrip_raises', case, f'{names} inc={incp} comp={compp} via {medium}: {type(exc).__name__}: {exc}')
        return
    if [FP.fp(r) for r in regs] != fps:
        res.violation(ID, 'serialize_mutates_input', case, 'serialising changed a region of the list')
    if insert is not None:
        if not any('skipping' in m.lower() or 'cannot' in m.lower() for m in w):
            res.violation(ID, 'skip_without_warning', case, f'non-representable member {insert[1]} gave no warning: {w[:3]}')
        try:
            P0, _ = _roundtrip(plain, medium) if plain else ([], [])
        except Exception as exc:
            res.violation(ID, 'roundtrip_raises', case, f'list without the inserted member raised {exc}')
            return
        if len(P) != len(P0) or any(RD.describe(a) != RD.describe(b) or not (a == b) for a, b in zip(P, P0)):
            res.violation(ID, 'skip_alters_rows', case, f'inserting a non-representable {insert[1]} at {insert[0]} changed the other rows '
                          f'({len(P0)} -> {len(P)} regions)')
        res.nontriv(('insert', tuple(names), tuple(insert), medium))
        res.outcome(('insert', insert[1], len(P) == len(P0)))
        return
    if len(P) != len(regs):
        res.violation(ID, 'roundtrip_count', case, f'{len(regs)} regions written, {len(P)} read back', len(regs), len(P))
        return
    comps_back = []
    for k, (o, b) in enumerate(zip(regs, P)):
        e, g = _expected_desc(o), RD.describe(b)
        if g['shape'] in ('point', 'circle', 'circleannulus', 'polygon'):
            g = dict(g)
            g['angle'] = None
        # angles given in another unit are converted to degrees by the writer: one rounding step is allowed
        diffs = RD.compare(e, g, 0.0, 0.0, 1e-12 if names[k] == 'ellipse_rad' else 0.0)
        if diffs:
            kind = 'roundtrip_geometry'
            if e['shape'] == 'polygon' and g.get('shape') == 'polygon' and len(g['coords']) > len(e['coords']) \
                    and g['coords'][:len(e['coords'])] == e['coords'] and all(c == (0.0, 0.0) for c in g['coords'][len(e['coords']):]) \
                    and len(g['coords']) == max(len(_expected_desc(o)['coords']) for o in regs):
                # the recorded finding: padding to the width of the X / Y columns, i.e. to the largest vertex count in the list
                # (padding to any other width is something else and is reported)
                kind = 'polygon_zero_padding_read_back'
            res.violation(ID, kind, case, f'member {k} ({names[k]}): ' + '; '.join(diffs[:3]), e, g)
        if e['include'] != g['include']:
            res.violation(ID, 'roundtrip_include', case, f'member {k} ({names[k]}): include {e["include"]} came back as {g["include"]}', e['include'], g['include'])
        comps_back.append(g['component'])
        given = _comp_for(compp, k)
        if given is not None and g['component'] != given:
            res.violation(ID, 'roundtrip_component', case, f'member {k}: component {given} came back as {g["component"]}', given, g['component'])
    if any(_comp_for(compp, k) is not None for k in range(len(names))):
        if any(c is None for c in comps_back) or len(set(comps_back)) != len(comps_back):
            res.violation(ID, 'components_not_distinct', case, f'component numbers read back {comps_back} (must be present and pairwise distinct)')
    # fixed point
    try:
        res.transitions += 1
        P2, _ = _roundtrip(list(P), 'memory')
    except Exception as exc:
        res.violation(ID, 'fixed_point_raises', case, f'parse->serialise->parse raised {type(exc).__name__}: {exc}')
        return
    # equality by Region.__eq__ and by exact value of every public field (byte order of the private array
    # buffers differs between table-from-file and table-from-memory and is not an observable field)
    if len(P2) != len(P) or not all(a == b for a, b in zip(P, P2)) or any(RD.describe(a) != RD.describe(b) for a, b in zip(P, P2)):
        res.violation(ID, 'not_fixed_point', case, f'parse->serialise->parse changes the regions of {names}')
    mixed = len(set(names)) > 1
    res.outcome(('list', len(names), mixed, incp, compp, medium))
    if mixed or incp != 'absent' or compp != 'absent':
        res.nontriv(('list', tuple(names), incp, compp, medium))
    res.axis('medium', medium)
    res.axis('inc', incp)
    res.axis('comp', compp)


# ------------------------------------------------------------ read side ------
def _tbl(rows, with_shape=True, component=None, extra=None):
    """Hand-built QTable from rows (shape, X list, Y list, R list, rotang)."""
    import astropy.units as u
    from astropy.table import QTable
    nx = max(len(r[1]) for r in rows)
    nr = max(len(r[3]) for r in rows)
    pad = lambda v, n: list(v) + [0.0] * (n - len(v))       # noqa
    t = QTable()
    if with_shape:
        t['SHAPE'] = [r[0] for r in rows]
    t['X'] = [pad(r[1], nx) for r in rows] * u.pix
    t['Y'] = [pad(r[2], nx) for r in rows] * u.pix
    t['R'] = [pad(r[3], nr) for r in rows] * u.pix
    t['ROTANG'] = [r[4] for r in rows] * u.deg
    if component is not None:
        t['COMPONENT'] = component
    if extra:
        t[extra] = [1] * len(rows)
    return t


READ_CASES = {
    'box': ([('box', [10.0], [20.0], [4.0, 6.0], 0.0)], [{'shape': 'rectangle', 'coords': [(10.0, 20.0)], 'sizes': [4.0, 6.0], 'include': True}]),
    'rotbox': ([('rotbox', [10.0], [20.0], [4.0, 6.0], 30.0)], [{'shape': 'rectangle', 'coords': [(10.0, 20.0)], 'sizes': [4.0, 6.0], 'angle': 30.0, 'include': True}]),
    'rectangle': ([('rectangle', [8.0, 12.0], [17.0, 23.0], [0.0], 0.0)], [{'shape': 'rectangle', 'coords': [(10.0, 20.0)], 'sizes': [4.0, 6.0], 'include': True}]),
    'rotrectangle': ([('rotrectangle', [8.0, 12.0], [17.0, 23.0], [0.0], 40.0)], [{'shape': 'rectangle', 'coords': [(10.0, 20.0)], 'sizes': [4.0, 6.0], 'angle': 40.0, 'include': True}]),
    'excl_mixed': ([('!circle', [1.0], [2.0], [3.0], 0.0), ('ellipse', [4.0], [5.0], [3.0, 2.0], 10.0), ('!rotbox', [6.0], [7.0], [2.0, 1.0], 5.0),
                    ('!ELLIPSE', [4.5], [5.5], [1.5, 1.0], 20.0), ('Annulus', [9.0], [9.0], [1.0, 2.0], 0.0), ('!elliptannulus', [3.0], [3.0], [1.0, 2.0, 0.5, 1.0], 15.0),
                    ('!point', [2.0], [2.0], [0.0], 0.0), ('!annulus', [9.0], [9.0], [1.0, 2.5], 0.0)],
                   [{'shape': 'circle', 'coords': [(1.0, 2.0)], 'sizes': [3.0], 'include': False},
                    {'shape': 'ellipse', 'coords': [(4.0, 5.0)], 'sizes': [6.0, 4.0], 'angle': 10.0, 'include': True},
                    {'shape': 'rectangle', 'coords': [(6.0, 7.0)], 'sizes': [2.0, 1.0], 'angle': 5.0, 'include': False},
                    {'shape': 'ellipse', 'coords': [(4.5, 5.5)], 'sizes': [3.0, 2.0], 'angle': 20.0, 'include': False},
                    {'shape': 'circleannulus', 'coords': [(9.0, 9.0)], 'sizes': [1.0, 2.0], 'include': True},
                    {'shape': 'ellipseannulus', 'coords': [(3.0, 3.0)], 'sizes': None, 'angle': 15.0, 'include': False},
                    {'shape': 'point', 'coords': [(2.0, 2.0)], 'sizes': [], 'include': False},
                    {'shape': 'circleannulus', 'coords': [(9.0, 9.0)], 'sizes': [1.0, 2.5], 'include': False}]),
    'unsupported_between': ([('circle', [1.0], [2.0], [3.0], 0.0), ('pie', [1.0], [2.0], [3.0, 4.0], 0.0), ('sector', [1.0], [2.0], [3.0], 0.0),
                             ('point', [7.0], [8.0], [0.0], 0.0), ('!diamond', [1.0], [2.0], [3.0], 0.0)],
                            [{'shape': 'circle', 'coords': [(1.0, 2.0)], 'sizes': [3.0], 'include': True},
                             {'shape': 'point', 'coords': [(7.0, 8.0)], 'sizes': [], 'include': True}]),
}


def check_read(res, name):
    from regions import Regions
    case = {'op': 'read', 'name': name}
    res.evaluations += 1
    res.transitions += 1
    if name == 'no_shape_column':
        t = _tbl([('x', [1.5], [2.5], [0.0], 0.0), ('x', [3.0], [4.0], [0.0], 0.0)], with_shape=False)
        exp = [{'shape': 'point', 'coords': [(1.5, 2.5)], 'sizes': [], 'include': True},
               {'shape': 'point', 'coords': [(3.0, 4.0)], 'sizes': [], 'include': True}]
    elif name in ('invalid_shape', 'invalid_column'):
        t = _tbl([('circle', [1.0], [2.0], [3.0], 0.0), ('blob' if name == 'invalid_shape' else 'circle', [1.0], [2.0], [3.0], 0.0)],
                 extra='BOGUS' if name == 'invalid_column' else None)
        try:
            with warnings.catch_warnings():
                warnings.simplefilter('ignore')
                out = Regions.parse(t, format='fits')
        except Exception as exc:
            res.outcome(('read', name, type(exc).__name__))
            res.nontriv(('read', name))
            return
        res.violation(ID, 'invalid_table_accepted', case, f'{name}: parsed into {len(out)} regions instead of raising')
        return
    else:
        rows, exp = READ_CASES[name]
        t = _tbl(rows, component=list(range(11, 11 + len(rows))) if name == 'excl_mixed' else None)
    try:
        tfp = FP.fp(t)
        with warnings.catch_warnings(record=True) as w:
            warnings.simplefilter('always')
            P = list(Regions.parse(t, format='fits'))
        # the table is the caller's: parsing leaves it as it was, and parsing it again gives the same regions
        with warnings.catch_warnings():
            warnings.simplefilter('ignore')
            Pagain = list(Regions.parse(t, format='fits'))
        if FP.fp(t) != tfp:
            res.violation(ID, 'parse_mutates_table', case, f'{name}: parsing changed the caller\'s table')
        if len(Pagain) != len(P) or any(RD.describe(a) != RD.describe(b) for a, b in zip(P, Pagain)):
            res.violation(ID, 'parse_not_repeatable', case, f'{name}: parsing the same table a second time gives other regions: '
                                                            f'{[RD.describe(r)["sizes"] for r in P]} then {[RD.describe(r)["sizes"] for r in Pagain]}')
    except Exception as exc:
        res.violation(ID, 'read_raises', case, f'{name}: {type(exc).__name__}: {exc}')
        return
    if len(P) != len(exp):
        res.violation(ID, 'read_count', case, f'{name}: expected {len(exp)} regions, got {len(P)}', len(exp), len(P))
        return
    if name == 'unsupported_between' and not w:
        res.violation(ID, 'skip_without_warning', case, 'unsupported shapes skipped without a warning')
    for k, (e, r) in enumerate(zip(exp, P)):
        g = RD.describe(r)
        if g['shape'] != e['shape']:
            res.violation(ID, 'read_wrong', case, f'{name} row {k}: expected {e["shape"]}, got {g["shape"]}', e, g)
            continue
        if g['coords'] != e['coords']:
            res.violation(ID, 'read_wrong', case, f'{name} row {k}: coordinates {g["coords"]}, expected {e["coords"]}', e, g)
        if e['shape'] == 'ellipseannulus':
            # FITS elliptannulus: R0..R3 = inner/outer axes; the statement fixes only that the shape and flag survive
            pass
        elif e['sizes'] is not None and g['sizes'] != e['sizes']:
            res.violation(ID, 'read_wrong', case, f'{name} row {k}: sizes {g["sizes"]}, expected {e["sizes"]}', e, g)
        if 'angle' in e and g['angle'] != e['angle']:
            res.violation(ID, 'read_wrong', case, f'{name} row {k}: angle {g["angle"]}, expected {e["angle"]}', e, g)
        if g['include'] != e['include']:
            res.violation(ID, 'read_wrong', case, f'{name} row {k}: include {g["include"]}, expected {e["include"]}', e, g)
        if name == 'excl_mixed' and g['component'] != 11 + k:
            res.violation(ID, 'read_wrong', case, f'{name} row {k}: component {g["component"]}, expected {11 + k}', 11 + k, g['component'])
    res.outcome(('read', name, len(P)))
    res.nontriv(('read', name))


READ_NAMES = list(READ_CASES) + ['no_shape_column', 'invalid_shape', 'invalid_column']


# ------------------------------------------------ read side: lattice of hand-built tables --
# one row kind = (SHAPE text, X values, Y values, R values, columns the shape needs beyond X and Y, expected description
# as a function of the row's ROTANG cell)
def _row_kinds():
    def rect(rot):
        return {'shape': 'rectangle', 'coords': [(10.0, 20.0)], 'sizes': [4.0, 6.0], 'angle': rot}
    return {
        'point': ('point', [7.0], [8.0], [], (), lambda a: {'shape': 'point', 'coords': [(7.0, 8.0)], 'sizes': []}),
        'circle': ('CIRCLE', [1.0], [2.0], [3.0], ('R',), lambda a: {'shape': 'circle', 'coords': [(1.0, 2.0)], 'sizes': [3.0]}),
        'annulus': ('annulus', [9.0], [9.5], [1.0, 2.0], ('R',),
                    lambda a: {'shape': 'circleannulus', 'coords': [(9.0, 9.5)], 'sizes': [1.0, 2.0]}),
        'ellipse': ('ellipse', [4.0], [5.0], [3.0, 2.0], ('R', 'ROTANG'),
                    lambda a: {'shape': 'ellipse', 'coords': [(4.0, 5.0)], 'sizes': [6.0, 4.0], 'angle': a}),
        'elliptannulus': ('elliptannulus', [3.0], [3.5], [1.0, 2.0, 0.5, 1.0], ('R', 'ROTANG'),
                          lambda a: {'shape': 'ellipseannulus', 'coords': [(3.0, 3.5)], 'sizes': None, 'angle': a}),
        'box': ('box', [10.0], [20.0], [4.0, 6.0], ('R',), lambda a: rect(0.0)),
        'xbox': ('!Box', [10.0], [20.0], [4.0, 6.0], ('R',), lambda a: rect(0.0)),
        'rotbox': ('rotbox', [10.0], [20.0], [4.0, 6.0], ('R', 'ROTANG'), rect),
        'rectangle': ('rectangle', [8.0, 12.0], [17.0, 23.0], [], (), lambda a: rect(0.0)),
        'rotrectangle': ('!rotrectangle', [8.0, 12.0], [17.0, 23.0], [], ('ROTANG',), rect),
        'polygon': ('polygon', [1.0, 5.0, 2.0], [1.0, 2.0, 6.0], [], (),
                    lambda a: {'shape': 'polygon', 'coords': [(1.0, 1.0), (5.0, 2.0), (2.0, 6.0)], 'sizes': []}),
        'pie': ('pie', [1.0], [2.0], [3.0, 4.0], ('R', 'ROTANG'), None),
    }


ROW_KINDS = ['point', 'circle', 'annulus', 'ellipse', 'elliptannulus', 'box', 'xbox', 'rotbox', 'rectangle', 'rotrectangle', 'polygon', 'pie']
ROT_CELLS = [0.0, 25.0]
# which optional columns the table has: every column any row needs / no ROTANG column / neither R nor ROTANG / + COMPONENT
COLUMN_PATTERNS = ['all', 'no_rotang', 'no_r_no_rotang', 'all_component']


def check_read_lattice(res, k1, k2, rots, cols):
    """A two-row table (row kinds k1, k2; ROTANG cells rots; column pattern cols): every row whose shape finds the columns
    it needs comes back as the region the FITS notation describes (box, rectangle: never rotated, whatever the ROTANG cell
    holds), every other row is skipped with a warning, and the surviving rows keep their order, flags and component numbers."""
    import astropy.units as u
    from astropy.table import QTable
    from regions import Regions
    kinds = _row_kinds()
    rows = [kinds[k1], kinds[k2]]
    case = {'op': 'read_lattice', 'rows': [k1, k2], 'rotang': list(rots), 'columns': cols}
    res.evaluations += 1
    res.transitions += 1
    nx = max(len(r[1]) for r in rows)
    nr = max([len(r[3]) for r in rows] + [1])
    pad = lambda v, n: list(v) + [0.0] * (n - len(v))       # noqa
    t = QTable()
    t['SHAPE'] = [r[0] for r in rows]
    t['X'] = [pad(r[1], nx) for r in rows] * u.pix
    t['Y'] = [pad(r[2], nx) for r in rows] * u.pix
    have = {'X', 'Y'}
    if cols != 'no_r_no_rotang':
        t['R'] = [pad(r[3], nr) for r in rows] * u.pix
        have.add('R')
    if cols in ('all', 'all_component'):
        t['ROTANG'] = list(rots) * u.deg
        have.add('ROTANG')
    if cols == 'all_component':
        t['COMPONENT'] = [41, 17]
    exp = []
    skipped = 0
    for k, r in enumerate(rows):
        if r[5] is None or not set(r[4]) <= have:
            skipped += 1
            continue
        e = dict(r[5](rots[k]))
        if e['shape'] == 'polygon' and nx > len(r[1]):
            return      # padded polygon rows: the recorded zero-padding finding, not this lattice
        e['include'] = not r[0].startswith('!')
        e['component'] = [41, 17][k] if cols == 'all_component' else None
        exp.append(e)
    res.axis('read_columns', cols)
    res.axis('read_row', k1)
    try:
        with warnings.catch_warnings(record=True) as w:
            warnings.simplefilter('always')
            P = list(Regions.parse(t, format='fits'))
    except Exception as exc:      # noqa: BLE001
        res.violation(ID, 'read_raises', case, f'table {[r[0] for r in rows]} columns {sorted(have)}: {type(exc).__name__}: {exc}')
        return
    res.outcome(('read_lattice', cols, len(exp), skipped))
    res.nontriv(('read_lattice', k1, k2, tuple(rots), cols))
    if len(P) != len(exp):
        res.violation(ID, 'read_count', case, f'table {[r[0] for r in rows]} with columns {sorted(have)}: expected {len(exp)} regions '
                                              f'({[e["shape"] for e in exp]}), got {len(P)} (warnings: {[str(x.message) for x in w][:2]})',
                      len(exp), len(P))
        return
    if skipped and not w:
        res.violation(ID, 'skip_without_warning', case, 'a row was skipped without a warning')
    for k, (e, r) in enumerate(zip(exp, P)):
        g = RD.describe(r)
        bad = []
        if g['shape'] != e['shape']:
            bad.append(f'shape {g["shape"]}, expected {e["shape"]}')
        else:
            if g['coords'] != e['coords']:
                bad.append(f'coordinates {g["coords"]}, expected {e["coords"]}')
            if e['sizes'] is not None and g['sizes'] != e['sizes']:
                bad.append(f'sizes {g["sizes"]}, expected {e["sizes"]}')
            if 'angle' in e and g['angle'] != e['angle']:
                bad.append(f'angle {g["angle"]}, expected {e["angle"]}')
            if g['include'] != e['include']:
                bad.append(f'include {g["include"]}, expected {e["include"]}')
            if g['component'] != e['component']:
                bad.append(f'component {g["component"]}, expected {e["component"]}')
        if bad:
            res.violation(ID, 'read_wrong', case, f'table {[x[0] for x in rows]} with columns {sorted(have)}, ROTANG cells {list(rots)}: '
                                                  f'region {k}: ' + '; '.join(bad), e, g)


def read_lattice_cases(tier):
    out = []
    for k1 in ROW_KINDS:
        for k2 in ROW_KINDS:
            for cols in COLUMN_PATTERNS:
                rotsets = [(a, b) for a in ROT_CELLS for b in ROT_CELLS] if cols in ('all', 'all_component') else [(0.0, 0.0)]
                if tier == 'quick' and cols == 'all_component':
                    rotsets = [(25.0, 25.0)]
                for rots in rotsets:
                    out.append({'rows': [k1, k2], 'rotang': list(rots), 'columns': cols})
    return out


# ------------------------------------------------------------------ driver --
def list_cases(tier):
    out = []
    incs = ['absent', 'all_false', 'alt_0_1'] if tier == 'quick' else INC_PATTERNS
    comps = ['absent', 'from_zero', 'partial', 'partial_desc', 'partial_mixed', 'zero_then_absent', 'big'] if tier == 'quick' else COMP_PATTERNS
    media = ['memory', 'file', 'file_multi', 'file_ext'] if tier == 'quick' else ['memory', 'file', 'file_region', 'file_multi', 'file_ext']
    maxlen = 2 if tier == 'quick' else 3
    lists = []
    for L in range(1, maxlen + 1):
        lists += [list(t) for t in itertools.product(CAT, repeat=L)]
    n = len(CAT)
    for L in range(4, 9):
        for s in range(n):
            lists.append([CAT[(s + k) % n] for k in range(L)])
    for names in lists:
        for incp in incs:
            for compp in comps:
                for m in media:
                    if m == 'file_region' and len(names) != 1:
                        continue
                    if m == 'file_multi' and (len(names) in (2, 3) or incp != incs[-1]):
                        continue
                    if m == 'file_ext' and (len(names) in (2, 3) or incp != incs[0] or compp != comps[0]):
                        continue
                    if m != 'memory' and tier == 'quick' and len(names) == 2 and (incp != 'absent' and compp != 'absent'):
                        continue
                    if m != 'memory' and tier == 'thorough' and len(names) == 3 and not (incp == 'alt_0_1' and compp == 'partial'):
                        continue
                    out.append({'names': names, 'inc': incp, 'comp': compp, 'medium': m, 'insert': None})
    for L in (0, 1, 2):
        for names in itertools.product(CAT[::2] if tier == 'quick' else CAT, repeat=L):
            for pos in range(L + 1):
                for kind in NONREP:
                    out.append({'names': list(names), 'inc': 'first_false' if L else 'absent', 'comp': 'absent', 'medium': 'memory', 'insert': [pos, kind]})
                    if L < 2 and pos == 0:
                        out.append({'names': list(names), 'inc': 'first_false' if L else 'absent', 'comp': 'absent', 'medium': 'file_over', 'insert': [pos, kind]})
                    if L == 2:
                        # members with given component numbers keep them when a member before / between / after them is skipped
                        out.append({'names': list(names), 'inc': 'absent', 'comp': 'all', 'medium': 'memory', 'insert': [pos, kind]})
                    if L < 2:
                        for n in (2, 3):
                            out.append({'names': list(names), 'inc': 'first_false' if L else 'absent', 'comp': 'absent', 'medium': 'memory', 'insert': [pos, kind, n]})
    return out


def shards(tier, seed):
    out = []
    for ch in chunks(list_cases(tier), 64 if tier == 'quick' else 192):
        out.append({'kind': 'lists', 'cases': ch['cases']})
    out.append({'kind': 'read'})
    for ch in chunks(read_lattice_cases(tier), 16):
        out.append({'kind': 'read_lattice', 'cases': ch['cases']})
    return out


def run_shard(shard, tier, seed):
    res = Result()
    if shard['kind'] == 'lists':
        for c in shard['cases']:
            res.states += 1
            check_list(res, c['names'], c['inc'], c['comp'], c['medium'], tuple(c['insert']) if c['insert'] else None)
        res.sample({'op': 'list', **shard['cases'][-1]})
    elif shard['kind'] == 'read_lattice':
        for c in shard['cases']:
            res.states += 1
            check_read_lattice(res, c['rows'][0], c['rows'][1], tuple(c['rotang']), c['columns'])
    else:
        for n in READ_NAMES:
            res.states += 1
            check_read(res, n)
        res.sample({'op': 'read', 'names': READ_NAMES})
    return res


def replay(case):
    res = Result()
    if case['op'] == 'list':
        check_list(res, case['names'], case['inc'], case['comp'], case['medium'], tuple(case['insert']) if case.get('insert') else None)
    elif case['op'] == 'read_lattice':
        check_read_lattice(res, case['rows'][0], case['rows'][1], tuple(case['rotang']), case['columns'])
    else:
        check_read(res, case['name'])
    return res
