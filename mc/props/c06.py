"""C06 -- pixel <-> sky conversion round-trips and membership is conversion-invariant.

Engine E2 (bounded-exhaustive lattice).  One state = one (pixel region spec, WCS spec)
configuration.  For every configuration the real conversions are executed and compared with
numbers that never went through the library:

leg A  pixel -> sky -> pixel.  ``P = build(spec)``; ``S1 = P.to_sky(w)``; ``P2 = S1.to_pixel(w)``.
       * class of S1 is the sky counterpart of P's class, class of P2 is P's class (a regular polygon
         has no sky counterpart: the library converts it to a PolygonSkyRegion and back to a
         PolygonPixelRegion; "corresponding class" is read as polygon there and the vertices are
         compared with the reference vertices of the regular polygon);
       * every coordinate of P2 equals the SPEC's number within
             1e-9 px + 1e-6 x (distance from the reference pixel + size of the region) + R,
         R = 64 ulp(360 deg) / scale being the pixel equivalent of the rounding of a world longitude
         stored in degrees (1.3e-6 px at 0.01 arcsec/px, 3.6e-11 px at 0.1 deg/px);
         every length within 1e-6 relative, the angle within 1e-6 deg modulo 180 (all shapes with an angle are
         symmetric under a half turn, so that is the same geometry), text string equal,
         operator of a compound identical, operands recursively (component-wise conversion);
       * meta and visual of S1 AND of P2 are dict-equal to the original's (include flag included).
         Text regions with a ``rotation`` visual: the sky value differs by design (it is not judged,
         only its presence), the value after the round trip must be the original within 1e-6 deg (it is an
         angle; the library derives the north angle from a 1 arcsec step, which at 0.1 deg/px is 0.003 px and
         amplifies the 1e-16 rad rounding of a frame transformation to some 1e-9 deg -- measured 8e-9 deg in FK4).
leg B  sky -> pixel -> sky.  ``S0`` is built by the harness from longitudes / latitudes obtained with
       astropy's ``wcs.pixel_to_world`` of the spec's coordinates (frame = the WCS's own celestial frame),
       angular sizes = pixels x cdelt, the same angle, the same meta/visual;  ``P3 = S0.to_pixel(w)``;
       ``S3 = P3.to_sky(w)``.  Classes as above; every position of S3 within
             1e-9 arcsec + 1e-6 x (angular distance from crval + angular size) + 64 ulp(360 deg)
       (own Vincenty separation) of S0's, lengths 1e-6 relative, angle 1e-6 deg mod 180; meta/visual of P3
       and S3 dict-equal to S0's (text rotation as above).  If S3's coordinates come back in another
       frame they are transformed to S0's frame by astropy first (the statement does not speak about frames).
membership  sky positions ``sc = wcs.pixel_to_world(q)`` for C01's shape-frame query lattice q of the spec.
       ``a = S1.contains(sc, w)`` and ``b = S1.to_pixel(w).contains(PixCoord.from_sky(sc, w))`` must be the
       same answers: same shape and element-wise equal on ALL queries (array query and one scalar query).
       Point / line / text sky regions answer with one plain bool whatever the query shape (see
       ``PointSkyRegion.contains``); "gives the same answers" is read generously: a scalar is accepted
       when every element of b equals it.  Both a and b must equal the reference membership of the
       ORIGINAL pixel spec (``geometry.Ref.member_flagged``, include flag applied) on every *robust* query:
       reference sure and unchanged under displacements of
             d = 4e-6 x (largest distance of a query from the reference pixel + size) + 4 R + 1e-7 px,
       i.e. twice what the round-trip tolerances above allow the pixel image to move.  This removes the
       rings at 1 +- 2^-10 for small shapes and keeps 0.99 / 1.01.

Configurations whose own positions (coordinates and queries) do not survive astropy's
pixel -> world -> pixel to 1e-6 px (outside the projection's domain, NaN) are skipped and counted in
the evidence axis ``skipped`` (none occurs in the declared lattice; the guard exists for replay of
edited cases).

Why the 1e-6 tolerances are tight enough here: both directions evaluate the SAME local linearisation
(scale and north angle at the same sky position), so the round trip is exact up to rounding even where
the projection is strongly non-linear (CAR at 29 deg from the reference point); no projection
non-linearity is ever compared with 1e-6.  A mistake made consistently in both directions is
invisible here by construction -- that is C07's subject.

VERIF_SEED: the quick tier enumerates the full product projection x rotation x parity x frame (96 WCS)
and pairs scale and crval with them cyclically; the seed only shifts the phase of that pairing.  The
thorough tier crosses the full 6-axis WCS product for ICRS / FK5 / Galactic (864 WCS) plus FK4 x projection
x rotation x scale x parity with crval paired cyclically (96 WCS; a FK4 state costs five times the others
because astropy runs its FK4 -> FK4 self-transformation in every world_to_pixel, and the frame is opaque to
the library) with every geometry and centre and the two
"diagonal" (include, decoration) variants -- that part does not depend on the seed -- and crosses the
two remaining (include, decoration) variants with the 96-WCS sub-lattice of the quick tier (phase =
seed).  Nothing is random.
"""
import math
import operator
import warnings

import numpy as np

from mc.result import Result
from mc import catalog as K
from mc.oracles import geometry as G
from mc.oracles import wcsref as W

ID = 'C06'
LEVEL = 'model_checking'
ENGINE = 'E2-lattice'
FILES = ['regions/_utils/wcs_helpers.py', 'regions/shapes/circle.py', 'regions/shapes/ellipse.py',
         'regions/shapes/rectangle.py', 'regions/shapes/polygon.py', 'regions/shapes/annulus.py',
         'regions/shapes/point.py', 'regions/shapes/line.py', 'regions/shapes/text.py',
         'regions/core/compound.py', 'regions/core/core.py', 'regions/core/pixcoord.py']
RULE = ('full Cartesian product of region spec (25 geometry variants of 12 classes incl. 3 compounds of two x centre x '
        '(include flag, meta/visual decoration) variant) x WCS spec (projection x rotation x scale x parity x frame x crval); '
        'one state = one (spec, WCS); per state: to_sky, to_pixel (leg A), harness-built sky region -> to_pixel -> to_sky '
        '(leg B), on every fourth state (chosen by a hash of state index and WCS, so that every geometry meets every frame pair) the '
        'same sky region re-expressed in another frame than the WCS\'s {FK5 J1975, FK5 B1950.0 equinox, Galactic, ICRS} -> to_pixel '
        '-> to_sky with positions = astropy images of its own coordinates and every length ratio inside the range of local scales '
        'over 16 directions of both frames (leg C), SkyRegion.contains vs pixel-image contains on the C01 query lattice (array; one scalar query on every '
        'second state) vs reference membership; a state is non-trivial when the WCS is rotated, flipped or non-TAN and the '
        'region has robust members and robust non-members')
BOUNDS = {
    'quick': '96 WCS = {TAN,SIN,CAR} x rot {0,30,137,-90} x parity {std,flipped} x {ICRS,FK5,FK4,Galactic}, scale '
             '{2.8e-6,1e-4,1e-2,0.1 deg/px} and crval {(40,20),(0,0),(266,-29)} paired cyclically (phase = VERIF_SEED); '
             '25 geometry variants x centres {crpix, +(250.25,150.5)} x {(include absent, no meta), (include False, '
             'meta+visual)} = 100 region specs',
    'thorough': 'main: 960 WCS = full product of the six axes for ICRS/FK5/Galactic (864) + FK4 x projection x rotation x scale x parity with crval paired cyclically (96) x 25 geometry variants x 3 centres {crpix, +(30.25,-40.5), '
                '+(250.25,150.5)} x {(include absent, no meta), (include False, meta+visual)} = 150 region specs; '
                'off-diagonal: the 96 WCS of the quick sub-lattice x 25 x 3 x {(include False, no meta), (include absent, '
                'meta+visual)}, so include x decoration is a full product there (the handling of meta/visual does not '
                'involve the WCS; the split keeps the run under 10 minutes, one FK4 state costs ~95 ms)',
}
ASSUMPTIONS = [
    'astropy.wcs pixel_to_world / world_to_pixel, SkyCoord construction and frame transformation are trusted',
    'positions are compared with 1e-6 x (distance from the reference pixel or point + region size) + 1e-9 px '
    '(1e-9 arcsec) + the rounding of a world longitude stored in degrees (64 ulp(360 deg), divided by the scale for pixels)',
    'a regular polygon converts to a polygon (no regular-polygon sky class exists); accepted as the corresponding class',
    'point/line/text sky regions answer contains() with one bool for any query shape; accepted when all pixel answers equal it',
    'membership is compared with the reference only on robust queries (margin >= twice the round-trip tolerance)',
    'leg C: the angle of a sky region is measured from the north of its own frame, so it is not judged when the region frame differs '
    'from the WCS frame; lengths are only required to lie within the directional range of the local scale (non-conformal projections)',
    'the frame in which a converted sky region is expressed is not judged (coordinates are transformed by astropy if it differs)',
]

META = {'text': 't', 'tag': ['a']}
VISUAL = {'color': 'red'}
TEXT_VISUAL = {'color': 'red', 'rotation': 15.0}

PROJS = ['TAN', 'SIN', 'CAR']
ROTS = [0.0, 30.0, 137.0, -90.0]
SCALES = [1e-4, 2.8e-6, 1e-2, 0.1]
PARITY = [False, True]
FRAME_NAMES = ['icrs', 'fk5', 'fk4', 'galactic']
CRVALS = [(40.0, 20.0), (0.0, 0.0), (266.0, -29.0)]
OFFSETS = [(0.0, 0.0), (30.25, -40.5), (250.25, 150.5)]

NAME = {'circle': 'Circle', 'ellipse': 'Ellipse', 'rectangle': 'Rectangle', 'polygon': 'Polygon', 'regpoly': 'RegularPolygon',
        'circleannulus': 'CircleAnnulus', 'ellipseannulus': 'EllipseAnnulus', 'rectangleannulus': 'RectangleAnnulus',
        'point': 'Point', 'line': 'Line', 'text': 'Text', 'compound': 'Compound'}
CONVERTED = dict(NAME, regpoly='Polygon')          # class after any conversion
SIZES = {'circle': ['radius'], 'ellipse': ['width', 'height'], 'rectangle': ['width', 'height'],
         'circleannulus': ['inner_radius', 'outer_radius'],
         'ellipseannulus': ['inner_width', 'inner_height', 'outer_width', 'outer_height'],
         'rectangleannulus': ['inner_width', 'inner_height', 'outer_width', 'outer_height'],
         'polygon': [], 'regpoly': [], 'point': [], 'line': [], 'text': []}
ANGLED = ('ellipse', 'rectangle', 'ellipseannulus', 'rectangleannulus')
OPS = {'and': operator.and_, 'or': operator.or_, 'xor': operator.xor, 'andnot': G.op_andnot}


# ===================================================================== lattice ==
def wcs_specs(tier, seed):
    out = []
    if tier == 'quick':
        for ip, proj in enumerate(PROJS):
            for ir, rot in enumerate(ROTS):
                for ipa, flip in enumerate(PARITY):
                    for ifr, fr in enumerate(FRAME_NAMES):
                        sc = SCALES[(ip + ir + ifr + seed) % len(SCALES)]
                        cv = CRVALS[(ir + ipa + ifr + seed) % len(CRVALS)]
                        out.append(W.wspec(proj, rot, sc, flip, fr, cv))
                        if (ip + ir + ipa + ifr + seed) % 4 == 2 and fr != 'fk4':
                            out[-1]['latfirst'] = True      # the latitude on the first world axis (CTYPE1 = DEC-- / GLAT-)
        return out
    for ip, proj in enumerate(PROJS):
        for ir, rot in enumerate(ROTS):
            for isc, sc in enumerate(SCALES):
                for ipa, flip in enumerate(PARITY):
                    for fr in FRAME_NAMES:
                        # FK4: every world_to_pixel runs astropy's FK4 -> FK4 self-transformation (e-terms), one state
                        # costs ~95 ms instead of ~20 ms; the frame is opaque to the library, so FK4 is crossed with
                        # projection x rotation x scale x parity fully and with crval cyclically
                        cvs = CRVALS if fr != 'fk4' else [CRVALS[(ip + ir + isc + ipa) % len(CRVALS)]]
                        for icv, cv in enumerate(cvs):
                            out.append(W.wspec(proj, rot, sc, flip, fr, cv))
                            if (ip + ir + isc + ipa + icv) % 4 == 2 and fr != 'fk4':
                                out[-1]['latfirst'] = True
    return out


def geometries(c):
    """The 24 un-decorated geometry variants centred at c (sizes from a few pixels to ~40 pixels)."""
    c = [float(c[0]), float(c[1])]
    c2 = [c[0] + 1.0, c[1] - 0.5]
    a30 = [30.0, 'deg', 'quantity']
    a123 = K.angle_spec(123.4, 'rad', 'angle')
    am75 = [-75.0, 'deg', 'quantity']
    return [
        {'cls': 'circle', 'center': c, 'radius': 2.5},
        {'cls': 'circle', 'center': c, 'radius': 20.0},
        {'cls': 'ellipse', 'center': c, 'width': 7.5, 'height': 2.5, 'angle': a30},
        {'cls': 'ellipse', 'center': c, 'width': 12.0, 'height': 40.0, 'angle': am75},
        {'cls': 'rectangle', 'center': c, 'width': 2.5, 'height': 7.5, 'angle': a30},
        {'cls': 'rectangle', 'center': c, 'width': 36.0, 'height': 20.0, 'angle': a123},
        K.polygon_spec('ell', 1.0, c),
        K.polygon_spec('dodecagon', 5.0, c),
        {'cls': 'regpoly', 'center': c, 'n': 5, 'radius': 4.0, 'angle': [12.0, 'deg', 'quantity']},
        {'cls': 'regpoly', 'center': c, 'n': 3, 'radius': 20.0, 'angle': am75},
        {'cls': 'circleannulus', 'center': c, 'inner_radius': 1.5, 'outer_radius': 4.0},
        {'cls': 'circleannulus', 'center': c, 'inner_radius': 10.0, 'outer_radius': 20.0},
        {'cls': 'ellipseannulus', 'center': c, 'inner_width': 3.0, 'inner_height': 2.0, 'outer_width': 8.0,
         'outer_height': 6.0, 'angle': [45.0, 'deg', 'quantity']},
        {'cls': 'ellipseannulus', 'center': c, 'inner_width': 16.0, 'inner_height': 10.0, 'outer_width': 40.0,
         'outer_height': 24.0, 'angle': am75},
        {'cls': 'rectangleannulus', 'center': c, 'inner_width': 2.0, 'inner_height': 1.5, 'outer_width': 7.0,
         'outer_height': 5.0, 'angle': [10.0, 'deg', 'quantity']},
        {'cls': 'rectangleannulus', 'center': c, 'inner_width': 10.0, 'inner_height': 16.0, 'outer_width': 24.0,
         'outer_height': 40.0, 'angle': a123},
        {'cls': 'point', 'center': c},
        {'cls': 'line', 'start': c, 'end': [c[0] + 3.0, c[1] - 1.5]},
        {'cls': 'line', 'start': c, 'end': [c[0] - 30.0, c[1] + 25.0]},
        {'cls': 'text', 'center': c, 'text': 'a label'},
        # a label drawn upright: rotation 0 is a value like any other (it is shifted by the north angle and back)
        {'cls': 'text', 'center': c, 'text': 'upright', 'visual': {'rotation': 0.0}},
        {'cls': 'compound', 'op': 'or',
         'r1': {'cls': 'circle', 'center': c, 'radius': 2.5},
         'r2': {'cls': 'rectangle', 'center': c2, 'width': 2.5, 'height': 7.5, 'angle': a123}},
        {'cls': 'compound', 'op': 'and',
         'r1': {'cls': 'ellipse', 'center': c, 'width': 40.0, 'height': 12.0, 'angle': a30},
         'r2': K.polygon_spec('dodecagon', 5.0, c2)},
        # a caller-supplied operator that is not commutative (set difference): operand order matters
        {'cls': 'compound', 'op': 'andnot',
         'r1': {'cls': 'rectangle', 'center': c, 'width': 36.0, 'height': 20.0, 'angle': a30},
         'r2': {'cls': 'circle', 'center': c2, 'radius': 9.0}},
        {'cls': 'compound', 'op': 'xor',
         'r1': {'cls': 'regpoly', 'center': c, 'n': 5, 'radius': 4.0, 'angle': [12.0, 'deg', 'quantity']},
         'r2': {'cls': 'circleannulus', 'center': c2, 'inner_radius': 1.5, 'outer_radius': 4.0}},
        # both operands are shapes without area (their membership answers are plain booleans, not arrays)
        {'cls': 'compound', 'op': 'or',
         'r1': {'cls': 'point', 'center': c},
         'r2': {'cls': 'line', 'start': c2, 'end': [c2[0] + 3.0, c2[1] - 1.5]}},
        {'cls': 'compound', 'op': 'xor',
         'r1': {'cls': 'text', 'center': c, 'text': 'a label'},
         'r2': {'cls': 'point', 'center': c2}},
    ]


def decorate(g, inc, deco):
    """include flag x decoration.  Compounds: operand 1 carries the flag (and the decoration); an undecorated
    compound inherits operand 1's meta (the library shares it), a decorated one gets its own meta/visual
    and its own include flag (so the flag is applied twice, once by the operand and once by the compound)."""
    s = dict(g)
    if g['cls'] == 'compound':
        r1 = dict(g['r1'])
        if inc != 'absent':
            r1['include'] = inc
        if deco:
            r1['meta'] = META
            r1['visual'] = VISUAL
            s['include'] = inc
            s['meta'] = {'text': 'c'}
            s['visual'] = {'color': 'blue'}
        s['r1'] = r1
        return s
    if inc != 'absent':
        s['include'] = inc
    if deco:
        s['meta'] = META
        s['visual'] = {**TEXT_VISUAL, **g.get('visual', {})} if g['cls'] == 'text' else VISUAL
    return s


DIAG = [('absent', False), (False, True)]          # (include, decorated)
OFFDIAG = [(False, False), ('absent', True)]


def region_specs(tier, part='main'):
    """quick: 25 geometries x centres {reference pixel, +(250.25,150.5)} x DIAG.
    thorough 'main': 25 geometries x 3 centres x DIAG (crossed with all 1152 WCS);
    thorough 'offdiag': 25 geometries x 3 centres x OFFDIAG (crossed with the 96 WCS of the quick sub-lattice), so
    that include {absent, False} x decoration {empty, meta+visual} is a full product on that sub-lattice."""
    offs = [OFFSETS[0], OFFSETS[2]] if tier == 'quick' else OFFSETS
    decos = OFFDIAG if part == 'offdiag' else DIAG
    out = []
    for io, off in enumerate(offs):
        c = (W.REFPIX[0] + off[0], W.REFPIX[1] + off[1])
        for g in geometries(c):
            for inc, deco in decos:
                # the exclusion flag is spelt False at the first centre and 0 (what the DS9 reader stores) at the others
                out.append(decorate(g, 0 if (inc is False and io > 0) else inc, deco))
    return out


# ============================================================ expectation helpers ==
def want_meta(spec):
    """(meta, visual) dicts the region built from the spec observably carries."""
    if spec['cls'] == 'compound' and spec.get('include', 'inherit') == 'inherit':
        return want_meta(spec['r1'])
    m = {}
    if spec.get('include', 'absent') != 'absent':
        m['include'] = spec['include']
    m.update(spec.get('meta') or {})
    return m, dict(spec.get('visual') or {})


def sky_spec(spec, w, ws):
    """Sky counterpart of a pixel spec, computed by the harness: positions through astropy's pixel_to_world,
    angular sizes = pixels x cdelt (degrees), same angle / text / meta.  JSON-able."""
    cls = spec['cls']
    if cls == 'compound':
        s = dict(spec)
        s['r1'] = sky_spec(spec['r1'], w, ws)
        s['r2'] = sky_spec(spec['r2'], w, ws)
        return s
    s = {k: v for k, v in spec.items() if k not in ('center', 'start', 'end', 'vertices', 'n', 'radius', 'name') and k not in
         SIZES.get(cls, [])}
    if cls == 'regpoly':
        ref = G.Ref(spec)
        px, py = ref.vx, ref.vy
        s['cls'] = 'polygon'
        s.pop('angle', None)
    elif cls == 'polygon':
        px, py = np.array(spec['vertices'][0], float), np.array(spec['vertices'][1], float)
    elif cls == 'line':
        px, py = np.array([spec['start'][0], spec['end'][0]], float), np.array([spec['start'][1], spec['end'][1]], float)
    else:
        px, py = np.array([spec['center'][0]], float), np.array([spec['center'][1]], float)
    lon, lat = W.lonlat(W.to_world(w, px, py))
    s['lon'] = [float(v) for v in lon]
    s['lat'] = [float(v) for v in lat]
    for name in SIZES.get(cls, []):
        s[name] = float(spec[name]) * ws['scale']
    return s


def build_sky(s, frame):
    """Real sky region from a sky spec (degrees) in the given (data-less) frame."""
    import astropy.units as u
    from astropy.coordinates import SkyCoord
    import regions as R
    cls = s['cls']
    if cls == 'compound':
        r1, r2 = build_sky(s['r1'], frame), build_sky(s['r2'], frame)
        kw = {}
        if s.get('include', 'inherit') != 'inherit':
            meta, vis = G._meta(s)
            kw = {'meta': meta, 'visual': vis}
        return R.CompoundSkyRegion(r1, r2, OPS[s['op']], **kw)
    meta, vis = G._meta(s)
    kw = {'meta': meta, 'visual': vis}
    with warnings.catch_warnings():
        warnings.simplefilter('ignore')
        if cls == 'polygon':
            return R.PolygonSkyRegion(SkyCoord(np.array(s['lon']) * u.deg, np.array(s['lat']) * u.deg, frame=frame), **kw)
        pts = [SkyCoord(lo * u.deg, la * u.deg, frame=frame) for lo, la in zip(s['lon'], s['lat'])]
    c = pts[0]
    ang = G._angle_obj(s.get('angle'))
    akw = {} if ang is None else {'angle': ang}
    # every size of one region comes in its own angular unit (the same angle, converted by astropy)
    UN = {'radius': u.arcsec, 'inner_radius': u.arcmin, 'outer_radius': u.arcsec, 'width': u.arcsec, 'height': u.arcmin,
          'inner_width': u.arcmin, 'outer_width': u.deg, 'inner_height': u.arcsec, 'outer_height': u.rad}
    q = lambda name: (s[name] * u.deg).to(UN[name])      # noqa
    if cls == 'circle':
        return R.CircleSkyRegion(c, q('radius'), **kw)
    if cls == 'ellipse':
        return R.EllipseSkyRegion(c, q('width'), q('height'), **akw, **kw)
    if cls == 'rectangle':
        return R.RectangleSkyRegion(c, q('width'), q('height'), **akw, **kw)
    if cls == 'circleannulus':
        return R.CircleAnnulusSkyRegion(c, q('inner_radius'), q('outer_radius'), **kw)
    if cls in ('ellipseannulus', 'rectangleannulus'):
        Kl = R.EllipseAnnulusSkyRegion if cls == 'ellipseannulus' else R.RectangleAnnulusSkyRegion
        return Kl(c, q('inner_width'), q('outer_width'), q('inner_height'), q('outer_height'), **akw, **kw)
    if cls == 'point':
        return R.PointSkyRegion(c, **kw)
    if cls == 'text':
        return R.TextSkyRegion(c, s.get('text', 'hello'), **kw)
    if cls == 'line':
        return R.LineSkyRegion(pts[0], pts[1], **kw)
    raise ValueError(cls)


class _Ctx:
    def __init__(self, res, case):
        self.res, self.case, self.ok = res, case, True

    def bad(self, kind, msg, expected=None, observed=None):
        self.ok = False
        self.res.violation(ID, kind, self.case, msg, expected, observed)


def _plain(d):
    """dict content with numpy scalars turned into python numbers (for messages / JSON)."""
    return {k: (v.item() if isinstance(v, np.generic) else v) for k, v in dict(d).items()}


def cmp_meta(cx, reg, spec, leg, final, path='', recurse=True):
    """meta / visual of a converted region against the spec's.  ``final``: the region is back in the
    original kind (the text rotation must be restored); otherwise the rotation value is not judged."""
    wm, wv = want_meta(spec)
    gm, gv = _plain(reg.meta), _plain(reg.visual)
    if gm != wm:
        cx.bad('meta_changed', f'{leg}{path}: meta is {gm!r}, the original region has {wm!r}', repr(wm), repr(gm))
    rot_w = wv.get('rotation') if spec['cls'] == 'text' else None
    if rot_w is not None:
        rot_g = gv.get('rotation')
        gv2 = {k: v for k, v in gv.items() if k != 'rotation'}
        wv2 = {k: v for k, v in wv.items() if k != 'rotation'}
        if gv2 != wv2 or rot_g is None:
            cx.bad('visual_changed', f'{leg}{path}: visual is {gv!r}, the original region has {wv!r}', repr(wv), repr(gv))
        elif final:
            try:
                dd = abs(W.angle_diff_deg(float(rot_g), float(rot_w)))
            except (TypeError, ValueError):
                dd = float('inf')
            if not dd <= 1e-6:
                cx.bad('text_rotation_not_restored', f'{leg}{path}: visual rotation is {rot_g!r} after the round trip, '
                                                     f'originally {rot_w!r}', rot_w, repr(rot_g))
    elif gv != wv:
        cx.bad('visual_changed', f'{leg}{path}: visual is {gv!r}, the original region has {wv!r}', repr(wv), repr(gv))
    if recurse and spec['cls'] == 'compound' and hasattr(reg, 'region1') and hasattr(reg, 'region2'):
        cmp_meta(cx, reg.region1, spec['r1'], leg, final, path + '.region1')
        cmp_meta(cx, reg.region2, spec['r2'], leg, final, path + '.region2')


def cmp_class(cx, reg, spec, kind, leg, path=''):
    want = CONVERTED[spec['cls']] + ('PixelRegion' if kind == 'pixel' else 'SkyRegion')
    got = type(reg).__name__
    if got != want:
        cx.bad('class_wrong', f'{leg}{path}: conversion returned a {got}, corresponding class is {want}', want, got)
        return False
    if spec['cls'] == 'compound':
        if reg.operator is not OPS[spec['op']]:
            cx.bad('operator_changed', f'{leg}{path}: operator is {reg.operator!r}, originally {spec["op"]}', spec['op'], repr(reg.operator))
        a = cmp_class(cx, reg.region1, spec['r1'], kind, leg, path + '.region1')
        b = cmp_class(cx, reg.region2, spec['r2'], kind, leg, path + '.region2')
        return a and b
    return True


def _cmp_len(cx, leg, what, got, want):
    if not abs(got - want) <= 1e-6 * abs(want):
        cx.bad('length_wrong', f'{leg}: {what} is {got!r}, originally {want!r} (relative deviation {abs(got - want) / abs(want):.3g} > 1e-6)', want, got)


def _cmp_angle(cx, leg, what, got, want):
    # ellipses, rectangles and their annuli are symmetric under a half turn: an angle that differs by 180 deg
    # describes the same geometry, which is all the statement asks for ("same geometry")
    d = W.angle_diff_deg(got, want, 180.0)
    if not abs(d) <= 1e-6:
        cx.bad('angle_wrong', f'{leg}: {what} is {got!r} deg, originally {want!r} deg (difference {d:.6g} deg modulo 180 > 1e-6)', want, got)


def cmp_pixel(cx, reg, spec, ws, leg, path='P2'):
    """Geometry of a pixel region that came back from the sky against the SPEC's numbers (classes already checked)."""
    cls = spec['cls']
    if cls == 'compound':
        cmp_pixel(cx, reg.region1, spec['r1'], ws, leg, path + '.region1')
        cmp_pixel(cx, reg.region2, spec['r2'], ws, leg, path + '.region2')
        return
    ext = W.extent_of(spec)
    rnd = W.pos_round_pix(ws)

    def pos(what, gx, gy, wx, wy):
        gx, gy = np.atleast_1d(np.asarray(gx, float)), np.atleast_1d(np.asarray(gy, float))
        wx, wy = np.atleast_1d(np.asarray(wx, float)), np.atleast_1d(np.asarray(wy, float))
        if gx.shape != wx.shape or gy.shape != wy.shape:
            cx.bad('position_wrong', f'{leg}: {path}.{what} has shape {gx.shape}, originally {wx.shape}', list(wx.shape), list(gx.shape))
            return
        tol = 1e-9 + 1e-6 * (np.hypot(wx - W.REFPIX[0], wy - W.REFPIX[1]) + ext) + rnd
        err = np.hypot(gx - wx, gy - wy)
        k = int(np.argmax(err - tol))
        if not np.all(err <= tol):
            cx.bad('position_wrong', f'{leg}: {path}.{what}[{k}] is ({float(gx[k])!r}, {float(gy[k])!r}), originally ({float(wx[k])!r}, {float(wy[k])!r}); '
                                     f'deviation {err[k]:.3g} px > tolerance {tol[k]:.3g} px', [float(wx[k]), float(wy[k])], [float(gx[k]), float(gy[k])])
    if cls in ('polygon', 'regpoly'):
        ref = G.Ref(spec)
        pos('vertices', reg.vertices.x, reg.vertices.y, ref.vx, ref.vy)
    elif cls == 'line':
        pos('start', reg.start.x, reg.start.y, spec['start'][0], spec['start'][1])
        pos('end', reg.end.x, reg.end.y, spec['end'][0], spec['end'][1])
    else:
        pos('center', reg.center.x, reg.center.y, spec['center'][0], spec['center'][1])
    for name in SIZES[cls]:
        _cmp_len(cx, leg, f'{path}.{name}', float(getattr(reg, name)), float(spec[name]))
    if cls in ANGLED:
        _cmp_angle(cx, leg, f'{path}.angle', W.angle_deg(reg.angle), G.rad(spec.get('angle')) / W.DEG)
    if cls == 'text' and reg.text != spec.get('text', 'hello'):
        cx.bad('text_changed', f'{leg}: {path}.text is {reg.text!r}, originally {spec.get("text")!r}', spec.get('text'), reg.text)


def cmp_sky(cx, reg, s, ws, frame, leg, path='S3'):
    """Geometry of a sky region that came back from the image against the sky spec's numbers."""
    cls = s['cls']
    if cls == 'compound':
        cmp_sky(cx, reg.region1, s['r1'], ws, frame, leg, path + '.region1')
        cmp_sky(cx, reg.region2, s['r2'], ws, frame, leg, path + '.region2')
        return
    if cls == 'polygon':
        coords = [('vertices', reg.vertices)]
    elif cls == 'line':
        coords = [('start', reg.start), ('end', reg.end)]
    else:
        coords = [('center', reg.center)]
    wlon, wlat = np.array(s['lon'], float), np.array(s['lat'], float)
    if cls == 'polygon':
        ext = float(max(W.sep_deg(wlon[0], wlat[0], wlon, wlat)))
    elif cls == 'line':
        ext = float(W.sep_deg(wlon[0], wlat[0], wlon[1], wlat[1]))
    else:
        ext = max([s[n] for n in SIZES[cls]] + [0.0])
    i = 0
    for what, sc in coords:
        if sc.frame.name != frame.name:
            with warnings.catch_warnings():
                warnings.simplefilter('ignore')
                sc = sc.transform_to(frame)
        glon, glat = W.lonlat(sc)
        glon, glat = np.atleast_1d(glon), np.atleast_1d(glat)
        n = glon.size
        wl, wb = wlon[i:i + n], wlat[i:i + n]
        i += n
        if cls == 'polygon' and n != wlon.size:
            cx.bad('position_wrong', f'{leg}: {path}.vertices has {n} vertices, originally {wlon.size}', int(wlon.size), int(n))
            return
        tol = 1e-9 / 3600.0 + 1e-6 * (W.sep_deg(ws['crval'][0], ws['crval'][1], wl, wb) + ext) + W.pos_round_deg()
        err = W.sep_deg(glon, glat, wl, wb)
        if not np.all(err <= tol):
            k = int(np.argmax(err - tol))
            cx.bad('position_wrong', f'{leg}: {path}.{what}[{k}] is (lon, lat) = ({float(glon[k])!r}, {float(glat[k])!r}) deg, originally ({float(wl[k])!r}, {float(wb[k])!r}); '
                                     f'separation {err[k] * 3600:.3g} arcsec > tolerance {tol[k] * 3600:.3g} arcsec',
                   [float(wl[k]), float(wb[k])], [float(glon[k]), float(glat[k])])
    for name in SIZES[cls]:
        _cmp_len(cx, leg, f'{path}.{name} [deg]', W.angle_deg(getattr(reg, name)), float(s[name]))
    if cls in ANGLED:
        _cmp_angle(cx, leg, f'{path}.angle', W.angle_deg(reg.angle), G.rad(s.get('angle')) / W.DEG)
    if cls == 'text' and reg.text != s.get('text', 'hello'):
        cx.bad('text_changed', f'{leg}: {path}.text is {reg.text!r}, originally {s.get("text")!r}', s.get('text'), reg.text)


def _areal_free(spec):
    """The region is a point / line / text, or a compound of such: its sky classes answer with one bool for any query."""
    if spec['cls'] == 'compound':
        return _areal_free(spec['r1']) and _areal_free(spec['r2'])
    return spec['cls'] in G.EMPTY


def _same_answers(a, b, empty_cls):
    """None if a (sky answer) and b (pixel-image answer) are the same answers, else a description."""
    sa, sb = np.shape(a), np.shape(b)
    if sa == sb:
        if np.array_equal(np.asarray(a, bool), np.asarray(b, bool)):
            return None
        n = int(np.sum(np.asarray(a, bool) != np.asarray(b, bool)))
        return f'{n} of {int(np.size(b))} answers differ'
    if empty_cls and sa == () and bool(np.all(np.asarray(b, bool) == bool(a))):
        return None          # one bool standing for equal answers everywhere (point / line / text)
    return f'sky answer has shape {sa} (value {a!r}), pixel-image answer has shape {sb}' if sa == () else \
        f'sky answer has shape {sa}, pixel-image answer has shape {sb}'


# ------------------------------------------------ leg C: a sky region expressed in ANOTHER frame than the WCS's --
OTHER_FRAMES = ['fk5_j1975', 'galactic', 'icrs', 'fk5_b1950eq']


def _other_frame(name):
    from astropy.coordinates import FK5, Galactic, ICRS
    from astropy.time import Time
    return {'fk5_j1975': lambda: FK5(equinox=Time('J1975')), 'galactic': Galactic, 'icrs': ICRS,
            'fk5_b1950eq': lambda: FK5(equinox=Time('B1950'))}[name]()


def _dir_scales(w, c, frames):
    """Local pixel scale [pixel / deg] at sky position c in 16 directions of each of the given frames (1 arcsec
    probes placed and converted by astropy): (min, max)."""
    import astropy.units as u
    out = []
    x0, y0 = w.world_to_pixel(c)
    for fr in frames:
        cf = c.transform_to(fr)
        for k in range(16):
            p = cf.directional_offset_by(k * 22.5 * u.deg, 1 * u.arcsec)
            x1, y1 = w.world_to_pixel(p)
            out.append(math.hypot(float(x1) - float(x0), float(y1) - float(y0)) * 3600.0)
    return min(out), max(out)


def _to_other(s, frame, frame2):
    """The sky spec with its coordinates re-expressed in frame2 (astropy's transformation, trusted)."""
    import astropy.units as u
    from astropy.coordinates import SkyCoord
    if s['cls'] == 'compound':
        return dict(s, r1=_to_other(s['r1'], frame, frame2), r2=_to_other(s['r2'], frame, frame2))
    with warnings.catch_warnings():
        warnings.simplefilter('ignore')
        c = SkyCoord(np.array(s['lon']) * u.deg, np.array(s['lat']) * u.deg, frame=frame).transform_to(frame2)
    lon, lat = W.lonlat(c)
    return dict(s, lon=[float(v) for v in np.atleast_1d(lon)], lat=[float(v) for v in np.atleast_1d(lat)])


def _sky_points(reg, cls):
    if cls == 'polygon':
        return [('vertices', reg.vertices)]
    if cls == 'line':
        return [('start', reg.start), ('end', reg.end)]
    return [('center', reg.center)]


def _pix_points(reg, cls):
    if cls == 'polygon':
        return [('vertices', reg.vertices)]
    if cls == 'line':
        return [('start', reg.start), ('end', reg.end)]
    return [('center', reg.center)]


def check_other_frame(cx, res, ss, ws, w, frame, fname, path=''):
    """Sky region built in frame ``fname`` (not the WCS's frame) -> pixel -> sky.  Positions must be the WCS images of
    the region's own coordinates (astropy) and back; every length divided by its sky length must lie between the
    smallest and the largest local scale over all directions at the centre (the scale the library takes along the
    region frame's north is one of them), both ways.  Angles are relative to the frame's north and are not judged."""
    frame2 = _other_frame(fname)
    s2 = _to_other(ss, frame, frame2)
    S0 = build_sky(s2, frame2)
    if s2['cls'] == 'line':
        # the two end points of a line need not share a frame: the start in the other frame, the end in the WCS's
        import regions as R
        end_wcs = build_sky(ss, frame).end
        S0 = R.LineSkyRegion(S0.start, end_wcs, meta=S0.meta, visual=S0.visual)
    leg = f'leg C (sky region in {fname} -> pixel)'
    P3 = _call(cx, 'leg C: to_pixel', lambda: S0.to_pixel(w))
    res.transitions += 1
    if P3 is None:
        return
    S3 = _call(cx, 'leg C: to_pixel(...).to_sky', lambda: P3.to_sky(w))
    res.transitions += 1

    def walk(sp, a, b, c, pth):
        if sp['cls'] == 'compound':
            for k in ('region1', 'region2'):
                if not all(hasattr(o, k) for o in (a, b) if o is not None):
                    cx.bad('class_wrong', f'{leg}: {pth} lost its operands')
                    return
            walk(sp['r1'], a.region1, b.region1, None if c is None else getattr(c, 'region1', None), pth + '.region1')
            walk(sp['r2'], a.region2, b.region2, None if c is None else getattr(c, 'region2', None), pth + '.region2')
            return
        cls = sp['cls']
        want_cls = CONVERTED[cls] + 'PixelRegion'
        if type(b).__name__ != want_cls:
            cx.bad('class_wrong', f'{leg}: {pth} is a {type(b).__name__}, expected {want_cls}', want_cls, type(b).__name__)
            return
        # positions: pixel image = astropy's image of the region's own coordinates
        for (what, sc), (_, pc) in zip(_sky_points(a, cls), _pix_points(b, cls)):
            x, y = w.world_to_pixel(sc)
            gx, gy = np.atleast_1d(pc.x).astype(float), np.atleast_1d(pc.y).astype(float)
            x, y = np.atleast_1d(x).astype(float), np.atleast_1d(y).astype(float)
            if gx.shape != x.shape:
                cx.bad('position_wrong', f'{leg}: {pth}.{what} has {gx.size} positions, originally {x.size}')
                return
            tol = 1e-6 * (np.hypot(x - W.REFPIX[0], y - W.REFPIX[1]) + 1.0) + 1e-7 + 4.0 * W.pos_round_pix(ws)
            err = np.hypot(gx - x, gy - y)
            if not np.all(err <= tol):
                k = int(np.argmax(err - tol))
                cx.bad('position_wrong', f'{leg}: {pth}.{what}[{k}] is pixel ({gx[k]!r}, {gy[k]!r}); the WCS image of the region\'s own '
                                         f'coordinate is ({x[k]!r}, {y[k]!r}) (off by {err[k]:.3g} px > {tol[k]:.3g})',
                       [float(x[k]), float(y[k])], [float(gx[k]), float(gy[k])])
        if SIZES.get(cls):
            lo, hi = _dir_scales(w, a.center, [frame2, frame])
            for name in SIZES[cls]:
                sky_len = W.angle_deg(getattr(a, name))
                pix_len = float(getattr(b, name))
                ratio = pix_len / sky_len
                if not (lo * (1 - 1e-6) <= ratio <= hi * (1 + 1e-6)):
                    cx.bad('size_wrong', f'{leg}: {pth}.{name} = {pix_len!r} px for {sky_len!r} deg: {ratio!r} px/deg, but the local scale at '
                                         f'the centre lies between {lo!r} and {hi!r} px/deg in every direction', [lo, hi], ratio)
                if c is not None and hasattr(c, name):
                    back = W.angle_deg(getattr(c, name))
                    r2 = pix_len / back if back else float('inf')
                    if not (lo * (1 - 1e-6) <= r2 <= hi * (1 + 1e-6)):
                        cx.bad('size_wrong', f'leg C (sky region in {fname} -> pixel -> sky): {pth}.{name} = {back!r} deg for {pix_len!r} px: '
                                             f'{r2!r} px/deg, local scale between {lo!r} and {hi!r} px/deg', [lo, hi], r2)
        if c is not None and type(c).__name__ == CONVERTED[cls] + 'SkyRegion':
            for (what, sc0), (_, sc3) in zip(_sky_points(a, cls), _sky_points(c, cls)):
                with warnings.catch_warnings():
                    warnings.simplefilter('ignore')
                    t3 = sc3.transform_to(sc0.frame)
                l0, b0 = W.lonlat(sc0)
                l3, b3 = W.lonlat(t3)
                err = np.atleast_1d(W.sep_deg(l3, b3, l0, b0))
                x, y = w.world_to_pixel(sc0)
                dist = np.atleast_1d(np.hypot(np.asarray(x, float) - W.REFPIX[0], np.asarray(y, float) - W.REFPIX[1]))
                tol = (1e-6 * (dist + 1.0) + 1e-7 + 4.0 * W.pos_round_pix(ws)) * ws['scale'] + W.pos_round_deg() + 1e-9 / 3600.0
                if err.shape == np.shape(tol) and not np.all(err <= tol):
                    k = int(np.argmax(err - tol))
                    cx.bad('position_wrong', f'leg C (sky region in {fname} -> pixel -> sky): {pth}.{what}[{k}] came back '
                                             f'{err[k] * 3600:.3g} arcsec away (tolerance {np.atleast_1d(tol)[k] * 3600:.3g} arcsec)')
        elif c is not None:
            cx.bad('class_wrong', f'leg C: {pth} came back as a {type(c).__name__}', CONVERTED[cls] + 'SkyRegion', type(c).__name__)

    try:
        walk(s2, S0, P3, S3, 'P3')
    except Exception as exc:          # noqa: BLE001
        if _lib_frame(exc):
            cx.bad('unexpected_exception', f'leg C raised {type(exc).__name__}: {exc}')
        else:
            raise


def _lib_frame(exc):
    import traceback
    tb = traceback.extract_tb(exc.__traceback__)
    return bool(tb) and '/regions/' in tb[-1].filename


# ======================================================================= check ==
def _call(cx, what, fn):
    try:
        with warnings.catch_warnings():
            warnings.simplefilter('ignore')
            return fn()
    except Exception as exc:     # every conversion / contains of the lattice must succeed
        cx.bad('unexpected_exception', f'{what} raised {type(exc).__name__}: {exc}')
        return None


DECOR_KEYS = ('include', 'meta', 'visual')


def strip(spec):
    """The bare geometry of a (decorated) spec."""
    s = {k: v for k, v in spec.items() if k not in DECOR_KEYS}
    if spec['cls'] == 'compound':
        s['r1'], s['r2'] = strip(spec['r1']), strip(spec['r2'])
    return s


def with_decor(target, spec):
    """target (a bare pixel or sky spec of the same structure) carrying the decoration of spec."""
    t = dict(target)
    for k in DECOR_KEYS:
        if k in spec:
            t[k] = spec[k]
    if spec['cls'] == 'compound':
        t['r1'], t['r2'] = with_decor(target['r1'], spec['r1']), with_decor(target['r2'], spec['r2'])
    return t


def prepare(geom, ws):
    """Everything of a configuration that depends on the bare geometry and the WCS only (shared by the
    include / decoration variants): query lattice, its sky positions, domain guard, reference membership of
    the included shape, robustness, the sky spec."""
    w = W.make_wcs(ws)
    pts = np.array(W.coords_of(geom), float)
    qx, qy = G.shape_frame_queries(geom)
    allx, ally = np.concatenate([pts[:, 0], qx]), np.concatenate([pts[:, 1], qy])
    ok, sc_all = W.domain_ok(w, allx, ally)
    pre = {'geom': geom, 'w': w, 'ok': ok, 'pts': pts, 'qx': qx, 'qy': qy}
    if not ok:
        return pre
    pre['sc'] = sc_all[len(pts):]
    pre['frame'] = sc_all.frame.replicate_without_data()
    pre['sky'] = sky_spec(geom, w, ws)
    dmax = float(np.max(np.hypot(qx - W.REFPIX[0], qy - W.REFPIX[1])))
    d = 4e-6 * (dmax + W.extent_of(geom)) + 4.0 * W.pos_round_pix(ws) + 1e-7
    geo, sure = G.Ref(geom).member(qx, qy)
    pre['d'] = d
    pre['geo'] = np.array(geo, bool)
    pre['rb'] = np.array(sure, bool) & W.robust(geom, qx, qy, d)
    return pre


def check_config(res, spec, ws, index=0, pre=None):
    from regions import PixCoord
    case = {'spec': spec, 'wcs': ws, 'index': index}
    cx = _Ctx(res, case)
    cls = spec['cls']
    res.evaluations += 1
    if pre is None:
        pre = prepare(strip(spec), ws)
    w, pts, qx, qy = pre['w'], pre['pts'], pre['qx'], pre['qy']
    if not pre['ok']:
        res.axis('skipped', f'{cls} {W.wcs_tag(ws)}')
        return
    sc = pre['sc']
    res.states += 1
    rotated = ws['rot'] % 360.0 != 0.0
    for name, val in (('cls', cls), ('proj', ws['proj']), ('rot', ws['rot']), ('scale', ws['scale']), ('flip', ws['flip']),
                      ('frame', ws['frame']), ('crval', tuple(ws['crval'])),
                      ('offset', min(OFFSETS, key=lambda o: math.hypot(pts[0][0] - W.REFPIX[0] - o[0], pts[0][1] - W.REFPIX[1] - o[1]))),
                      ('include', spec.get('include', 'absent' if cls != 'compound' else 'inherit')),
                      ('decorated', bool(spec.get('meta')))):
        res.axis(name, val)
    P = G.build(spec)

    # ------------------------------------------------------------ leg A: pixel -> sky -> pixel
    P2 = None
    from mc import fingerprint as _FP
    fpP = _FP.fp(P)
    S1 = _call(cx, 'leg A: to_sky', lambda: P.to_sky(w))
    res.transitions += 1
    if _FP.fp(P) != fpP:
        cx.bad('conversion_mutates_input', f'to_sky changed the {cls} pixel region it was called on')
    if S1 is not None:
        if cmp_class(cx, S1, spec, 'sky', 'leg A (pixel->sky)', ' S1'):
            cmp_meta(cx, S1, spec, 'leg A (pixel->sky) S1', final=False)
        fpS1 = _FP.fp(S1)
        P2 = _call(cx, 'leg A: to_sky(...).to_pixel', lambda: S1.to_pixel(w))
        res.transitions += 1
        if _FP.fp(S1) != fpS1:
            cx.bad('conversion_mutates_input', f'to_pixel changed the {cls} sky region it was called on')
        if P2 is not None:
            if cmp_class(cx, P2, spec, 'pixel', 'leg A (pixel->sky->pixel)', ' P2'):
                cmp_meta(cx, P2, spec, 'leg A (pixel->sky->pixel) P2', final=True)
                cmp_pixel(cx, P2, spec, ws, 'leg A (pixel->sky->pixel)')
            else:
                P2 = None

    # ------------------------------------------------------------ leg B: sky -> pixel -> sky
    frame = pre['frame']
    ss = with_decor(pre['sky'], spec)
    S0 = build_sky(ss, frame)
    P3 = _call(cx, 'leg B: to_pixel', lambda: S0.to_pixel(w))
    res.transitions += 1
    if P3 is not None:
        if cmp_class(cx, P3, ss, 'pixel', 'leg B (sky->pixel)', ' P3'):
            cmp_meta(cx, P3, ss, 'leg B (sky->pixel) P3', final=False)
        S3 = _call(cx, 'leg B: to_pixel(...).to_sky', lambda: P3.to_sky(w))
        res.transitions += 1
        if S3 is not None and cmp_class(cx, S3, ss, 'sky', 'leg B (sky->pixel->sky)', ' S3'):
            cmp_meta(cx, S3, ss, 'leg B (sky->pixel->sky) S3', final=True)
            cmp_sky(cx, S3, ss, ws, frame, 'leg B (sky->pixel->sky)')

    # ------------------------------------------------------------ leg C: the sky region lives in another frame
    import zlib
    hsel = index + zlib.crc32(W.wcs_tag(ws).encode())       # every geometry x decoration meets every other frame over the WCS product
    if hsel % 4 == 1 and ws['frame'] != 'fk4':
        others = [f for f in OTHER_FRAMES if f != ws['frame']]
        fname = others[(hsel // 4) % len(others)]
        res.axis('region_frame_other_than_wcs', f"{fname} in {ws['frame']}")
        res.axis('leg_c_cls', cls)
        check_other_frame(cx, res, ss, ws, w, frame, fname)

    # ------------------------------------------------------------ membership
    nontriv = False
    if S1 is not None and P2 is not None:
        want, _ = G.Ref(spec).member_flagged(qx, qy)      # include flags of the spec applied
        want = np.array(want, bool)
        d, rb, geo = pre['d'], pre['rb'], pre['geo']
        nontriv = bool((geo & rb).any() and (~geo & rb).any())
        a = _call(cx, 'SkyRegion.contains(array)', lambda: S1.contains(sc, w))
        pc = _call(cx, 'PixCoord.from_sky(array)', lambda: PixCoord.from_sky(sc, w))
        if pc is not None and index % 8 == 0:
            # the converted positions in the 1-based convention are the 0-based ones plus one (both modes)
            for mode in ('all', 'wcs'):
                p0 = _call(cx, f'PixCoord.from_sky(origin=0, mode={mode})', lambda: PixCoord.from_sky(sc, w, origin=0, mode=mode))
                p1 = _call(cx, f'PixCoord.from_sky(origin=1, mode={mode})', lambda: PixCoord.from_sky(sc, w, origin=1, mode=mode))
                res.transitions += 2
                if p0 is not None and p1 is not None:
                    dev = float(np.max(np.hypot(np.asarray(p1.x) - np.asarray(p0.x) - 1.0, np.asarray(p1.y) - np.asarray(p0.y) - 1.0)))
                    if not dev <= 1e-8:
                        cx.bad('from_sky_origin_inconsistent', f'PixCoord.from_sky(origin=1, mode={mode!r}) is not from_sky(origin=0) + 1 '
                                                               f'(largest deviation {dev:.3g} px)')
        b = None if pc is None else _call(cx, 'pixel image contains(array)', lambda: P2.contains(pc))
        res.transitions += 2
        if a is not None and b is not None:
            diff = _same_answers(a, b, _areal_free(spec))
            if diff:
                cx.bad('contains_sky_vs_pixel_image', f'sky.contains(sc, wcs) and sky.to_pixel(wcs).contains(PixCoord.from_sky(sc, wcs)) '
                                                      f'disagree on {qx.size} positions: {diff}')
            for who, ans in (('sky.contains', a), ('pixel image contains', b)):
                arr = np.asarray(ans, bool)
                if arr.shape == ():
                    arr = np.broadcast_to(arr, qx.shape)
                if arr.shape != qx.shape:
                    continue            # reported above (or a C01 matter for the pixel image)
                wrong = (arr != want) & rb
                if wrong.any():
                    k = int(np.flatnonzero(wrong)[0])
                    cx.bad('membership_vs_reference',
                           f'{who}: {int(wrong.sum())} of {int(rb.sum())} robust positions answered differently from the reference '
                           f'membership of the original pixel region (first: pixel ({float(qx[k])!r}, {float(qy[k])!r}), got {bool(arr[k])}, '
                           f'reference {bool(want[k])})', bool(want[k]), bool(arr[k]))
                    break
        # compounds: a batch for all of whose positions operand 1 answers False (and one for operand 2) -- the answer for a
        # position must not depend on what else is in the batch
        if cls == 'compound' and a is not None and np.shape(a) == qx.shape:
            for opn in ('r1', 'r2'):
                try:
                    inside_op, _s = G.Ref(spec[opn]).member_flagged(qx, qy)       # the operand's own answer (its include flag applied)
                except Exception:          # noqa: BLE001 -- nested operand without a simple reference
                    continue
                sub = np.flatnonzero(~np.asarray(inside_op, bool) & rb)
                if sub.size < 2:
                    continue
                a_sub = _call(cx, f'SkyRegion.contains(batch outside {opn})', lambda: S1.contains(sc[sub], w))
                res.transitions += 1
                if a_sub is not None and (np.shape(a_sub) != sub.shape or np.any(np.asarray(a_sub, bool) != np.asarray(a, bool)[sub])):
                    cx.bad('contains_depends_on_batch', f'sky compound: the answers for the {sub.size} robust positions outside {opn} differ when '
                                                        f'they are asked alone from when they are asked together with the other positions')
        # one scalar query on every second configuration (alternating between the two decoration variants of
        # consecutive geometries): a robust member or a robust non-member, alternating every four configurations
        cand = np.flatnonzero(rb & (want if (index >> 2) % 2 == 0 else ~want))
        if cand.size == 0:
            cand = np.flatnonzero(rb)
        if cand.size and ((index >> 1) + index) % 2 == 0:
            k = int(cand[len(cand) // 2])
            sk = sc[k]
            a1 = _call(cx, 'SkyRegion.contains(scalar)', lambda: S1.contains(sk, w))
            pc1 = _call(cx, 'PixCoord.from_sky(scalar)', lambda: PixCoord.from_sky(sk, w))
            b1 = None if pc1 is None else _call(cx, 'pixel image contains(scalar)', lambda: P2.contains(pc1))
            res.transitions += 2
            if a1 is not None and b1 is not None:
                diff = _same_answers(a1, b1, _areal_free(spec))
                if diff:
                    cx.bad('contains_sky_vs_pixel_image', f'scalar query at pixel ({float(qx[k])!r}, {float(qy[k])!r}): {diff} '
                                                          f'(sky {a1!r}, pixel image {b1!r})')
                elif bool(np.all(np.asarray(a1, bool))) != bool(want[k]) or np.size(a1) != 1:
                    cx.bad('membership_vs_reference', f'scalar query at pixel ({float(qx[k])!r}, {float(qy[k])!r}): sky.contains gave {a1!r}, '
                                                      f'reference membership of the original pixel region {bool(want[k])}', bool(want[k]), repr(a1))
        # the answer must follow the sky region's *current* state: flip its include flag in place and ask again
        # with the same WCS object (differential oracle: the pixel image of the edited region)
        if a is not None and index % 3 == 0 and not _areal_free(spec):
            try:
                S1.meta['include'] = not bool(S1.meta.get('include', True))
                a2 = S1.contains(sc, w)
                b2 = S1.to_pixel(w).contains(PixCoord.from_sky(sc, w))
                res.transitions += 2
                diff = _same_answers(a2, b2, False)
                if diff:
                    cx.bad('contains_after_edit', f'after flipping include on the sky region, sky.contains and the pixel image of the edited '
                                                  f'region disagree: {diff}')
                elif np.asarray(a).shape == np.asarray(a2).shape and bool(np.any((np.asarray(a2, bool) == np.asarray(a, bool)) & rb)):
                    cx.bad('contains_after_edit', 'after flipping include on the sky region, robust positions keep their old answer')
            except Exception as exc:
                cx.bad('unexpected_exception', f'contains after editing the sky region raised {type(exc).__name__}: {exc}')
        if res.states <= 2:
            res.sample({'spec': spec, 'wcs': ws, 'n_queries': int(qx.size), 'n_robust': int(rb.sum()), 'robust_margin_px': d,
                        'sky': repr(S1)[:240]})
    if nontriv and not W.is_plain(ws):
        res.nontriv((spec, ws))
    res.outcome((cls, ws['proj'], 'rotated' if rotated else 'unrotated', 'flipped' if ws['flip'] else 'standard',
                 'members+nonmembers' if nontriv else 'no-membership-contrast', cx.ok))


# ---------------------------------------------------------------- distorted WCS --
DISTORTED = [{'proj': 'TAN', 'rot': 30.0, 'cdelt': 1e-4, 'ctype': 'RA/DEC', 'crval': [266.0, -29.0], 'sip': True},
             {'proj': 'TAN', 'rot': 0.0, 'cdelt': 0.01, 'ctype': 'RA/DEC', 'crval': [40.0, 20.0], 'sip': True},
             {'proj': 'TAN', 'rot': 30.0, 'cdelt': 1e-4, 'ctype': 'RA/DEC', 'crval': [40.0, 20.0], 'sip': False, 'lookup': True}]
DIST_CENTRES = [(180.0, 250.0), (-120.0, 90.0), (49.0, 59.0)]


def check_distorted(res, ws, ic, ig):
    """A WCS with a distortion term (SIP polynomial, lookup table): a sky region contains a sky position exactly when the
    pixel region it converts to contains the pixel that position falls on -- under the complete transformation, the
    one ``wcs.pixel_to_world`` applies.  Queries are pixels; those within 2e-3 pixel of the converted region's
    boundary are left out (the inverse of a distorted transformation is iterative)."""
    import astropy.units as u
    from regions import PixCoord
    from mc.props.c20 import build_wcs
    w = build_wcs(ws)
    c = DIST_CENTRES[ic]
    geo = geometries(c)[ig]
    case = {'part': 'distorted', 'wcs': ws, 'ic': ic, 'ig': ig, 'cls': geo['cls']}
    res.states += 1
    res.evaluations += 1
    res.axis('distorted_wcs', ('SIP' if ws['sip'] else 'lookup') + f" rot {ws['rot']:g} scale {ws['cdelt']:g}")
    try:
        preg = G.build(geo)
        sreg = preg.to_sky(w)
        back = sreg.to_pixel(w)
    except Exception as exc:      # noqa: BLE001
        res.violation(ID, 'unexpected_exception', case, f'{geo["cls"]}: to_sky / to_pixel with a distorted WCS raised {type(exc).__name__}: {exc}')
        return
    ext = 30.0
    n = 25
    gx = c[0] + (np.arange(n) - (n - 1) / 2.0) * (2.0 * ext / n) + 0.013
    gy = c[1] + (np.arange(n) - (n - 1) / 2.0) * (2.0 * ext / n) - 0.007
    GX, GY = (a.ravel() for a in np.meshgrid(gx, gy))
    qx, qy = G.shape_frame_queries(geo, 12)
    GX, GY = np.concatenate([GX, qx]), np.concatenate([GY, qy])
    sc = w.pixel_to_world(GX, GY)
    res.transitions += 1
    try:
        got = np.asarray(sreg.contains(sc, w), bool)
    except Exception as exc:      # noqa: BLE001
        res.violation(ID, 'unexpected_exception', case, f'{geo["cls"]}: contains with a distorted WCS raised {type(exc).__name__}: {exc}')
        return
    base = np.asarray(back.contains(PixCoord(GX, GY)), bool)
    sure = np.ones(GX.shape, bool)
    for k in range(8):
        a = 2.0 * math.pi * k / 8.0
        sure &= np.asarray(back.contains(PixCoord(GX + 2e-3 * math.cos(a), GY + 2e-3 * math.sin(a))), bool) == base
    bad = (got != base) & sure
    if (base & sure).any() and (~base & sure).any():
        res.nontriv(('distorted', repr(sorted(ws.items())), ic, ig))
    # how far the distortion moves things here, in pixels (diagnostic for the evidence: the check only bites when this is large)
    try:
        lin = np.asarray(w.wcs_world2pix(np.column_stack([sc.data.lon.deg, sc.data.lat.deg]), 0))
        res.axis('distortion_px_at_least', '>= 0.01' if float(np.hypot(lin[:, 0] - GX, lin[:, 1] - GY).max()) >= 0.01 else '< 0.01')
    except Exception:      # noqa: BLE001
        pass
    res.outcome(('distorted', geo['cls'], 'ok' if not bad.any() else 'BAD'))
    if bad.any():
        k = int(np.flatnonzero(bad)[0])
        res.violation(ID, 'membership_wrong', case,
                      f'{geo["cls"]} with a distorted WCS: {int(bad.sum())} of {int(sure.sum())} robust positions: the sky region answers differently from '
                      f'the pixel region it converts to at the pixel the position falls on; first: pixel ({GX[k]!r}, {GY[k]!r}): sky region '
                      f'{bool(got[k])}, pixel region {bool(base[k])}', bool(base[k]), bool(got[k]))


def distorted_cases():
    ngeo = len(geometries((0.0, 0.0)))
    return [{'part': 'distorted', 'wcs': ws, 'ic': ic, 'ig': ig} for ws in DISTORTED for ic in range(len(DIST_CENTRES)) for ig in range(ngeo)]


# =================================================================== framework ==
def shards(tier, seed):
    """One shard = a few WCS x all region specs of its part.  FK4 costs five times the other frames (astropy's
    FK4 -> FK4 self-transformation inside every world_to_pixel), so FK4 shards are smaller and scheduled first."""
    if tier == 'quick':
        return [{'part': 'main', 'cases': [ws]} for ws in sorted(wcs_specs(tier, seed), key=lambda v: v['frame'] != 'fk4')] + \
            [{'part': 'distorted'}]
    allw = wcs_specs(tier, seed)
    slow = [ws for ws in allw if ws['frame'] == 'fk4']
    fast = [ws for ws in allw if ws['frame'] != 'fk4']
    out = [{'part': 'main', 'cases': slow[k::96]} for k in range(96)]
    out += [{'part': 'offdiag', 'cases': part} for part in
            [sorted(wcs_specs('quick', seed), key=lambda v: v['frame'] != 'fk4')[k::32] for k in range(32)]]
    out += [{'part': 'main', 'cases': fast[k::144]} for k in range(144)]
    out.append({'part': 'distorted'})
    return out


def run_shard(shard, tier, seed):
    res = Result()
    if shard.get('part') == 'distorted':
        for c in distorted_cases():
            check_distorted(res, c['wcs'], c['ic'], c['ig'])
        return res
    specs = region_specs(tier, shard.get('part', 'main'))
    for ws in shard['cases']:
        pre, key = None, None
        for i, spec in enumerate(specs):
            g = strip(spec)
            if g != key:
                key, pre = g, prepare(g, ws)
            check_config(res, spec, ws, i, pre)
    return res


def replay(case):
    res = Result()
    if case.get('part') == 'distorted':
        check_distorted(res, case['wcs'], case['ic'], case['ig'])
        return res
    check_config(res, case['spec'], case['wcs'], case.get('index', 0))
    return res
