"""C15 -- membership, area, boxes and masks follow the region under rigid motions.

Engine E2 (bounded-exhaustive lattice), two sub-lattices.

ROTATION.  For every (region spec, rotation centre c, rotation angle theta) of the
lattice the real ``R = reg.rotate(c, theta)`` is called and compared with the
reference model of ``mc.oracles.geometry`` (own rotation ``G.rot``, own unit
table ``G.UNIT``):

* class            ``type(R) is type(reg)`` (operands of compounds recursively);
* metadata         ``R.meta == reg.meta`` and ``R.visual == reg.visual`` (dict equality; the
                   statement says "same metadata" -- an *independent* copy is not demanded
                   here, that is C16's business);
* untouched        the bit-exact fingerprint ``fp(reg)`` is identical before the call, right
                   after it and after everything else done with R;
* area             ``R.area == reg.area`` to 1e-12 relative (parametric shapes: additionally
                   against the analytic reference area).  Polygons and regular polygons compute
                   the area from vertices that carry the rounding of the rotation itself
                   (a few ulp of the largest coordinate, e.g. 2e-12 pixel at x = 8192), so their
                   tolerance is 1e-12 relative + 64 ulp(largest coordinate) x perimeter (derived:
                   a vertex displacement e changes the area by at most e x perimeter).  Compounds
                   raise NotImplementedError for ``area`` (before and after): not applicable;
* parameters       independent parameter-level oracle: centre / vertices / line ends equal the
                   ORACLE-rotated ones within 1e-9 x (1 + lever arm + |c| + |coordinates|); sizes,
                   vertex count, text, operator bit-identical to the original's; the angle equals
                   own angle + theta in radians (own unit table) to 1e-12 x (1 + |angle| + |theta|);
                   compound operands: each rotated about the SAME centre.  Where the statement is
                   silent an angle that differs by a whole number of turns is accepted (the library
                   does not wrap, so this never triggers) and the container type of the angle
                   (Quantity vs Angle) is not judged;
* membership       query positions q are generated in the shape frame (C01's query lattice, both
                   sides of the boundary down to 2^-10 relative); q' = q rotated about c by theta
                   with the ORACLE rotation (so a bug shared by ``PixCoord.rotate`` on both sides
                   cannot cancel).  Demanded:  R.contains(q') == reg.contains(q)  (the literal
                   statement) and  R.contains(q') == reference membership of q (xor include flag).
                   Guard: q' and R's own centre carry rounding of the order 1e-15 x (|c| + lever
                   arm), far more than the reference's ordinary guard band knows about.  A query
                   is used only if it is "wide-sure": the reference is sure at q AND stays on the
                   same side (and sure) at the 8 positions q + d(cos, sin)(k 45 deg) with
                   d = 1e-9 x (1 + max|q| + |c| + largest lever arm)  (i.e. >= 10^5 times the
                   actual rounding; for (regular) polygons instead: distance to the nearest edge
                   > 4 d).  The closest generated queries sit 2^-10 relative (>= 1.2e-4 pixel for
                   the smallest size 0.25) from the boundary, d is below 3e-5, so both sides
                   of the boundary stay populated;
* rotating back    ``B = R.rotate(c, -theta)`` restores every parameter of reg: positions within
                   1e-9 x (1 + |coordinates| + lever arm), sizes bit-identical, angle within 1e-9 deg
                   (compared in degrees via the own unit table), derived vertices of regular
                   polygons, operands of compounds recursively, class and metadata.

TRANSLATION.  Regions whose positional parameters are dyadic rationals (centres k/8, sizes
k/4, polygon vertices k/8 .. k/2^20) are translated by T in {+-1, +-7, +-100, +-10^4}^2 (all 64
pairs) by adding T to the numbers of the *spec* (exactness of every addition is asserted with
``fractions.Fraction``; no library method translates anything).  Demanded:
``bounding_box`` of the translated region == box of the original shifted by T (four integers,
exactly) and ``to_mask(mode).data`` bit-identical (dtype, shape, bytes) in modes 'center',
'subpixels' n in {2, 5} and 'exact'; ``mask.bbox`` shifted by T.  Mode/class combinations the
library does not implement (NotImplementedError on the original: 'exact' for rectangle /
polygon, everything but 'center' for annuli and compounds, every mode for point/line/text)
must raise the same on the translated copy and are not judged further (C02 decides what must
be supported).

Regular polygons compute their vertices with trigonometry, so their translates are not exact
in floating point.  They are covered through the equivalent ``PolygonPixelRegion`` built from
``RegularPolygonPixelRegion.to_polygon()`` vertices rounded to multiples of 2^-20 (a dyadic
generic polygon); bounding boxes of regular polygons themselves are not judged.

Excepted (counted per (spec, T) in the evidence axis ``tr_excepted``): a bounding-box mismatch by exactly one
pixel on a side where the TRUE extent of a rotated ellipse / rectangle (or of a part of an annulus / compound)
lies within 1e-9 of a pixel edge (k + 1/2).  That extent is an irrational number evaluated with rounding
(cos/sin), both boxes are boxes of the mathematical region there (e.g. an ellipse with width == height at
30 deg is a circle whose extent cx - a*sqrt(cos^2 + sin^2) lands on the edge up to 1 ulp), and
fl(cx + T - dx) need not equal fl(cx - dx) + T.  Masks of such a pair have different shapes and are not
compared; whenever the boxes agree the masks are compared as usual.  Sides of un-rotated shapes are never
excepted (all arithmetic is exact there).

Mask differences are classified with exact rational arithmetic: for polygons a differing pixel
is "edge-explained" when the difference is at most (number of its n x n sub-samples lying
EXACTLY on a polygon edge) / n^2.  Differences confined to such pixels are reported with
kind ``mask_changed_edge_samples`` (the library's polygon kernel works in absolute coordinates
with a non-dyadic sample step, so samples that lie mathematically on an edge are decided by
position-dependent rounding); any other difference is kind ``mask_changed``.  Both are
violations of the statement as written ("leaves its mask array, in every mode, unchanged").

VERIF_SEED only decides, in the quick tier, which of the six rotation angles are passed as
``Angle`` (odd positions) rather than ``Quantity``; the thorough tier passes every angle in
both representations and does not depend on it.  Nothing is random.
"""
import math
from fractions import Fraction

import numpy as np

from mc.result import Result
from mc import catalog as K
from mc.lattice import chunks
from mc.oracles import geometry as G
from mc.fingerprint import fp

ID = 'C15'
LEVEL = 'model_checking'
ENGINE = 'E2-lattice'
FILES = ['regions/core/pixcoord.py', 'regions/shapes/circle.py', 'regions/shapes/ellipse.py',
         'regions/shapes/rectangle.py', 'regions/shapes/polygon.py', 'regions/shapes/annulus.py',
         'regions/shapes/line.py', 'regions/shapes/point.py', 'regions/shapes/text.py',
         'regions/core/compound.py', 'regions/core/core.py', 'regions/core/bounding_box.py']
RULE = ('rotation: full Cartesian product of region spec (class x size or size pair x own angle/unit x centre x '
        'include flag; catalogue polygons x scale; regular polygons n x radius x angle; annulus size pairs; ordered '
        'compound operand pairs x {and,or,xor} x include pattern) x rotation centre x rotation angle '
        '(value x unit x Quantity/Angle); one state = one (spec, rotation centre, angle); per state rotate, rotate '
        'back, area, contains on the oracle-rotated C01 query lattice, fingerprint of the original before/after; a '
        'state is non-trivial when wide-sure members and wide-sure non-members both exist among the rotated queries. '
        'translation: full product of dyadic region spec x T in {+-1,+-7,+-100,+-10^4}^2 x mask mode; one state = '
        'one (spec, T); non-trivial when the centre-mode mask has zero and non-zero pixels')
BOUNDS = {
    'quick': 'rotation: sizes {1, 2.5, 7.5} (ellipse/rectangle pairs (1,2.5),(2.5,1),(7.5,7.5),(2.5,7.5)), own angles '
             '{0 deg, 30 deg, 123.4 deg as Angle in rad}, centres {(0.5,-0.25), (8192.125,-3000.5)}, include {absent, '
             'False}, 7 catalogue polygons x scales {1, 2.5}, regular polygons n in {3,5,8}, 3 annulus classes, point/'
             'line/text, 16 ordered compound operand pairs x 3 operators x 2 include patterns; rotation centres {region '
             'centre, (0,0), (-7.25,300)}; angles {30 deg, 90 deg, -123.4 deg, 725 deg, 1 rad, 0.5 hourangle}. '
             'translation: centres {(0.5,-0.25), (3.125,-7.875)}, same sizes/angles, all 64 T, modes center / '
             'subpixels 2,5 / exact',
    'thorough': 'rotation: sizes {0.25, 1, 2.5, 7.5, 160} (all width x height pairs of {1, 2.5, 7.5} + extreme pairs), own '
                'angles {0, 30 deg, 123.4 deg (Angle, rad), -60 deg (arcmin), 725 deg (Angle)}, same centres and include '
                'flags, polygons x scales {0.25, 1, 2.5}, regular polygons n in {3,4,5,6,8}, 49 ordered compound operand '
                'pairs (incl. annulus and nested compound operands) x 3 operators x 4 include patterns; rotation centres '
                '{region centre, (0,0), (-7.25,300), (8192.125,-3000.5)}; angles {30, 90, -123.4, 725 deg, 1 rad, 0.5 '
                'hourangle} x {Quantity, Angle} + {0, 180, 360, 36000.5 deg, 45 deg in arcmin, -60 deg in arcsec}. '
                'translation: centres {(0.5,-0.25), (3.125,-7.875), (0,0), (-2.375,0.5)}, all size pairs, angles '
                '{0,30,90,123.4}, polygons x scales {0.25,0.75,1,2.5}, all 64 T, same modes',
}
ASSUMPTIONS = [
    'numpy elementwise arithmetic and math.cos/sin are trusted (the oracle rotation uses them)',
    'queries closer to the boundary than the widened guard d = 1e-9 x (1 + max|q| + |c| + lever arm) are excepted '
    '(rounding of the rotated position, see module docstring)',
    'polygon / regular-polygon area may change by 64 ulp(largest coordinate) x perimeter under rotation '
    '(rounding of the rotated vertices)',
    'angles differing by whole turns and the Quantity/Angle container type of the rotated angle are accepted',
    'translation: a one-pixel box mismatch on a side where the true, trig-evaluated extent of a rotated ellipse/rectangle is within 1e-9 of a pixel edge is excepted; '
    'regular polygons are covered through the equivalent polygon with vertices rounded to 2^-20',
    'compiled overlap kernels are checked as built (Cython sources cannot be rebuilt in the sandbox)',
]

META = {'text': 't', 'tag': ['a']}
VISUAL = {'color': 'red'}
TWO_PI = 2.0 * math.pi
CENTERED = ('circle', 'ellipse', 'rectangle', 'regpoly', 'point', 'text') + G.ANNULI
SIZE_ATTRS = {
    'circle': ['radius'], 'ellipse': ['width', 'height'], 'rectangle': ['width', 'height'],
    'regpoly': ['nvertices', 'radius'], 'circleannulus': ['inner_radius', 'outer_radius'],
    'ellipseannulus': ['inner_width', 'outer_width', 'inner_height', 'outer_height'],
    'rectangleannulus': ['inner_width', 'outer_width', 'inner_height', 'outer_height'],
    'point': [], 'text': ['text'], 'line': [], 'polygon': [],
}
SPEC_OF_ATTR = {'nvertices': 'n'}


# ===================================================================== lattice ==
def _decor(spec, inc):
    s = dict(spec)
    if inc != 'absent':
        s['include'] = inc
    s['meta'] = META
    s['visual'] = VISUAL
    return s


def _own_angles(tier):
    a = [[0.0, 'deg', 'quantity'], [30.0, 'deg', 'quantity'], K.angle_spec(123.4, 'rad', 'angle')]
    if tier == 'thorough':
        a += [K.angle_spec(-60.0, 'arcmin', 'quantity'), [725.0, 'deg', 'angle']]
    return a


def _pairs(tier):
    if tier == 'quick':
        return [(1.0, 2.5), (2.5, 1.0), (7.5, 7.5), (2.5, 7.5)]
    S = [1.0, 2.5, 7.5]
    return [(w, h) for w in S for h in S] + [(0.25, 1.0), (160.0, 2.5), (0.25, 0.25), (160.0, 160.0)]


def _simple_specs(tier, centres, angles, pairs, sizes, scales, ns):
    """Un-decorated specs of every non-compound class."""
    out = []
    for c in centres:
        c = list(c)
        for r in sizes:
            out.append({'cls': 'circle', 'center': c, 'radius': r})
        for cls in ('ellipse', 'rectangle'):
            for (w, h) in pairs:
                for a in angles:
                    out.append({'cls': cls, 'center': c, 'width': w, 'height': h, 'angle': a})
        for name in K.POLYS:
            for s in scales:
                out.append(K.polygon_spec(name, s, c))
        for n in ns:
            for r in sizes:
                for a in angles:
                    out.append({'cls': 'regpoly', 'center': c, 'n': n, 'radius': r, 'angle': a})
        rr = sorted(sizes)
        for i, ri in enumerate(rr):
            for ro in rr[i + 1:]:
                out.append({'cls': 'circleannulus', 'center': c, 'inner_radius': ri, 'outer_radius': ro})
        for cls in ('ellipseannulus', 'rectangleannulus'):
            for (w, h) in pairs:
                for (fw, fh) in ((1.25, 1.25), (4.0, 1.5)):
                    for a in angles:
                        out.append({'cls': cls, 'center': c, 'inner_width': w, 'inner_height': h,
                                    'outer_width': w * fw, 'outer_height': h * fh, 'angle': a})
        out.append({'cls': 'point', 'center': c})
        out.append({'cls': 'text', 'center': c, 'text': 'a label'})
        out.append({'cls': 'line', 'start': c, 'end': [c[0] + 3.0, c[1] - 1.5]})
    return out


def _operands(c, tier):
    """Simple operands of compounds centred near c (all parameters dyadic)."""
    c = list(c)
    a30 = [30.0, 'deg', 'quantity']
    a123 = K.angle_spec(123.4, 'rad', 'angle')
    ops = [
        {'cls': 'circle', 'center': c, 'radius': 2.5},
        {'cls': 'ellipse', 'center': c, 'width': 7.5, 'height': 2.5, 'angle': a30},
        {'cls': 'rectangle', 'center': c, 'width': 2.5, 'height': 7.5, 'angle': a123},
        K.polygon_spec('ell', 1.0, c),
    ]
    if tier == 'thorough':
        ops += [
            {'cls': 'regpoly', 'center': c, 'n': 5, 'radius': 2.5, 'angle': a30},
            {'cls': 'circleannulus', 'center': c, 'inner_radius': 1.0, 'outer_radius': 2.5},
            {'cls': 'compound', 'op': 'or',
             'r1': {'cls': 'circle', 'center': c, 'radius': 1.0},
             'r2': {'cls': 'rectangle', 'center': [c[0] + 1.0, c[1]], 'width': 2.5, 'height': 1.0, 'angle': a30}},
        ]
    return ops


def _with_inc(spec, inc):
    s = dict(spec)
    if spec['cls'] == 'compound':
        return s                  # nested compound operand: inherits
    if inc != 'absent':
        s['include'] = inc
    return s


def _compound_specs(tier, centres, patterns):
    out = []
    for c in centres:
        A = _operands(c, tier)
        B = _operands((c[0] + 1.0, c[1] - 0.5), tier)
        for a in A:
            for b in B:
                for op in ('and', 'or', 'xor'):
                    for (i1, i2, ic) in patterns:
                        s = {'cls': 'compound', 'op': op, 'r1': _with_inc(a, i1), 'r2': _with_inc(b, i2)}
                        if a['cls'] != 'compound':
                            s['r1']['meta'] = META
                            s['r1']['visual'] = VISUAL
                        if ic != 'inherit':
                            s['include'] = ic
                            s['meta'] = {'text': 'c'}
                            s['visual'] = {'color': 'blue'}
                        out.append(s)
    return out


ROT_CENTRES = [(0.5, -0.25), (8192.125, -3000.5)]


def rot_specs(tier):
    big = tier == 'thorough'
    sizes = [0.25, 1.0, 2.5, 7.5, 160.0] if big else [1.0, 2.5, 7.5]
    scales = [0.25, 1.0, 2.5] if big else [1.0, 2.5]
    ns = (3, 4, 5, 6, 8) if big else (3, 5, 8)
    base = _simple_specs(tier, ROT_CENTRES, _own_angles(tier), _pairs(tier), sizes, scales, ns)
    out = []
    for s in base:
        for inc in ('absent', False):
            out.append(_decor(s, inc))
    # the last pattern gives the compound its own meta/visual/include (different from its first operand's)
    pats = [('absent', 'absent', 'inherit'), (False, 'absent', 'inherit'), ('absent', 'absent', False)]
    if big:
        pats += [('absent', False, 'inherit'), (False, 'absent', True)]
    out += _compound_specs(tier, ROT_CENTRES, pats)
    return out


# 90.4 / -0.2 / 179.55 deg: close to, but not, a quarter turn
BASE_ROT = [[30.0, 'deg'], [90.0, 'deg'], [-123.4, 'deg'], [725.0, 'deg'], [1.0, 'rad'], [0.5, 'hourangle'], [90.4, 'deg'], [-0.2, 'deg'],
            [179.55, 'deg'], [0.0, 'deg'], [-0.0, 'rad'],
            [4000.0, 'arcmin'], [-500.0, 'rad']]      # numeric values beyond 360 in units other than degrees       # the null rotation is a rotation like any other: a new, independent region


def rot_angles(tier, seed):
    if tier == 'quick':
        return [[v, u, 'angle' if (i + seed) % 2 else 'quantity'] for i, (v, u) in enumerate(BASE_ROT)]
    out = [[v, u, k] for (v, u) in BASE_ROT for k in ('quantity', 'angle')]
    out += [[0.0, 'deg', 'quantity'], [180.0, 'deg', 'quantity'], [360.0, 'deg', 'angle'], [36000.5, 'deg', 'quantity'],
            K.angle_spec(45.0, 'arcmin', 'quantity'), K.angle_spec(-60.0, 'arcsec', 'angle')]
    return out


def pivots(tier):
    # 'near': a pivot a few hundredths of a pixel away from the region's own anchor (relative distance < 1e-5 for
    # the far centre): a "pivot equals centre" shortcut based on an approximate comparison would skip the rotation
    p = ['self', [0.0, 0.0], [-7.25, 300.0], 'near']
    if tier == 'thorough':
        p.append([8192.125, -3000.5])
    return p


TVALS = [1, -1, 7, -7, 100, -100, 10 ** 4, -10 ** 4]
TS = [[tx, ty] for tx in TVALS for ty in TVALS]
MODES = [['center', 1], ['subpixels', 2], ['subpixels', 5], ['exact', 1]]


def _regpoly_as_polygon(n, r, a, c):
    """The equivalent polygon of a regular polygon: the library's own to_polygon() vertices rounded to 2^-20."""
    reg = G.build({'cls': 'regpoly', 'center': list(c), 'n': n, 'radius': r, 'angle': a})
    v = reg.to_polygon().vertices
    q = 2.0 ** 20
    return {'cls': 'polygon', 'name': f'regpoly{n}',
            'vertices': [[round(float(x) * q) / q for x in v.x], [round(float(y) * q) / q for y in v.y]]}


def tr_specs(tier):
    big = tier == 'thorough'
    # (0.53125, -7.9375): edges 1/32 and 1/16 pixel away from pixel boundaries (exactly representable at every shift)
    centres = [(0.5, -0.25), (3.125, -7.875), (0.53125, -7.9375)] + ([(0.0, 0.0), (-2.375, 0.5)] if big else [])
    degs = [0.0, 30.0, 90.0, 123.4] if big else [0.0, 30.0, 123.4]
    angles = [[d, 'deg', 'quantity'] for d in degs]
    sizes = [1.0, 2.5, 7.5]
    pairs = [(w, h) for w in sizes for h in sizes] if big else _pairs('quick')
    scales = [0.25, 0.75, 1.0, 2.5] if big else [1.0, 2.5]
    out = [s for s in _simple_specs(tier, centres, angles, pairs, sizes, scales, ()) if s['cls'] != 'regpoly']
    for c in centres:
        for n in ((3, 5, 6, 8) if big else (3, 5)):
            for r in sizes:
                for a in angles[:2]:
                    out.append(_regpoly_as_polygon(n, r, a, c))
    out += _compound_specs('quick', centres[:2], [('absent', 'absent', 'inherit')])
    return out


# ============================================================= reference helpers ==
def anchor(spec):
    """The 'region centre' used as the first rotation centre."""
    c = spec['cls']
    if c == 'compound':
        return anchor(spec['r1'])
    if c == 'line':
        return [float(spec['start'][0]), float(spec['start'][1])]
    if c == 'polygon':
        return [float(np.mean(spec['vertices'][0])), float(np.mean(spec['vertices'][1]))]
    return [float(spec['center'][0]), float(spec['center'][1])]


def coords_of(spec):
    """All positional numbers of a spec (for tolerances)."""
    c = spec['cls']
    if c == 'compound':
        return coords_of(spec['r1']) + coords_of(spec['r2'])
    if c == 'line':
        return [spec['start'], spec['end']]
    if c == 'polygon':
        return [[x, y] for x, y in zip(*spec['vertices'])]
    return [spec['center']]


def lever(spec, cx, cy):
    pts = coords_of(spec)
    return max(math.hypot(p[0] - cx, p[1] - cy) for p in pts), max(max(abs(p[0]), abs(p[1])) for p in pts)


def rad_of(q):
    """Angle of a Quantity in radians by the oracle's own unit table."""
    name = str(q.unit)
    if name in G.UNIT:
        return float(q.value) * G.UNIT[name]
    return float(q.to_value('rad'))       # some other angular unit: no own table entry


def _poly_dist(vx, vy, x, y):
    mind = np.full(np.shape(x), np.inf)
    n = len(vx)
    for i in range(n):
        j = (i + 1) % n
        ex, ey = vx[j] - vx[i], vy[j] - vy[i]
        L2 = ex * ex + ey * ey
        if L2 == 0:
            d = np.hypot(x - vx[i], y - vy[i])
        else:
            s = np.clip(((x - vx[i]) * ex + (y - vy[i]) * ey) / L2, 0.0, 1.0)
            d = np.hypot(x - (vx[i] + s * ex), y - (vy[i] + s * ey))
        mind = np.minimum(mind, d)
    return mind


def wide_sure(spec, x, y, d):
    """Queries whose reference membership cannot change under a displacement of (much less than) d."""
    cls = spec['cls']
    if cls == 'compound':
        return wide_sure(spec['r1'], x, y, d) & wide_sure(spec['r2'], x, y, d)
    if cls in G.EMPTY:
        return np.ones(np.shape(x), bool)
    ref = G.Ref(spec)
    ins0, ok = ref.member(x, y)
    ok = np.array(ok, bool)
    if cls in ('polygon', 'regpoly'):
        return ok & (_poly_dist(ref.vx, ref.vy, x, y) > 4.0 * d)
    for k in range(8):
        a = TWO_PI * k / 8.0
        ins, sure = ref.member(x + d * math.cos(a), y + d * math.sin(a))
        ok &= sure & (ins == ins0)
    return ok


def _perimeter(vx, vy):
    return float(np.sum(np.hypot(np.roll(vx, -1) - vx, np.roll(vy, -1) - vy)))


def _turns(d):
    return d - TWO_PI * round(d / TWO_PI)


# ================================================================= rotation check ==
class _Ctx:
    """What one (spec, pivot, angle) check needs; keeps the violation plumbing short."""

    def __init__(self, res, case):
        self.res, self.case, self.ok = res, case, True

    def bad(self, kind, msg, expected=None, observed=None):
        self.ok = False
        self.res.violation(ID, kind, self.case, msg, expected, observed)


def _same_bits(a, b):
    return fp(a) == fp(b)


def _cmp_pos(cx, what, got_x, got_y, want_x, want_y, tol, kind):
    gx, gy = np.asarray(got_x, float), np.asarray(got_y, float)
    wx, wy = np.asarray(want_x, float), np.asarray(want_y, float)
    if gx.shape != wx.shape or gy.shape != wy.shape:
        cx.bad(kind, f'{what}: shape {gx.shape} instead of {wx.shape}', list(wx.shape), list(gx.shape))
        return
    err = float(max(np.max(np.abs(gx - wx), initial=0.0), np.max(np.abs(gy - wy), initial=0.0)))
    if not err <= tol:
        cx.bad(kind, f'{what}: is ({gx.tolist()}, {gy.tolist()}), reference ({wx.tolist()}, {wy.tolist()}); '
                     f'max deviation {err:.3g} > tolerance {tol:.3g}', [wx.tolist(), wy.tolist()], [gx.tolist(), gy.tolist()])


def _cmp_rotated(cx, R, reg, spec, pcx, pcy, theta, tol, path):
    """Parameter-level oracle for R = reg.rotate((pcx, pcy), theta); recursive over compounds."""
    cls = spec['cls']
    cx.res.transitions += 1
    if type(R) is not type(reg):
        cx.bad('class_changed', f'{path}: rotate returned {type(R).__name__} for a {type(reg).__name__}',
               type(reg).__name__, type(R).__name__)
        return
    if not (R.meta == reg.meta and type(R.meta) is type(reg.meta)):
        cx.bad('meta_changed', f'{path}: meta of the rotated region {dict(R.meta)!r} != original {dict(reg.meta)!r}',
               repr(dict(reg.meta)), repr(dict(R.meta)))
    if not (R.visual == reg.visual and type(R.visual) is type(reg.visual)):
        cx.bad('visual_changed', f'{path}: visual of the rotated region {dict(R.visual)!r} != original {dict(reg.visual)!r}',
               repr(dict(reg.visual)), repr(dict(R.visual)))
    if cls == 'compound':
        if R.operator is not reg.operator:
            cx.bad('param_changed', f'{path}: operator changed to {R.operator!r}', repr(reg.operator), repr(R.operator))
        _cmp_rotated(cx, R.region1, reg.region1, spec['r1'], pcx, pcy, theta, tol, path + '.region1')
        _cmp_rotated(cx, R.region2, reg.region2, spec['r2'], pcx, pcy, theta, tol, path + '.region2')
        return
    for name in SIZE_ATTRS[cls]:
        if not _same_bits(getattr(R, name), getattr(reg, name)):
            cx.bad('param_changed', f'{path}: {name} changed from {getattr(reg, name)!r} to {getattr(R, name)!r}',
                   repr(getattr(reg, name)), repr(getattr(R, name)))
        elif name != 'text' and float(getattr(R, name)) != float(spec[SPEC_OF_ATTR.get(name, name)]):
            cx.bad('param_changed', f'{path}: {name} is {getattr(R, name)!r}, constructed with {spec[SPEC_OF_ATTR.get(name, name)]!r}')
    if cls in CENTERED:
        wx, wy = G.rot(spec['center'][0], spec['center'][1], pcx, pcy, theta)
        _cmp_pos(cx, f'{path}.center', R.center.x, R.center.y, wx, wy, tol, 'center_wrong')
    if cls == 'line':
        for end in ('start', 'end'):
            wx, wy = G.rot(spec[end][0], spec[end][1], pcx, pcy, theta)
            p = getattr(R, end)
            _cmp_pos(cx, f'{path}.{end}', p.x, p.y, wx, wy, tol, 'center_wrong')
    if cls in ('polygon', 'regpoly'):
        ref = G.Ref(spec)
        wx, wy = G.rot(ref.vx, ref.vy, pcx, pcy, theta)
        _cmp_pos(cx, f'{path}.vertices', R.vertices.x, R.vertices.y, wx, wy, tol, 'vertices_wrong')
    if 'angle' in spec:
        want = G.rad(spec['angle']) + theta
        got = rad_of(R.angle)
        atol = 1e-12 * (1.0 + abs(G.rad(spec['angle'])) + abs(theta))
        if not abs(_turns(got - want)) <= atol:
            cx.bad('angle_wrong', f'{path}.angle is {R.angle!r} = {got!r} rad, reference own angle + rotation = {want!r} rad',
                   want, got)


def _cmp_restored(cx, B, reg, spec, tol, path):
    """B = reg.rotate(c, t).rotate(c, -t) must carry reg's parameters again."""
    cls = spec['cls']
    cx.res.transitions += 1
    if type(B) is not type(reg):
        cx.bad('back_class_changed', f'{path}: rotating back gave {type(B).__name__} for a {type(reg).__name__}',
               type(reg).__name__, type(B).__name__)
        return
    if not (B.meta == reg.meta and B.visual == reg.visual):
        cx.bad('back_meta_changed', f'{path}: meta/visual after rotating back {dict(B.meta)!r}/{dict(B.visual)!r} != '
                                    f'original {dict(reg.meta)!r}/{dict(reg.visual)!r}')
    if cls == 'compound':
        if B.operator is not reg.operator:
            cx.bad('back_param_changed', f'{path}: operator changed to {B.operator!r}')
        _cmp_restored(cx, B.region1, reg.region1, spec['r1'], tol, path + '.region1')
        _cmp_restored(cx, B.region2, reg.region2, spec['r2'], tol, path + '.region2')
        return
    for name in SIZE_ATTRS[cls]:
        if not _same_bits(getattr(B, name), getattr(reg, name)):
            cx.bad('back_param_changed', f'{path}: {name} is {getattr(B, name)!r} after rotating back, originally {getattr(reg, name)!r}',
                   repr(getattr(reg, name)), repr(getattr(B, name)))
    for name in ('center', 'start', 'end', 'vertices'):
        if name in reg._params or (name == 'vertices' and cls == 'regpoly'):
            p, o = getattr(B, name), getattr(reg, name)
            _cmp_pos(cx, f'{path}.{name} after rotating back', p.x, p.y, o.x, o.y, tol, 'back_position_wrong')
    if 'angle' in spec:
        got = rad_of(B.angle) / G.UNIT['deg']
        want = rad_of(reg.angle) / G.UNIT['deg']
        d = got - want
        d -= 360.0 * round(d / 360.0)
        if not abs(d) <= 1e-9:
            cx.bad('back_angle_wrong', f'{path}.angle is {B.angle!r} = {got!r} deg after rotating back, originally '
                                       f'{reg.angle!r} = {want!r} deg', want, got)


_QCACHE = {}


def _queries(spec):
    """Queries + flagged reference membership of a spec (cached: shared by all pivots/angles of the spec)."""
    key = id(spec)
    hit = _QCACHE.get(key)
    if hit is not None and hit[0] is spec:
        return hit[1]
    qx, qy = G.shape_frame_queries(spec)
    ins, sure = G.Ref(spec).member_flagged(qx, qy)
    val = (qx, qy, np.array(ins, bool), np.array(sure, bool), {})
    _QCACHE.clear()
    _QCACHE[key] = (spec, val)
    return val


def check_rot(res, spec, pv, ang):
    from regions import PixCoord
    case = {'kind': 'rot', 'spec': spec, 'pivot': pv, 'angle': ang}
    cx = _Ctx(res, case)
    cls = spec['cls']
    res.states += 1
    res.evaluations += 1
    res.axis('rot_cls', cls)
    res.axis('rot_angle', f'{ang[0]!r} {ang[1]}/{ang[2]}')
    res.axis('rot_pivot', pv if isinstance(pv, str) else str(pv))
    res.axis('rot_include', str(spec.get('include', 'absent' if cls != 'compound' else 'inherit')))
    if pv == 'self':
        pcx, pcy = anchor(spec)
    elif pv == 'near':
        ax, ay = anchor(spec)
        pcx, pcy = ax + 0.046875, ay - 0.03125
    else:
        pcx, pcy = float(pv[0]), float(pv[1])
    theta = G.rad(ang)
    try:
        reg = G.build(spec)
    except Exception as exc:
        cx.bad('build_failed', f'could not construct region: {type(exc).__name__}: {exc}')
        return
    # metadata with nested mutable values (a tag list, a dash pattern): they travel with the region and stay its own
    try:
        reg.meta['tag'] = ['t1', 't2']
        reg.visual['dashes'] = [8, 3]
    except Exception:      # noqa: BLE001
        pass
    f0 = fp(reg)
    arg_c, arg_a = PixCoord(pcx, pcy), G._angle_obj(ang)
    fa0 = [fp(arg_c), fp(arg_a)]
    try:
        R = reg.rotate(arg_c, arg_a)
        if [fp(arg_c), fp(arg_a)] != fa0:
            cx.bad('argument_mutated', f'rotate changed its own arguments: centre/angle {fa0} -> {[fp(arg_c), fp(arg_a)]}')
        # the rotated region must not keep the caller's angle object either (later edits of it would leak in)
        if getattr(R, 'angle', None) is arg_a:
            cx.bad('argument_aliased', 'the rotated region stores the caller\'s angle object itself')
    except Exception as exc:
        cx.bad('unexpected_exception', f'rotate raised {type(exc).__name__}: {exc}')
        res.outcome(('rot', cls, ang[1] + '/' + ang[2], 'raised'))
        return
    res.transitions += 1
    if fp(reg) != f0:
        cx.bad('original_mutated', 'the fingerprint of the original region changed during rotate()')
    if R is reg:
        cx.bad('original_returned', 'rotate returned the original object itself')
    L, big = lever(spec, pcx, pcy)
    scale = 1.0 + L + max(abs(pcx), abs(pcy)) + big
    tol = 1e-9 * scale

    # ---- parameter-level oracle (class, metadata, sizes, centre, angle; operands recursively)
    _cmp_rotated(cx, R, reg, spec, pcx, pcy, theta, tol, 'R')
    if type(R) is not type(reg):
        res.outcome(('rot', cls, ang[1] + '/' + ang[2], False))
        return

    # ---- area
    res.transitions += 1
    a0 = a1 = None
    try:
        a0 = reg.area
    except NotImplementedError:
        a0 = 'n/a'
    try:
        a1 = R.area
    except NotImplementedError:
        a1 = 'n/a'
    except Exception as exc:
        cx.bad('unexpected_exception', f'area of the rotated region raised {type(exc).__name__}: {exc}')
        a1 = None
    if a1 is not None:
        if (a0 == 'n/a') != (a1 == 'n/a'):
            cx.bad('area_changed', f'area of the original: {a0!r}, of the rotated region: {a1!r}', repr(a0), repr(a1))
        elif a0 != 'n/a':
            a0f, a1f = float(a0), float(a1)
            atol = 1e-12 * abs(a0f)
            if cls in ('polygon', 'regpoly'):
                v0, v1 = reg.vertices, R.vertices
                bigc = max(1.0, float(np.max(np.abs(v0.x))), float(np.max(np.abs(v0.y))),
                           float(np.max(np.abs(v1.x))), float(np.max(np.abs(v1.y))), abs(pcx), abs(pcy))
                atol += 64.0 * math.ulp(bigc) * _perimeter(np.asarray(v0.x, float), np.asarray(v0.y, float))
            if not abs(a1f - a0f) <= atol:
                cx.bad('area_changed', f'area {a0f!r} became {a1f!r} (difference {a1f - a0f:.3g}, tolerance {atol:.3g})', a0f, a1f)
            elif cls not in ('polygon', 'regpoly'):
                ra = G.Ref(spec).area()
                if ra is not None and not abs(a1f - ra) <= 1e-12 * abs(ra):
                    cx.bad('area_changed', f'area of the rotated region {a1f!r}, analytic reference {ra!r}', ra, a1f)

    # ---- membership on the oracle-rotated query lattice
    qx, qy, ins, sure, wcache = _queries(spec)
    wkey = (pcx, pcy)
    if wkey not in wcache:
        qbig = max(float(np.max(np.abs(qx))), float(np.max(np.abs(qy))))
        qlev = float(np.max(np.hypot(qx - pcx, qy - pcy)))
        d = 1e-9 * (1.0 + qbig + abs(pcx) + abs(pcy) + max(qlev, L))
        wcache[wkey] = sure & wide_sure(spec, qx, qy, d)
    wide = wcache[wkey]
    rx, ry = G.rot(qx, qy, pcx, pcy, theta)
    try:
        got = R.contains(PixCoord(rx, ry))
        org = reg.contains(PixCoord(qx, qy))
    except Exception as exc:
        cx.bad('unexpected_exception', f'contains raised {type(exc).__name__}: {exc}')
        got = None
    res.transitions += 2
    if got is not None:
        got = np.asarray(got)
        org = np.asarray(org)
        if got.shape != qx.shape or got.dtype != np.bool_:
            cx.bad('membership_not_preserved', f'contains of the rotated region returned shape {got.shape} dtype {got.dtype}')
        else:
            bad = (got != org) & wide
            if bad.any():
                k = int(np.flatnonzero(bad)[0])
                cx.bad('membership_not_preserved',
                       f'{int(bad.sum())} of {int(wide.sum())} positions: rotated region contains the rotated position '
                       f'differently from original/unrotated (first: q=({qx[k]!r},{qy[k]!r}) original {bool(org[k])}; '
                       f"q'=({rx[k]!r},{ry[k]!r}) rotated {bool(got[k])})", bool(org[k]), bool(got[k]))
            bad = (got != ins) & wide
            if bad.any():
                k = int(np.flatnonzero(bad)[0])
                cx.bad('membership_vs_reference',
                       f"{int(bad.sum())} of {int(wide.sum())} positions: rotated region's answer at the oracle-rotated "
                       f"position differs from the reference membership (first: q=({qx[k]!r},{qy[k]!r}) reference "
                       f"{bool(ins[k])}; q'=({rx[k]!r},{ry[k]!r}) got {bool(got[k])})", bool(ins[k]), bool(got[k]))
    if cls in G.EMPTY or ((ins & wide).any() and (~ins & wide).any()):
        res.nontriv(('rot', spec, pv, ang))

    # ---- rotating back
    neg = [-ang[0], ang[1], ang[2]]
    try:
        B = R.rotate(PixCoord(pcx, pcy), G._angle_obj(neg))
    except Exception as exc:
        cx.bad('unexpected_exception', f'rotating back raised {type(exc).__name__}: {exc}')
        B = None
    res.transitions += 1
    if B is not None:
        _cmp_restored(cx, B, reg, spec, tol, 'B')
    if fp(reg) != f0:
        cx.bad('original_mutated', 'the fingerprint of the original region changed while the rotated copy was used '
                                   '(contains / area / rotate back)')
    # the rotated region is the caller's: its coordinates, angle and metadata are edited in place -- the original stays as it was
    try:
        _edit_in_place(R)
        if B is not None:
            _edit_in_place(B)
    except Exception:      # noqa: BLE001 -- read-only pieces are not edited
        pass
    if fp(reg) != f0:
        cx.bad('original_mutated', 'the original region changed when the rotated region (or the one rotated back) was edited in place: '
                                   'they share coordinate / angle / metadata objects')
    res.outcome(('rot', cls, ang[1] + '/' + ang[2], cx.ok))
    if res.states <= 2:
        res.sample({'case': case, 'n_queries': int(qx.size), 'n_wide_sure': int(wide.sum()),
                    'rotated': repr(R)[:300]})


def _edit_in_place(r, depth=0):
    import astropy.units as u
    for name in getattr(r, '_params', ()):
        v = getattr(r, name, None)
        if hasattr(v, '_params') and depth < 3:
            _edit_in_place(v, depth + 1)        # operands of a compound
        elif hasattr(v, 'x') and hasattr(v, 'y'):
            if np.ndim(v.x):
                if v.x.flags.writeable:
                    v.x[0] += 1000.0
                    v.y[-1] -= 500.0
            else:
                v.x += 1000.0
                v.y -= 500.0
        elif isinstance(v, u.Quantity) and name == 'angle':
            try:
                v[...] = v + 7.0 * v.unit
            except Exception:      # noqa: BLE001
                pass
    for d in (r.meta, r.visual):
        for v in d.values():
            if isinstance(v, list):
                v.append('appended in place')
    r.meta['text'] = 'edited in place'
    r.visual['color'] = 'edited'


# ============================================================== translation check ==
def _add_exact(v, t):
    w = float(v) + t
    if Fraction(w) != Fraction(float(v)) + t:
        raise AssertionError(f'harness: {v!r} + {t} is not exact in binary floating point')
    return w


def translate_spec(spec, tx, ty):
    s = dict(spec)
    if s['cls'] == 'compound':
        s['r1'] = translate_spec(s['r1'], tx, ty)
        s['r2'] = translate_spec(s['r2'], tx, ty)
        return s
    for key in ('center', 'start', 'end'):
        if key in s:
            s[key] = [_add_exact(s[key][0], tx), _add_exact(s[key][1], ty)]
    if 'vertices' in s:
        s['vertices'] = [[_add_exact(v, tx) for v in s['vertices'][0]], [_add_exact(v, ty) for v in s['vertices'][1]]]
    return s


def _edge_sides(ext):
    return {k for k, e in enumerate(ext) if abs((e + 0.5) - round(e + 0.5)) < 1e-9 * (1.0 + abs(e))}


def ambiguous_sides(spec):
    """Sides (0 xmin, 1 xmax, 2 ymin, 3 ymax) on which a trig-evaluated TRUE extent of the spec (or of a part of
    it: compound operands, inner shape of an annulus) lies on a pixel edge k + 1/2 (within 1e-9)."""
    cls = spec['cls']
    if cls == 'compound':
        return ambiguous_sides(spec['r1']) | ambiguous_sides(spec['r2'])
    ext, trig = G.Ref(spec).extent()
    out = _edge_sides(ext) if trig else set()
    if cls in ('ellipseannulus', 'rectangleannulus'):
        inner = {'cls': cls[:-7], 'center': spec['center'], 'width': spec['inner_width'],
                 'height': spec['inner_height'], 'angle': spec.get('angle')}
        ext, trig = G.Ref(inner).extent()
        if trig:
            out |= _edge_sides(ext)
    return out


def _box(b):
    return [int(b.ixmin), int(b.ixmax), int(b.iymin), int(b.iymax)]


def _mask_or_refusal(reg, mode, n):
    try:
        return reg.to_mask(mode=mode, subpixels=n)
    except NotImplementedError:
        return 'notimpl'


def _edge_samples(spec, ix, iy, n):
    """Number of the n x n sub-samples of pixel (ix, iy) lying EXACTLY on an edge of the polygon (rationals)."""
    vx = [Fraction(float(v)) for v in spec['vertices'][0]]
    vy = [Fraction(float(v)) for v in spec['vertices'][1]]
    m = len(vx)
    cnt = 0
    for j in range(n):
        x = Fraction(ix) - Fraction(1, 2) + Fraction(2 * j + 1, 2 * n)
        for k in range(n):
            y = Fraction(iy) - Fraction(1, 2) + Fraction(2 * k + 1, 2 * n)
            for i in range(m):
                l = (i + 1) % m
                if (vx[l] - vx[i]) * (y - vy[i]) - (x - vx[i]) * (vy[l] - vy[i]) == 0 \
                        and min(vx[i], vx[l]) <= x <= max(vx[i], vx[l]) and min(vy[i], vy[l]) <= y <= max(vy[i], vy[l]):
                    cnt += 1
                    break
    return cnt


def _classify_mask_diff(spec, b0, d0, d2, n):
    """'mask_changed_edge_samples' iff every differing pixel is explained by sub-samples exactly on a polygon edge."""
    if spec['cls'] != 'polygon' or d0.shape != d2.shape or d0.dtype != d2.dtype:
        return 'mask_changed', None
    idx = np.argwhere(d0 != d2)
    worst = None
    for (row, col) in idx.tolist():
        k = _edge_samples(spec, b0[0] + col, b0[2] + row, n)
        if abs(float(d0[row, col]) - float(d2[row, col])) > k / (n * n) + 1e-12:
            return 'mask_changed', None
        worst = [row, col, k]
    return 'mask_changed_edge_samples', worst


def check_tr(res, spec, ts=TS, modes=MODES, first_only=True):
    cls = spec['cls']
    res.axis('tr_cls', cls)
    amb = ambiguous_sides(spec)
    res.axis('tr_edge_ambiguous_sides', len(amb))
    reg0 = G.build(spec)
    b0 = _box(reg0.bounding_box)
    base = {}
    for mode, n in modes:
        base[(mode, n)] = _mask_or_refusal(reg0, mode, n)
    m0 = base.get(('center', 1))
    nontriv = (not isinstance(m0, str)) and m0 is not None and bool((m0.data == 0).any() and (m0.data != 0).any())
    reported = set()
    for tx, ty in ts:
        res.states += 1
        res.evaluations += 1
        res.axis('tr_T', f'{tx},{ty}')
        s2 = translate_spec(spec, tx, ty)
        reg2 = G.build(s2)
        case = {'kind': 'tr', 'spec': spec, 'T': [tx, ty]}
        import zlib
        if cls != 'compound' and zlib.crc32(repr((sorted(spec.items(), key=str), tx, ty)).encode()) % 3 == 0:
            # another history to the same translated region: the original object, already used, has its coordinates re-assigned
            moved = G.build(spec)
            try:
                moved.bounding_box
                moved.to_mask('center')
            except Exception:      # noqa: BLE001 -- reported below for reg0 / reg2
                pass
            for key in ('center', 'vertices', 'start', 'end'):
                if hasattr(reg2, key) and key in getattr(reg2, '_params', ()):
                    setattr(moved, key, getattr(reg2, key))
            reg2 = moved
            case['route'] = 'original object moved by assignment'
        res.transitions += 1
        try:
            b2 = _box(reg2.bounding_box)
        except Exception as exc:
            res.violation(ID, 'unexpected_exception', case, f'bounding_box of the translated region raised {type(exc).__name__}: {exc}')
            continue
        want = [b0[0] + tx, b0[1] + tx, b0[2] + ty, b0[3] + ty]
        if b2 != want and all((b2[k] == want[k]) or (k in amb and abs(b2[k] - want[k]) == 1) for k in range(4)):
            # the true extent sits on a pixel edge and is evaluated with cos/sin: both boxes are boxes of the
            # mathematical region (see module docstring); masks of different shape cannot be compared
            res.axis('tr_excepted', cls)
            res.outcome(('tr', cls, 'bbox', 'edge-ambiguous'))
            continue
        if b2 != want:
            if 'bbox' not in reported or not first_only:
                reported.add('bbox')
                res.violation(ID, 'bbox_not_translated', case,
                              f'bounding box {b0} of the original, {b2} after translating by ({tx},{ty}); expected {want}', want, b2)
            res.outcome(('tr', cls, 'bbox', False))
            continue
        if nontriv or cls in G.EMPTY:
            res.nontriv(('tr', spec, tx, ty))
        for mode, n in modes:
            key = (mode, n)
            tag = mode if mode != 'subpixels' else f'subpixels{n}'
            mcase = dict(case, mode=[mode, n], cls=cls)
            mb = base[key]
            res.transitions += 1
            try:
                m2 = _mask_or_refusal(reg2, mode, n)
            except Exception as exc:
                res.violation(ID, 'unexpected_exception', mcase, f'to_mask({mode!r}, {n}) of the translated region raised {type(exc).__name__}: {exc}')
                continue
            if isinstance(mb, str) or isinstance(m2, str):
                if isinstance(mb, str) != isinstance(m2, str) and key not in reported:
                    reported.add(key)
                    res.violation(ID, 'mask_support_changed', mcase,
                                  f'to_mask({mode!r}, {n}): original {"refused" if isinstance(mb, str) else "gave a mask"}, '
                                  f'translated copy {"refused" if isinstance(m2, str) else "gave a mask"}')
                res.outcome(('tr', cls, tag, 'notimpl'))
                continue
            ok = True
            mb0 = _box(mb.bbox)
            if _box(m2.bbox) != [mb0[0] + tx, mb0[1] + tx, mb0[2] + ty, mb0[3] + ty]:
                ok = False
                if ('mbox', key) not in reported or not first_only:
                    reported.add(('mbox', key))
                    res.violation(ID, 'mask_bbox_not_translated', mcase,
                                  f'mask.bbox {mb0} of the original, {_box(m2.bbox)} after translating by ({tx},{ty})')
            d0, d2 = np.asarray(mb.data), np.asarray(m2.data)
            if d0.dtype != d2.dtype or d0.shape != d2.shape or not np.array_equal(d0, d2):
                ok = False
                if key not in reported or not first_only:
                    reported.add(key)
                    kind, worst = _classify_mask_diff(spec, mb0, d0, d2, n)
                    if d0.shape == d2.shape:
                        w = np.argwhere(d0 != d2)
                        r, c = w[0].tolist()
                        detail = (f'{len(w)} of {d0.size} pixels differ, first at data[{r},{c}]: {d0[r, c]!r} -> {d2[r, c]!r}'
                                  + (f' (every differing pixel has sub-samples exactly on a polygon edge, e.g. {worst[2]} of '
                                     f'{n * n} in data[{worst[0]},{worst[1]}])' if kind == 'mask_changed_edge_samples' else ''))
                        obs = [int(len(w)), r, c, repr(d2[r, c])]
                    else:
                        detail = f'shape/dtype {d0.shape}/{d0.dtype} -> {d2.shape}/{d2.dtype}'
                        obs = [list(d2.shape), str(d2.dtype)]
                    res.violation(ID, kind, mcase, f'to_mask({mode!r}, subpixels={n}).data changed under translation by ({tx},{ty}): ' + detail,
                                  'bit-identical array', obs)
            res.outcome(('tr', cls, tag, ok))
    if res.states <= 64 * 2:
        res.sample({'translation_spec': spec, 'bbox': b0,
                    'modes': {f'{m}/{n}': ('notimpl' if isinstance(v, str) else list(v.data.shape)) for (m, n), v in base.items()}})


# =================================================================== framework ==
def shards(tier, seed):
    cases = [['rot', s] for s in rot_specs(tier)] + [['tr', s] for s in tr_specs(tier)]
    return chunks(cases, 96 if tier == 'quick' else 256)


def run_shard(shard, tier, seed):
    res = Result()
    P = pivots(tier)
    A = rot_angles(tier, seed)
    for kind, spec in shard['cases']:
        if kind == 'rot':
            for pv in P:
                for ang in A:
                    check_rot(res, spec, pv, ang)
        else:
            check_tr(res, spec)
    return res


def replay(case):
    res = Result()
    if case['kind'] == 'rot':
        check_rot(res, case['spec'], case['pivot'], case['angle'])
    else:
        modes = [case['mode']] if 'mode' in case else MODES
        check_tr(res, case['spec'], ts=[case['T']], modes=[list(m) for m in modes], first_only=False)
    return res
