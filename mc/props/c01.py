"""C01 -- point membership equals the geometric definition of every pixel shape.

Engine E2.  For every region configuration of the lattice the real
``contains`` is called on query positions generated in the shape's own frame
(both sides of the boundary, down to a relative margin of 2^-10) in every
container form, and compared with the reference membership of
``mc.oracles.geometry`` (own formulas, own unit table, explicit guard band).
"""
import math

import numpy as np

from mc.result import Result
from mc import catalog as K
from mc.lattice import chunks
from mc.oracles import geometry as G

ID = 'C01'
LEVEL = 'model_checking'
ENGINE = 'E2-lattice'
FILES = ['regions/shapes/circle.py', 'regions/shapes/ellipse.py', 'regions/shapes/rectangle.py',
         'regions/shapes/polygon.py', 'regions/shapes/annulus.py', 'regions/shapes/point.py',
         'regions/shapes/line.py', 'regions/core/compound.py', 'regions/core/core.py',
         'regions/core/pixcoord.py']
RULE = ('full Cartesian product of shape class x size (pairs) x angle x angular unit/representation x centre, '
        'each crossed with the 5 include flags (flat query) and, on every 6th configuration per class, with all 14 query container forms x 5 flags; queries are generated in the shape '
        'frame at normalised radii {0,.3,.7,.9,.99,1-2^-10,1+2^-10,1.01,1.1,1.5,3} x 16 directions; a '
        'configuration is non-trivial when it has sure members and sure non-members within 1% of the boundary')
BOUNDS = {'quick': '5 sizes (2^-30, 2^-10 .. 1.75*2^20), 6 angles x 3 representations, 2 centres, all classes, all includes, all containers',
          'thorough': '20 sizes (2^-30, 1.25*2^-40; 11 of them crossed as all width x height pairs), 11 angles x 5 units x {Quantity, Angle}, 4 centres, all classes, all includes, all containers'}
ASSUMPTIONS = ['numpy elementwise arithmetic is trusted', 'positions closer to the boundary than the guard band '
               '(1e-9 relative + 64 ulp of the largest coordinate) are excepted, as the property states',
               'compiled pnpoly kernel is checked as built']


STARS = {
    'pentagram': ([0, 2.5, -4, 4, -2.5], [4, -3.25, 1.5, 1.5, -3.25]),
    'heptagram': ([4, -1, -3.5, 2.5, 2.5, -3.5, -1], [0, 4, -1.75, -3, 3, 1.75, -4]),
    'ring_twice': ([0, 4, 5, 1, 0, 4, 5, 1], [0, 0, 3, 4, 0, 0, 3, 4]),
}


def _angle_reps(tier):
    if tier == 'quick':
        degs = [0.0, 30.0, 123.4, 270.0, -60.0, 725.0]
        reps = [('deg', 'quantity'), ('arcsec', 'quantity'), ('rad', 'angle')]
    else:
        degs = K.ANGLES_DEG
        reps = [(u, k) for u in K.UNITS for k in ('quantity', 'angle')]
    return [K.angle_spec(d, u, k) for d in degs for (u, k) in reps]


INT_CENTRE = (12, 7)          # Python ints: PixCoord keeps them as ints


def _centres(tier):
    return ([K.CENTRES[1], K.CENTRES[2]] if tier == 'quick' else list(K.CENTRES)) + [INT_CENTRE]


# sizes far below any absolute tolerance a membership test might (wrongly) apply; the guard band scales with the size
TINY = {'quick': [2.0 ** -30], 'thorough': [2.0 ** -30, 1.25 * 2.0 ** -40]}


def configs(tier):
    S = K.sizes(tier) + TINY[tier]
    P = K.pair_sizes(tier) + TINY[tier]
    A = _angle_reps(tier)
    C = _centres(tier)
    out = []
    for c in C:
        for r in S:
            out.append({'cls': 'circle', 'center': list(c), 'radius': r})
    for cls in ('ellipse', 'rectangle'):
        for c in C:
            for w in P:
                for h in P:
                    for a in A:
                        out.append({'cls': cls, 'center': list(c), 'width': w, 'height': h, 'angle': a})
    for c in C:
        for i, ri in enumerate(S):
            for ro in S:
                if ri < ro:
                    out.append({'cls': 'circleannulus', 'center': list(c), 'inner_radius': ri, 'outer_radius': ro})
    F = [(1.25, 1.25), (4.0, 1.5)]
    for cls in ('ellipseannulus', 'rectangleannulus'):
        for c in C:
            for w in P:
                for h in P:
                    for (fw, fh) in F:
                        for a in A:
                            out.append({'cls': cls, 'center': list(c), 'inner_width': w, 'inner_height': h,
                                        'outer_width': w * fw, 'outer_height': h * fh, 'angle': a})
    # integral sizes given as narrow numpy integer scalars (their squares do not fit the type)
    for dt, (w, h) in (('int16', (200, 300)), ('uint8', (20, 16)), ('int8', (12, 100)), ('uint16', (300, 260))):
        for c in C[:2]:
            for a in A[:4]:
                out.append({'cls': 'ellipse', 'center': list(c), 'width': w, 'height': h, 'angle': a, 'size_dtype': dt})
                out.append({'cls': 'rectangle', 'center': list(c), 'width': w, 'height': h, 'angle': a, 'size_dtype': dt})
                out.append({'cls': 'ellipseannulus', 'center': list(c), 'inner_width': w // 2, 'inner_height': h // 2, 'outer_width': w,
                            'outer_height': h, 'angle': a, 'size_dtype': dt})
            out.append({'cls': 'circle', 'center': list(c), 'radius': w, 'size_dtype': dt})
            out.append({'cls': 'circleannulus', 'center': list(c), 'inner_radius': h // 2, 'outer_radius': max(w, h), 'size_dtype': dt})
    scales = [1.0, 2.0 ** -10, 2.0 ** 10] if tier == 'quick' else [1.0, 2.0 ** -10, 2.0 ** -3, 8.0, 2.0 ** 10, 2.0 ** 20]
    for name in K.POLYS:
        for s in scales:
            for c in C:
                out.append(K.polygon_spec(name, s, c))
    # star polygons: every turn has the same sign (like a convex polygon) but the boundary winds around the middle twice -- the
    # even-odd rule puts the doubly enclosed core OUTSIDE; and a convex ring traversed twice (nothing inside at all)
    for name, (xs, ys) in STARS.items():
        for s in scales:
            for c in C:
                out.append({'cls': 'polygon', 'name': name, 'vertices': [[c[0] + s * v for v in xs], [c[1] + s * v for v in ys]]})
    for n in (3, 4, 5, 6, 8):
        for c in C:
            for r in S:
                for a in A:
                    out.append({'cls': 'regpoly', 'center': list(c), 'n': n, 'radius': r, 'angle': a})
    # directly built compounds: the compound's own meta (an explicit one for every include value, an EMPTY one for
    # 'absent') decides the include sense, whatever the flags of the operands say
    for c in C[:2]:
        for op in ('and', 'or', 'xor'):
            for i1 in ('absent', False, 0):
                for i2 in ('absent', False):
                    out.append({'cls': 'compound', 'op': op,
                                'r1': {'cls': 'circle', 'center': [c[0] - 1.0, c[1]], 'radius': 2.5, 'include': i1},
                                'r2': {'cls': 'rectangle', 'center': [c[0] + 1.0, c[1] + 0.5], 'width': 3.0, 'height': 2.0,
                                       'angle': K.angle_spec(30.0), 'include': i2}})
    # rotations a few 1e-9 rad away from a quarter turn (below any absolute 'is close to zero' tolerance) of needle-like
    # shapes: the ends of the long axis move by more than the thickness
    big, thin = 1.75 * 2.0 ** 20, 2.0 ** -10
    for cls in ('ellipse', 'rectangle'):
        for c in C[:2]:
            for d in (4e-7, -3e-7, 90 + 4e-7, 180 - 3e-7, 270 + 2e-7):
                for (w, h) in ((big, thin), (thin, big)):
                    out.append({'cls': cls, 'center': list(c), 'width': w, 'height': h, 'angle': K.angle_spec(d)})
    for c in C:
        out.append({'cls': 'point', 'center': list(c)})
        out.append({'cls': 'text', 'center': list(c), 'text': 'a label'})
        out.append({'cls': 'line', 'start': list(c), 'end': [c[0] + 3.0, c[1] - 1.5]})
    return out


CONTAINERS = ['flat', 'scalar', 'scalar_int', 'empty', 'one_element', 'nonfinite', '2d', '3d', 'layout', 'broadcast', 'intarr', 'in_array', 'narrow_int', 'reassign']


def _isboolscalar(v):
    return isinstance(v, (bool, np.bool_)) and np.ndim(v) == 0


def _cmp(res, case, what, got, want, sure, shape):
    """Compare an array answer with the reference (only where sure)."""
    if not isinstance(got, np.ndarray):
        res.violation(ID, 'answer_not_array', case, f'{what}: contains returned {type(got).__name__} {got!r} for an array query of shape {shape}',
                      'ndarray of bool', repr(got))
        return False
    if got.shape != tuple(shape):
        res.violation(ID, 'answer_shape', case, f'{what}: answer shape {got.shape}, query shape {tuple(shape)}',
                      list(shape), list(got.shape))
        return False
    if got.dtype != np.bool_:
        res.violation(ID, 'answer_dtype', case, f'{what}: answer dtype {got.dtype}, expected bool', 'bool', str(got.dtype))
        return False
    bad = (got != want) & sure
    if bad.any():
        idx = np.argwhere(bad)[0]
        res.violation(ID, 'membership_wrong', case,
                      f'{what}: {int(bad.sum())} of {int(sure.sum())} sure positions answered wrongly '
                      f'(first at index {idx.tolist()}: got {bool(got[tuple(idx)])}, reference {bool(want[tuple(idx)])})',
                      bool(want[tuple(idx)]), bool(got[tuple(idx)]))
        return False
    return True


THIN = ['flat', 'scalar', 'narrow_int']
COMPOUND_CONTS = ['flat', 'scalar', '2d', 'in_array']


def check_config(res, spec, includes=K.INCLUDES, containers=CONTAINERS, full=True):
    from regions import PixCoord
    ref = G.Ref(spec)
    qx, qy = G.shape_frame_queries(spec)
    ins0, sure0 = ref.member(qx, qy)
    res.states += 1
    # non-triviality: sure members and sure non-members both present (the query construction puts
    # them within 1% of the boundary)
    if spec['cls'] in G.EMPTY or ((ins0 & sure0).any() and ((~ins0) & sure0).any()):
        res.nontriv(('cfg', spec))
    res.axis('cls', spec['cls'])
    if 'angle' in spec:
        res.axis('angle_unit', spec['angle'][1] + '/' + spec['angle'][2])
    for inc in includes:
        s = dict(spec)
        s['include'] = inc
        flag = G.included(s)
        try:
            reg = G.build(s)
        except Exception as exc:
            res.violation(ID, 'build_failed', {'spec': s}, f'could not construct region: {type(exc).__name__}: {exc}')
            continue
        if spec['cls'] == 'compound' and containers is CONTAINERS:
            conts = COMPOUND_CONTS      # the other containers are written for single shapes
        elif full or containers is not CONTAINERS:
            conts = containers
        else:
            # thin crossing: every include flag with the flat query; scalar form for absent/False
            conts = THIN if inc in ('absent', False) else THIN[:1]
        for cont in conts:
            case = {'spec': s, 'container': cont}
            res.evaluations += 1
            try:
                _one(res, reg, ref, s, flag, cont, case, qx, qy, ins0, sure0, PixCoord)
            except Exception as exc:   # the property allows no exception for valid queries
                res.violation(ID, 'unexpected_exception', case, f'{cont}: {type(exc).__name__}: {exc}')
    res.sample({'spec': spec, 'n_queries': int(qx.size)}) if res.states <= 2 else None


def _one(res, reg, ref, s, flag, cont, case, qx, qy, ins0, sure0, PixCoord):
    def want_of(ins):
        return ins if flag else ~ins
    res.transitions += 1
    if cont == 'flat':
        got = reg.contains(PixCoord(qx, qy))
        ok = _cmp(res, case, 'flat', got, want_of(ins0), sure0, qx.shape)
        res.outcome(('flat', s['cls'], flag, ok))
    elif cont == 'scalar':
        # one sure member, one sure non-member, and the first query
        picks = [0]
        mi = np.flatnonzero(ins0 & sure0)
        mo = np.flatnonzero(~ins0 & sure0)
        if mi.size:
            picks.append(int(mi[-1]))
        if mo.size:
            picks.append(int(mo[0]))
        for k in picks:
            if not sure0[k]:
                continue
            pc = PixCoord(float(qx[k]), float(qy[k]))
            want = bool(want_of(ins0)[k])
            got = reg.contains(pc)
            res.transitions += 2
            if not _isboolscalar(got):
                res.violation(ID, 'scalar_answer_not_bool', case,
                              f'contains(scalar) returned {type(got).__name__} of shape {np.shape(got)}: {got!r}',
                              'plain bool', repr(got))
            elif bool(got) != want:
                res.violation(ID, 'membership_wrong', case, f'scalar query ({qx[k]!r},{qy[k]!r}): got {bool(got)}, reference {want}', want, bool(got))
            got2 = pc in reg
            if not _isboolscalar(got2) or bool(got2) != want:
                res.violation(ID, 'in_operator_wrong', case, f'`coord in region` gave {got2!r}, reference {want}', want, repr(got2))
        res.outcome(('scalar', s['cls'], flag))
    elif cont == 'scalar_int':
        cx, cy = (s.get('center') or s.get('start') or [float(np.mean(s['vertices'][0])), float(np.mean(s['vertices'][1]))])
        for (ix, iy) in ((int(math.floor(cx)), int(math.floor(cy))), (int(math.floor(cx)) + 3, int(math.floor(cy)) - 2)):
            ins, sure = ref.member(float(ix), float(iy))
            if not bool(sure):
                continue
            want = bool(want_of(np.asarray(ins)))
            got = reg.contains(PixCoord(ix, iy))
            if not _isboolscalar(got):
                res.violation(ID, 'scalar_answer_not_bool', case, f'contains(int scalar) returned {type(got).__name__} shape {np.shape(got)}', 'plain bool', repr(got))
            elif bool(got) != want:
                res.violation(ID, 'membership_wrong', case, f'int scalar query ({ix},{iy}): got {bool(got)}, reference {want}', want, bool(got))
        res.outcome(('scalar_int', s['cls'], flag))
    elif cont == 'empty':
        got = reg.contains(PixCoord(np.array([], float), np.array([], float)))
        _cmp(res, case, 'empty', got, np.zeros((0,), bool), np.zeros((0,), bool), (0,))
    elif cont in ('2d', '3d'):
        k = min(8, qx.size // 2)
        shp = (2, k) if cont == '2d' else (2, 1, k)
        x, y = qx[:2 * k].reshape(shp), qy[:2 * k].reshape(shp)
        got = reg.contains(PixCoord(x, y))
        ok = _cmp(res, case, cont, got, want_of(ins0[:2 * k].reshape(shp)), sure0[:2 * k].reshape(shp), shp)
        res.outcome((cont, s['cls'], flag, ok))
    elif cont == 'one_element':
        # exactly one position that is not a scalar: shapes (1,), (1, 1) and a scalar x against a one-element y
        x1, y1 = float(qx[0]), float(qy[0])
        w1, s1 = want_of(ins0[:1]), sure0[:1]
        for label, (fx, fy), shp in (('(1,)', (np.array([x1]), np.array([y1])), (1,)),
                                     ('(1,1)', (np.array([[x1]]), np.array([[y1]])), (1, 1)),
                                     ('scalar x, (1,) y', (x1, np.array([y1])), (1,))):
            res.transitions += 1
            got = reg.contains(PixCoord(fx, fy))
            _cmp(res, dict(case, form=label), f'one-element query {label}', got, np.asarray(w1).reshape(shp), np.asarray(s1).reshape(shp), shp)
        res.outcome(('one_element', s['cls'], flag))
    elif cont == 'nonfinite':
        # NaN and infinite coordinates are nowhere: not inside any shape (so an excluded region answers True)
        bx, by = float(qx[0]), float(qy[0])
        fx = np.array([np.nan, bx, np.nan, np.inf, -np.inf, bx])
        fy = np.array([by, np.nan, np.nan, by, by, np.inf])
        res.transitions += 1
        got = reg.contains(PixCoord(fx, fy))
        _cmp(res, case, 'non-finite coordinates', got, want_of(np.zeros(6, bool)), np.ones(6, bool), (6,))
        res.outcome(('nonfinite', s['cls'], flag))
    elif cont == 'layout':
        # the same 2-d / 3-d queries in other memory layouts: column-major (Fortran) order, transposed views, strided views
        k = min(9, qx.size // 3)
        shp = (3, k)
        x, y = qx[:3 * k].reshape(shp), qy[:3 * k].reshape(shp)
        want, sure = want_of(ins0[:3 * k].reshape(shp)), sure0[:3 * k].reshape(shp)
        forms = {'fortran': (np.asfortranarray(x), np.asfortranarray(y)),
                 'transposed_view': (np.ascontiguousarray(x.T).T, np.ascontiguousarray(y.T).T),
                 'strided': (np.repeat(x, 2, axis=1)[:, ::2], np.repeat(y, 2, axis=1)[:, ::2]),
                 'fortran_3d': (np.asfortranarray(x.reshape(3, 1, k)), np.asfortranarray(y.reshape(3, 1, k)))}
        allok = True
        for fname, (fx, fy) in forms.items():
            res.transitions += 1
            got = reg.contains(PixCoord(fx, fy))
            shp2 = fx.shape
            allok = _cmp(res, dict(case, layout=fname), f'layout {fname}', got, want.reshape(shp2), sure.reshape(shp2), shp2) and allok
        res.outcome(('layout', s['cls'], flag, allok))
    elif cont == 'broadcast':
        k = min(12, qx.size)
        x = qx[-k:]
        y0 = float(qy[-1])
        ins, sure = ref.member(x, y0)
        got = reg.contains(PixCoord(x, y0))
        _cmp(res, case, 'broadcast x-array/y-scalar', got, want_of(ins), sure, x.shape)
        # (k,1) against (1,3) -> (k,3)
        xx = qx[:5].reshape(5, 1)
        yy = qy[:3].reshape(1, 3)
        ins, sure = ref.member(xx, yy)
        got = reg.contains(PixCoord(xx, yy))
        res.transitions += 1
        _cmp(res, case, 'broadcast (5,1)x(1,3)', got, want_of(ins), sure, (5, 3))
    elif cont == 'intarr':
        x = np.unique(np.round(qx).astype(np.int64))[:24]
        y = np.round(qy[:x.size]).astype(np.int64)
        x = x[:y.size]
        ins, sure = ref.member(x.astype(float), y.astype(float))
        got = reg.contains(PixCoord(x, y))
        _cmp(res, case, 'int array', got, want_of(ins), sure, x.shape)
    elif cont == 'narrow_int':
        # narrow and unsigned integer dtypes, small and large offsets from the centre
        cx, cy = (s.get('center') or s.get('start') or [float(np.mean(s['vertices'][0])), float(np.mean(s['vertices'][1]))])
        bx, by = int(math.floor(cx)), int(math.floor(cy))
        offs = [(0, 0), (1, 0), (-1, 1), (2, -2), (-3, -1), (0, 4), (5, 5), (100, -100), (200, 150), (-181, 182), (30000, 1), (70000, -66000), (-46341, 46341)]
        for dt in ('uint8', 'uint16', 'int8', 'int16', 'int32', 'uint32', 'int64'):
            info = np.iinfo(dt)
            pts = [(bx + a, by + b) for a, b in offs if info.min <= bx + a <= info.max and info.min <= by + b <= info.max]
            if not pts:
                continue
            x = np.array([p[0] for p in pts], dtype=dt)
            y = np.array([p[1] for p in pts], dtype=dt)
            ins, sure = ref.member(np.array([p[0] for p in pts], float), np.array([p[1] for p in pts], float))
            res.transitions += 1
            got = reg.contains(PixCoord(x, y))
            ok = _cmp(res, {**case, 'dtype': dt}, f'{dt} query array', got, want_of(ins), sure, x.shape)
            res.outcome(('narrow_int', dt, ok))
    elif cont == 'reassign':
        # the answer must follow the *current* parameters: query, re-assign every parameter, query again
        import astropy.units as u
        reg2 = G.build(s)
        reg2.contains(PixCoord(qx[:4], qy[:4]))
        t = dict(s)
        sizes = [k for k in ('radius', 'width', 'height', 'outer_radius', 'outer_width', 'outer_height', 'inner_radius', 'inner_width', 'inner_height') if k in s]
        for k in sizes:
            t[k] = s[k] * 1.5
        if 'center' in s:
            t['center'] = [s['center'][0] + 0.75 * ref.size() if isinstance(s['center'][0], float) else s['center'][0] + 3, s['center'][1]]
        if 'angle' in s:
            t['angle'] = [s['angle'][0] + 17.0 * G.UNIT['deg'] / G.UNIT[s['angle'][1]], s['angle'][1], s['angle'][2] if len(s['angle']) > 2 else 'quantity']
        if s['cls'] in ('polygon', 'regpoly', 'line', 'point', 'text') and s['cls'] != 'regpoly':
            res.transitions -= 1
            return
        if s['cls'] == 'regpoly':
            res.transitions -= 1
            return        # vertices of a regular polygon are derived at construction (not part of this property)
        from regions import PixCoord as PC
        # assign outer sizes first so that inner < outer holds at every step
        for k in sorted(sizes, key=lambda n: 0 if n.startswith('outer') else 1):
            setattr(reg2, k, t[k])
        if 'center' in s:
            reg2.center = PC(t['center'][0], t['center'][1])
        if 'angle' in s:
            reg2.angle = G._angle_obj(t['angle'])
        ref2 = G.Ref(t)
        x2, y2 = G.shape_frame_queries(t)
        ins2, sure2 = ref2.member(x2, y2)
        got = reg2.contains(PixCoord(x2, y2))
        ok = _cmp(res, case, 'after re-assigning all parameters', got, (ins2 if flag else ~ins2), sure2, x2.shape)
        res.outcome(('reassign', s['cls'], ok))
    elif cont == 'in_array':
        try:
            PixCoord(qx[:3], qy[:3]) in reg
        except ValueError:
            pass
        else:
            res.violation(ID, 'in_operator_accepts_array', case, '`array coord in region` did not raise ValueError')


def shards(tier, seed):
    # all 9 containers x 5 includes are crossed on every 6th configuration of each class (and on every
    # configuration of the small classes); the others get include x flat and {absent, False} x scalar
    cfgs = []
    count = {}
    for c in configs(tier):
        k = count.get(c['cls'], 0)
        count[c['cls']] = k + 1
        small = c['cls'] in ('circle', 'polygon', 'point', 'line', 'text', 'circleannulus', 'compound')
        cfgs.append((c, bool(small or k % 6 == 0)))
    n = 64 if tier == 'quick' else 256
    return chunks(cfgs, n)


def run_shard(shard, tier, seed):
    res = Result()
    for spec, full in shard['cases']:
        check_config(res, spec, full=full)
    return res


def replay(case):
    res = Result()
    s = dict(case['spec'])
    inc = s.pop('include', 'absent')
    conts = [case['container']] if 'container' in case else CONTAINERS
    check_config(res, s, includes=[inc], containers=conts)
    return res
