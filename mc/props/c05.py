"""C05 -- applying a mask to an image is exact placement at the bounding box.

Engine E2 (bounded-exhaustive lattice).  Masks are built directly,
``RegionMask(weights, bbox=RegionBoundingBox(ixmin, ixmax, iymin, iymax))``,
for every box position of a window that reaches two pixels beyond "fully
outside" on each side of every image, and the five public methods are called
with the full product of the arguments each of them accepts.

Reference model (independent of numpy slicing): plain nested Python lists and
``fractions.Fraction``.  Box cell (j, i) sits on image pixel
(y, x) = (iymin + j, ixmin + i); it is "inside" when 0 <= y < ny and
0 <= x < nx.  Everything else follows from that one sentence:

* to_image[y][x]  = w[j][i] where inside, 0 elsewhere;
* cutout[j][i]    = data[y][x] where inside, the fill value elsewhere (a
  Quantity stays a Quantity in the same unit);
* multiply[j][i]  = cutout[j][i] * w[j][i] where w > 0; where w == 0 the
  statement is silent (0 is what "weight times value" gives, the fill value
  is what the code documents) -- both are accepted;
* get_values      = [data[y][x] * w[j][i]] for image pixels in row-major
  order (y outer, x inner) that lie in the box with w > 0 and are not
  user-masked;
* no common pixel => None / None / None / an empty array of shape (0,) and
  (None, None) from get_overlap_slices; never an exception;
* the image buffer, the user mask and the weight array are bit-identical
  after every call; ``copy=True`` => the cutout does not share memory with the
  image (with ``copy=False`` sharing is allowed, not required).

What is deliberately NOT demanded (statement silent): result dtypes (only
values are compared, as exact ints / Fractions of the returned floats), whether
``copy=False`` returns a view, the dtype/unit of the empty no-overlap array.
Image values are all distinct (100*y + x + 1, +0.5 for float types) so a
misplaced, transposed or wrapped-around window cannot reproduce the expected
numbers.
"""
import math
import warnings
from fractions import Fraction

import numpy as np

from mc.result import Result
from mc.lattice import chunks

ID = 'C05'
LEVEL = 'model_checking'
ENGINE = 'E2-lattice'
FILES = ['regions/core/mask.py', 'regions/core/bounding_box.py']
RULE = ('full Cartesian product of box lower-left position (every integer position from two pixels beyond '
        '"fully outside below/left" to two pixels beyond "fully outside above/right", at least [-4,6]^2) x box '
        'shape (including zero-width/height boxes) x image shape; per such state, for every weight pattern: '
        'to_image and get_overlap_slices once, and for every data dtype x memory layout: cutout over fill x copy, '
        'multiply over fill, get_values over user-mask pattern (i.e. the full product of the arguments each method '
        'takes).  One state = one (position, box shape, image shape); a state is non-trivial when the box '
        'straddles at least one image edge (partial overlap or box covering the image)')
BOUNDS = {
    'quick': 'box shapes 1x1,2x3,3x2,8x8,0x2,2x0; image shapes 5x6,1x1,3x4,6x2; weights ones/checker/antichecker/tiny (2^-40, 2^-30, 2^-27)/'
             'dyadic fractions with zeros; dtypes int64,uint16,float64,Quantity[Jy]; layouts C and strided view of a '
             'larger buffer; fills 0,7,NaN,+inf; copy False/True; user mask None/all False/checker/all True',
    'thorough': 'quick plus box shapes 1x4,4x1,5x5,10x7,0x0; image shapes 1x5,7x1,2x2,4x4,0x3,3x0; non-dyadic '
                'weights; dtypes int32,float32; Fortran-ordered images; fill -inf and -2.5 (float data)',
}
ASSUMPTIONS = ['numpy ndarray.tolist()/tobytes() and Quantity.to_value are trusted to read results back',
               'weights are float64 arrays (what the simple shapes produce), int64 0/1 arrays (what compound regions produce), bool and float32 arrays',
               'image pixel values are finite; box/image extents are bounded by the stated shapes',
               'a product data*weight may differ from the exact rational product by 2^-50 relative '
               '(exact for the dyadic weight patterns)']

TOL = Fraction(1, 2 ** 50)
UNIT = 'Jy'
# Quantity images: a physical unit, and a scaled dimensionless one (into which astropy lets a bare number be assigned -- converted)
QUNITS = {'quantity': 'Jy', 'quantity_pct': 'percent'}

# ------------------------------------------------------------------ scope --
_Q = dict(
    boxes=[(1, 1), (2, 3), (3, 2), (8, 8), (0, 2), (2, 0)],
    images=[(5, 6), (1, 1), (3, 4), (6, 2)],
    weights=['ones', 'checker', 'antichecker', 'frac', 'tiny', 'frac_list', 'wide', 'checker@i8', 'ones@bool', 'frac@f4', 'frac@moved', 'signed', 'nondyadic'],
    dtypes=['int64', 'float64', 'quantity', 'uint16', 'quantity_pct', 'float32'],
    layouts=['C', 'view'],
    fills=['0', '7', 'nan', 'inf'],
    copies=[False, True],
    dmasks=['none', 'allfalse', 'checker', 'alltrue'],
)
_T = dict(
    boxes=_Q['boxes'] + [(1, 4), (4, 1), (5, 5), (10, 7), (0, 0)],
    images=_Q['images'] + [(1, 5), (7, 1), (2, 2), (4, 4), (0, 3), (3, 0)],
    weights=_Q['weights'] + ['checker_list'],
    dtypes=_Q['dtypes'] + ['int32'],
    layouts=['C', 'view', 'F'],
    fills=_Q['fills'] + ['-inf', '-2.5'],
    copies=[False, True],
    dmasks=_Q['dmasks'],
)


def _scope(tier):
    return _Q if tier == 'quick' else _T


FILLS = {'0': 0.0, '7': 7.0, 'nan': math.nan, 'inf': math.inf, '-inf': -math.inf, '-2.5': -2.5}
_INT_DTYPES = ('int64', 'int32', 'uint16')


def _fill_applicable(dt, fname, wkind='f'):
    # -2.5 is not representable in an integer image and mask.py documents float promotion only for
    # non-finite fills; the statement does not say what a truncated fill should be -> not generated.
    # Integer image x integer (or boolean) weights is an integer cutout: it has no place for a non-finite fill either.
    if dt in _INT_DTYPES and wkind in 'iub' and fname in ('nan', 'inf', '-inf'):
        return False
    return not (fname == '-2.5' and dt in _INT_DTYPES)


def _fill_model(fname):
    """Fill value in the reference model: Fraction, or 'nan' / 'inf' / '-inf'."""
    if fname in ('nan', 'inf', '-inf'):
        return fname
    return Fraction(FILLS[fname])


def _positions(bn, n):
    """Lower-corner positions along one axis for a box of extent bn on an image of extent n."""
    return range(min(-4, -bn - 1), max(6, n + 1) + 1)


def states(tier):
    S = _scope(tier)
    out = []
    for (iny, inx) in S['images']:
        for (bny, bnx) in S['boxes']:
            for iymin in _positions(bny, iny):
                for ixmin in _positions(bnx, inx):
                    out.append([ixmin, iymin, bny, bnx, iny, inx])
    return out


# ------------------------------------------------------- reference model --
def _weight(wname, j, i):
    if wname == 'ones':
        return Fraction(1)
    if wname == 'checker':
        return Fraction(1 if (i + j) % 2 == 0 else 0)
    if wname == 'antichecker':
        return Fraction(0 if (i + j) % 2 == 0 else 1)
    if wname == 'frac':      # k/8, k in 0..8: exact zeros, exact one, everything dyadic
        return Fraction((3 * j + 5 * i + 1) % 9, 8)
    if wname == 'tiny':      # strictly positive weights far below any tolerance (a pixel the shape barely grazes), zeros and ones
        return [Fraction(0), Fraction(1, 2 ** 40), Fraction(1), Fraction(1, 2 ** 30), Fraction(1, 2 ** 27)][(2 * j + 3 * i + 1) % 5]
    if wname == 'wide':      # a caller-built coverage map: weights above 1 are weights like any other
        return [Fraction(0), Fraction(5, 4), Fraction(2), Fraction(1), Fraction(3, 2)][(2 * j + 3 * i + 1) % 5]
    if wname == 'signed':    # a caller-built map with negative entries: values are returned where the weight is POSITIVE, not where it is non-zero
        return [Fraction(0), Fraction(-1, 2), Fraction(1), Fraction(1, 4), Fraction(-13, 4)][(2 * j + 3 * i + 1) % 5]
    if wname == 'nondyadic':  # the float nearest to 0, .3, .6, .9 (reference uses that float exactly)
        return Fraction([0.0, 0.3, 0.6, 0.9][(2 * j + 3 * i + 1) % 4])
    raise ValueError(wname)


def _pixel(dt, y, x):
    v = Fraction(100 * y + x + 1)
    return v if dt in _INT_DTYPES else v + Fraction(1, 2)


def _dmask(name, y, x):
    if name == 'allfalse':
        return False
    if name == 'alltrue':
        return True
    if name == 'checker':
        return (x + y) % 2 == 0
    raise ValueError(name)


def _axis_class(lo, bn, n):
    hi = lo + bn
    if bn == 0:
        return 'empty'
    if hi <= 0:
        return 'out_lo'
    if lo >= n:
        return 'out_hi'
    if lo >= 0 and hi <= n:
        return 'in'
    if lo < 0 and hi > n:
        return 'span'
    return 'cut_lo' if lo < 0 else 'cut_hi'


class Geo:
    """Pure-integer description of one state."""

    def __init__(self, st):
        self.st = list(st)
        self.ixmin, self.iymin, self.bny, self.bnx, self.iny, self.inx = st
        ix, iy, bny, bnx, ny, nx = st
        # cells[j][i] = (y, x) of the image pixel under box cell (j, i), or None outside the image
        self.cells = [[((iy + j, ix + i) if (0 <= iy + j < ny and 0 <= ix + i < nx) else None)
                       for i in range(bnx)] for j in range(bny)]
        n_in = sum(1 for row in self.cells for c in row if c is not None)
        self.overlap = n_in > 0
        if not self.overlap:
            self.kind = 'none'
        elif n_in == bny * bnx:
            self.kind = 'inside'
        elif n_in == ny * nx:
            self.kind = 'covers'
        else:
            self.kind = 'partial'
        self.xclass = _axis_class(ix, bnx, nx)
        self.yclass = _axis_class(iy, bny, ny)


def _mulv(c, w):
    """cutout value (Fraction / 'nan' / 'inf' / '-inf') times a weight w > 0."""
    return c if type(c) is str else c * w


def _same(g, e, tol=None):
    """Is the returned Python scalar g the model value e?"""
    if type(e) is str:
        if not isinstance(g, float):
            return False
        if e == 'nan':
            return g != g
        return g == (math.inf if e == 'inf' else -math.inf)
    if isinstance(g, bool) or not isinstance(g, (int, float)):
        return False
    if isinstance(g, float) and (g != g or g in (math.inf, -math.inf)):
        return False
    d = Fraction(g) - e
    if d == 0:
        return True
    return tol is not None and abs(d) <= abs(e) * tol


def _show(e):
    return e if type(e) is str else (int(e) if e.denominator == 1 else float(e))


# ------------------------------------------------- real objects (cached) --
_DATA = {}
_MASKS = {}


class Img:
    """A real image plus the memory that must stay bit-identical."""
    __slots__ = ('data', 'raw', 'pristine', 'bytes0')

    def restore(self):
        np.copyto(self.raw, self.pristine)

    def modified(self):
        return self.raw.tobytes() != self.bytes0


def _image(dt, layout, iny, inx):
    key = (dt, layout, iny, inx)
    im = _DATA.get(key)
    if im is not None:
        return im
    import astropy.units as u
    npdt = {'int64': np.int64, 'int32': np.int32, 'uint16': np.uint16, 'float64': np.float64,
            'float32': np.float32, 'quantity': np.float64, 'quantity_pct': np.float64}[dt]
    vals = [[_pixel(dt, y, x) for x in range(inx)] for y in range(iny)]
    plain = np.array([[float(v) for v in row] for row in vals], dtype=np.float64).reshape(iny, inx).astype(npdt)
    im = Img()
    if layout == 'C':
        raw = np.ascontiguousarray(plain)
        view = raw
    elif layout == 'F':
        raw = np.asfortranarray(plain)
        view = raw
    elif layout == 'view':
        # image = interior of a larger buffer with a column stride; the margin holds a sentinel that no
        # expected value equals, and belongs to the memory that must not change
        raw = np.full((iny + 3, 2 * inx + 5), 9000, dtype=npdt)
        raw[1:1 + iny, 2:2 + 2 * inx:2] = plain
        view = raw[1:1 + iny, 2:2 + 2 * inx:2]
    else:
        raise ValueError(layout)
    if dt in QUNITS:
        q = u.Quantity(raw, u.Unit(QUNITS[dt]), copy=False, subok=False)
        if raw.size and not np.shares_memory(q.view(np.ndarray), raw):      # harness self-check
            raise RuntimeError('Quantity does not wrap the tracked buffer')
        if layout == 'view':
            view = q[1:1 + iny, 2:2 + 2 * inx:2]
        else:
            view = q
    assert view.shape == (iny, inx)
    im.data = view
    im.raw = raw
    im.pristine = raw.copy()
    im.bytes0 = raw.tobytes()
    _DATA[key] = im
    return im


def _usermask(name, iny, inx):
    if name == 'none':
        return None, None
    key = (name, iny, inx)
    m = _MASKS.get(key)
    if m is None:
        arr = np.array([[_dmask(name, y, x) for x in range(inx)] for y in range(iny)], dtype=bool).reshape(iny, inx)
        m = (arr, arr.tobytes())
        _MASKS[key] = m
    return m


class Ctx:
    """One state x one weight pattern: the real RegionMask and its model."""

    def __init__(self, geo, wname):
        from regions import RegionMask, RegionBoundingBox
        self.geo = geo
        self.wname = wname
        g = geo
        # '<pattern>_list': the same weights handed to RegionMask as a nested list instead of an ndarray
        # '<pattern>@<dtype>': the weights stored in another dtype (compound masks hold integers); '<pattern>@moved': the
        # mask object was first used at another position and then given this bounding box
        wname0, *mods = wname.split('@')
        base = wname0[:-5] if wname0.endswith('_list') else wname0
        self.W = [[_weight(base, j, i) for i in range(g.bnx)] for j in range(g.bny)]
        self.warr = np.array([[float(w) for w in row] for row in self.W], dtype=np.float64).reshape(g.bny, g.bnx)
        for m in mods:
            if m != 'moved':
                self.warr = self.warr.astype({'i8': np.int64, 'u1': np.uint8, 'bool': np.bool_, 'f4': np.float32}[m])
        self.wbytes = self.warr.tobytes()
        self.bbox = RegionBoundingBox(g.ixmin, g.ixmin + g.bnx, g.iymin, g.iymin + g.bny)
        if 'moved' in mods:
            first = RegionBoundingBox(g.ixmin - 2, g.ixmin - 2 + g.bnx, g.iymin + 1, g.iymin + 1 + g.bny)
            self.mask = RegionMask(self.warr, bbox=first)
            img = np.arange(float(g.iny * g.inx)).reshape(g.iny, g.inx)
            for use in (lambda: self.mask.get_overlap_slices((g.iny, g.inx)), lambda: self.mask.to_image((g.iny, g.inx)),
                        lambda: self.mask.cutout(img), lambda: self.mask.multiply(img), lambda: self.mask.get_values(img)):
                try:
                    use()
                except Exception:      # noqa: BLE001 -- only the later, checked calls count
                    pass
            self.mask.bbox = self.bbox
        elif wname0.endswith('_list') and g.bny and g.bnx:
            self.mask = RegionMask(self.warr.tolist(), bbox=self.bbox)
        else:
            self.mask = RegionMask(self.warr, bbox=self.bbox)

    def base_case(self, method):
        g = self.geo
        return {'state': list(g.st), 'weights': self.wname, 'method': method}


# --------------------------------------------------------------- checking --
def _V(res, kind, case, msg, expected=None, observed=None):
    res.violation(ID, kind, case, msg, expected, observed)


def _call(res, fn):
    res.transitions += 1
    res.evaluations += 1
    try:
        with warnings.catch_warnings():
            warnings.simplefilter('ignore')
            return True, fn()
    except Exception as exc:  # noqa -- the property allows no exception for these calls
        return False, exc


def _describe(ctx):
    g = ctx.geo
    return (f'box x[{g.ixmin},{g.ixmin + g.bnx}) y[{g.iymin},{g.iymin + g.bny}) (shape {g.bny}x{g.bnx}, '
            f'weights {ctx.wname}) on image {g.iny}x{g.inx} [{g.kind}]')


def _raised(res, ctx, case, what, exc):
    _V(res, 'unexpected_exception', case,
       f'{what} raised {type(exc).__name__}: {exc} -- {_describe(ctx)}',
       'a result (None when there is no overlap)', type(exc).__name__)


def _unpack(r, want_unit):
    """-> (ok, values ndarray or message).  For Quantity input the result must carry the same unit."""
    import astropy.units as u
    if not isinstance(r, np.ndarray):
        return False, f'returned {type(r).__name__}, not an array'
    if want_unit:
        UNIT = want_unit if isinstance(want_unit, str) else 'Jy'
        if not isinstance(r, u.Quantity):
            return 'unit', f'input was a Quantity in {UNIT} but the result is a plain {type(r).__name__} (unit lost)'
        try:
            return True, r.to_value(u.Unit(UNIT))
        except Exception as exc:  # noqa
            return 'unit', f'input was a Quantity in {UNIT} but the result has unit {r.unit} ({exc})'
    if isinstance(r, u.Quantity):
        return True, r.value
    return True, r


def _after(res, ctx, case, what, im=None, um=None):
    """Nothing the caller handed in may have changed.  Returns True when the image buffer was modified
    (it is restored here, so a result that is a view of it can no longer be judged)."""
    dirty = False
    if im is not None and im.modified():
        dirty = True
        now = im.raw.tolist()
        was = im.pristine.tolist()
        diff = [(y, x, was[y][x], now[y][x]) for y in range(len(was)) for x in range(len(was[y]))
                if not (was[y][x] == now[y][x])]
        _V(res, 'input_modified', case,
           f'{what} modified the caller\'s image buffer ({len(diff)} element(s); first (row, col, before, after) = '
           f'{diff[0] if diff else "bytes differ"}) -- {_describe(ctx)}', 'image unchanged', repr(diff[:4]))
        im.restore()
    if um is not None and um[0] is not None and um[0].tobytes() != um[1]:
        _V(res, 'usermask_modified', case, f'{what} modified the user mask -- {_describe(ctx)}')
        _MASKS.clear()
    if ctx.warr.tobytes() != ctx.wbytes or ctx.mask.data is not ctx.warr and \
            np.asarray(ctx.mask.data).tobytes() != ctx.wbytes:
        _V(res, 'weights_modified', case, f'{what} modified the mask weights -- {_describe(ctx)}')
        raise _Rebuild()
    return dirty


class _Rebuild(Exception):
    """Internal: the Ctx must be rebuilt (weights were modified by the library)."""


def _grid_cmp(got, exp_fn, ny, nx, tol=None):
    """Compare nested list got[ny][nx] with exp_fn(r, c) -> model value or tuple of acceptable values.
    Returns list of (r, c, expected, got) mismatches."""
    bad = []
    for r in range(ny):
        grow = got[r]
        for c in range(nx):
            e = exp_fn(r, c)
            g = grow[c]
            if type(e) is tuple:
                ok = any(_same(g, a, tol) for a in e)
            else:
                ok = _same(g, e, tol)
            if not ok:
                bad.append((r, c, e, g))
    return bad


def _fmt_bad(bad):
    r, c, e, g = bad[0]
    es = ' or '.join(str(_show(a)) for a in e) if type(e) is tuple else _show(e)
    return f'{len(bad)} wrong pixel(s); first at [row {r}][col {c}]: expected {es}, got {g!r}'


def check_slices(res, ctx):
    g = ctx.geo
    case = ctx.base_case('get_overlap_slices')
    ok, r = _call(res, lambda: ctx.mask.get_overlap_slices((g.iny, g.inx)))
    if not ok:
        _raised(res, ctx, case, 'get_overlap_slices', r)
        return
    _after(res, ctx, case, 'get_overlap_slices')
    if not (isinstance(r, tuple) and len(r) == 2):
        _V(res, 'slices_wrong', case, f'get_overlap_slices returned {r!r}, not a pair -- {_describe(ctx)}')
        return
    sl, ss = r
    if not g.overlap:
        res.outcome(('get_overlap_slices', g.kind, 'None' if (sl is None and ss is None) else 'slices'))
        if sl is not None or ss is not None:
            _V(res, 'not_none_without_overlap', case,
               f'get_overlap_slices returned {r!r} although box and image share no pixel -- {_describe(ctx)}',
               None, repr(r))
        return
    if sl is None or ss is None:
        _V(res, 'none_with_overlap', case, f'get_overlap_slices returned {r!r} but pixels are shared -- {_describe(ctx)}')
        return
    # apply the slices to plain Python lists of indices (list slicing wraps negatives exactly like numpy)
    try:
        ys_l = list(range(g.iny))[sl[0]]
        xs_l = list(range(g.inx))[sl[1]]
        js_s = list(range(g.bny))[ss[0]]
        is_s = list(range(g.bnx))[ss[1]]
    except Exception as exc:  # noqa
        _V(res, 'slices_wrong', case, f'slices {r!r} unusable: {exc} -- {_describe(ctx)}')
        return
    ys = sorted({c[0] for row in g.cells for c in row if c is not None})
    xs = sorted({c[1] for row in g.cells for c in row if c is not None})
    want = (ys, xs, [y - g.iymin for y in ys], [x - g.ixmin for x in xs])
    got = (ys_l, xs_l, js_s, is_s)
    res.outcome(('get_overlap_slices', g.kind, 'slices'))
    if got != want:
        _V(res, 'slices_wrong', case,
           f'slices {r!r} select image rows {ys_l} cols {xs_l} / box rows {js_s} cols {is_s}; the common pixels '
           f'are image rows {ys} cols {xs} / box rows {want[2]} cols {want[3]} -- {_describe(ctx)}',
           repr(want), repr(got))


TO_IMAGE_DTYPES = [None, 'float32', 'int64', 'uint8', 'bool']


def check_to_image(res, ctx, dtype=None):
    """to_image with the default dtype (float) and with every dtype of TO_IMAGE_DTYPES: the placed weights, cast the
    way numpy casts on assignment."""
    g = ctx.geo
    case = ctx.base_case('to_image')
    if dtype is not None:
        case['dtype'] = dtype
        ok, r = _call(res, lambda: ctx.mask.to_image((g.iny, g.inx), dtype=np.dtype(dtype)))
    else:
        ok, r = _call(res, lambda: ctx.mask.to_image((g.iny, g.inx)))
    if not ok:
        _raised(res, ctx, case, 'to_image', r)
        return
    _after(res, ctx, case, 'to_image')
    if isinstance(r, np.ndarray) and r.size and np.shares_memory(r, np.asarray(ctx.mask.data)):
        _V(res, 'to_image_wrong', case, f'to_image returned an array that shares memory with the mask weights (the image is the caller\'s to edit) '
                                        f'-- {_describe(ctx)}', 'a new array', 'shares memory with mask.data')
        r = np.array(r, copy=True)
    if not g.overlap:
        res.outcome(('to_image', g.kind, 'None' if r is None else type(r).__name__))
        if r is not None:
            _V(res, 'not_none_without_overlap', case,
               f'to_image returned {type(r).__name__} of shape {np.shape(r)} although box and image share no pixel '
               f'-- {_describe(ctx)}', None, repr(np.shape(r)))
        return
    if r is None:
        _V(res, 'none_with_overlap', case, f'to_image returned None but pixels are shared -- {_describe(ctx)}')
        return
    okk, vals = _unpack(r, False)
    if okk is not True:
        _V(res, 'to_image_wrong', case, f'to_image {vals} -- {_describe(ctx)}')
        return
    if vals.shape != (g.iny, g.inx):
        _V(res, 'to_image_wrong', case, f'to_image shape {vals.shape}, image shape {(g.iny, g.inx)} -- {_describe(ctx)}',
           [g.iny, g.inx], list(vals.shape))
        return
    # model: zero image, then drop every inside cell's weight on its pixel
    model = [[Fraction(0)] * g.inx for _ in range(g.iny)]
    for j in range(g.bny):
        for i in range(g.bnx):
            c = g.cells[j][i]
            if c is not None:
                model[c[0]][c[1]] = ctx.W[j][i]
    if dtype is not None:
        want = np.array([[float(v) for v in row] for row in model], dtype=float).reshape(g.iny, g.inx).astype(np.dtype(dtype))
        got = np.asarray(r)
        res.outcome(('to_image', g.kind, dtype, 'ok' if got.dtype == want.dtype and np.array_equal(got, want) else 'wrong'))
        if got.dtype != want.dtype or not np.array_equal(got, want):
            _V(res, 'to_image_wrong', case, f'to_image(dtype={dtype}) gives dtype {got.dtype} values {got.tolist()}, expected the placed '
                                            f'weights cast to {dtype}: {want.tolist()} -- {_describe(ctx)}', want.tolist(), got.tolist())
        return
    bad = _grid_cmp(vals.tolist(), lambda y, x: model[y][x], g.iny, g.inx)
    res.outcome(('to_image', g.kind, 'ok' if not bad else 'wrong'))
    if bad:
        _V(res, 'to_image_wrong', case, f'to_image: {_fmt_bad(bad)} -- {_describe(ctx)}',
           [[_show(v) for v in row] for row in model], vals.tolist())


def _model_cutout(ctx, dt, fname):
    g = ctx.geo
    F = _fill_model(fname)
    return [[(_pixel(dt, *g.cells[j][i]) if g.cells[j][i] is not None else F) for i in range(g.bnx)]
            for j in range(g.bny)]


def check_cutout(res, ctx, dt, layout, fname, copy):
    g = ctx.geo
    case = ctx.base_case('cutout')
    case.update({'dtype': dt, 'layout': layout, 'fill': fname, 'copy': bool(copy)})
    im = _image(dt, layout, g.iny, g.inx)
    ok, r = _call(res, lambda: ctx.mask.cutout(im.data, fill_value=FILLS[fname], copy=copy))
    if not ok:
        _after(res, ctx, case, 'cutout', im)
        _raised(res, ctx, case, f'cutout({dt} image, fill_value={fname}, copy={copy})', r)
        return
    if _after(res, ctx, case, 'cutout', im):
        res.outcome(('cutout', g.kind, 'input_modified'))
        return
    if not g.overlap:
        res.outcome(('cutout', g.kind, 'None' if r is None else type(r).__name__))
        if r is not None:
            _V(res, 'not_none_without_overlap', case,
               f'cutout returned {type(r).__name__} of shape {np.shape(r)} although box and image share no pixel '
               f'-- {_describe(ctx)}', None, repr(np.shape(r)))
        return
    if r is None:
        _V(res, 'none_with_overlap', case, f'cutout returned None but pixels are shared -- {_describe(ctx)}')
        return
    okk, vals = _unpack(r, QUNITS.get(dt, False))
    if okk is not True:
        _V(res, 'unit_lost' if okk == 'unit' else 'cutout_wrong', case,
           f'cutout({dt}, fill={fname}, copy={copy}) {vals} -- {_describe(ctx)}')
        return
    if vals.shape != (g.bny, g.bnx):
        _V(res, 'cutout_wrong', case, f'cutout shape {vals.shape}, box shape {(g.bny, g.bnx)} -- {_describe(ctx)}',
           [g.bny, g.bnx], list(vals.shape))
        return
    shares = bool(np.shares_memory(vals, im.raw))
    if copy and shares:
        _V(res, 'copy_shares_memory', case,
           f'cutout(copy=True) returned an array sharing memory with the input image -- {_describe(ctx)}',
           'no shared memory', 'shares memory')
    model = _model_cutout(ctx, dt, fname)
    bad = _grid_cmp(vals.tolist(), lambda j, i: model[j][i], g.bny, g.bnx)
    res.outcome(('cutout', g.kind, 'view' if shares else 'copy', 'ok' if not bad else 'wrong'))
    if bad:
        _V(res, 'cutout_wrong', case,
           f'cutout({dt} image, fill_value={fname}, copy={copy}): {_fmt_bad(bad)} -- {_describe(ctx)}',
           [[_show(v) for v in row] for row in model], vals.tolist())


def check_multiply(res, ctx, dt, layout, fname):
    g = ctx.geo
    case = ctx.base_case('multiply')
    case.update({'dtype': dt, 'layout': layout, 'fill': fname})
    im = _image(dt, layout, g.iny, g.inx)
    ok, r = _call(res, lambda: ctx.mask.multiply(im.data, fill_value=FILLS[fname]))
    if not ok:
        _after(res, ctx, case, 'multiply', im)
        _raised(res, ctx, case, f'multiply({dt} image, fill_value={fname})', r)
        return
    if _after(res, ctx, case, 'multiply', im):
        res.outcome(('multiply', g.kind, 'input_modified'))
        return
    if not g.overlap:
        res.outcome(('multiply', g.kind, 'None' if r is None else type(r).__name__))
        if r is not None:
            _V(res, 'not_none_without_overlap', case,
               f'multiply returned {type(r).__name__} of shape {np.shape(r)} although box and image share no pixel '
               f'-- {_describe(ctx)}', None, repr(np.shape(r)))
        return
    if r is None:
        _V(res, 'none_with_overlap', case, f'multiply returned None but pixels are shared -- {_describe(ctx)}')
        return
    okk, vals = _unpack(r, QUNITS.get(dt, False))
    if okk is not True:
        _V(res, 'unit_lost' if okk == 'unit' else 'multiply_wrong', case,
           f'multiply({dt}, fill={fname}) {vals} -- {_describe(ctx)}')
        return
    if vals.shape != (g.bny, g.bnx):
        _V(res, 'multiply_wrong', case, f'multiply shape {vals.shape}, box shape {(g.bny, g.bnx)} -- {_describe(ctx)}',
           [g.bny, g.bnx], list(vals.shape))
        return
    cut = _model_cutout(ctx, dt, fname)
    F = _fill_model(fname)
    W = ctx.W

    def exp(j, i):
        w = W[j][i]
        if w != 0:      # (a negative weight is a weight: the product; only weight 0 may show the fill value)
            return _mulv(cut[j][i], w)
        return (Fraction(0), F)      # statement silent for zero weight: 0 or the fill value
    bad = _grid_cmp(vals.tolist(), exp, g.bny, g.bnx, TOL)
    res.outcome(('multiply', g.kind, 'ok' if not bad else 'wrong'))
    if bad:
        _V(res, 'multiply_wrong', case,
           f'multiply({dt} image, fill_value={fname}): {_fmt_bad(bad)} -- {_describe(ctx)}',
           [[(_show(exp(j, i)) if type(exp(j, i)) is not tuple else [_show(a) for a in exp(j, i)])
             for i in range(g.bnx)] for j in range(g.bny)], vals.tolist())


def check_values(res, ctx, dt, layout, mname):
    g = ctx.geo
    case = ctx.base_case('get_values')
    case.update({'dtype': dt, 'layout': layout, 'dmask': mname})
    im = _image(dt, layout, g.iny, g.inx)
    um = _usermask(mname, g.iny, g.inx)
    if mname == 'none':
        ok, r = _call(res, lambda: ctx.mask.get_values(im.data))
    else:
        ok, r = _call(res, lambda: ctx.mask.get_values(im.data, mask=um[0]))
    if not ok:
        _after(res, ctx, case, 'get_values', im, um)
        _raised(res, ctx, case, f'get_values({dt} image, mask={mname})', r)
        return
    if _after(res, ctx, case, 'get_values', im, um):
        res.outcome(('get_values', g.kind, 'input_modified'))
        return
    if not isinstance(r, np.ndarray):
        _V(res, 'values_wrong', case, f'get_values returned {type(r).__name__}, not an array -- {_describe(ctx)}')
        return
    if not g.overlap:
        res.outcome(('get_values', g.kind, f'shape{tuple(r.shape)}'))
        if r.shape != (0,):
            _V(res, 'not_empty_without_overlap', case,
               f'get_values returned shape {r.shape} although box and image share no pixel (expected an empty '
               f'array of shape (0,)) -- {_describe(ctx)}', [0], list(r.shape))
        return
    # model: walk the image in row-major order
    model = []
    for y in range(g.iny):
        j = y - g.iymin
        if not 0 <= j < g.bny:
            continue
        for x in range(g.inx):
            i = x - g.ixmin
            if not 0 <= i < g.bnx:
                continue
            w = ctx.W[j][i]
            if w > 0 and not (mname != 'none' and _dmask(mname, y, x)):
                model.append(_pixel(dt, y, x) * w)
    if r.ndim != 1:
        _V(res, 'values_wrong', case, f'get_values returned a {r.ndim}-d array -- {_describe(ctx)}')
        return
    if model:
        okk, vals = _unpack(r, QUNITS.get(dt, False))
        if okk is not True:
            _V(res, 'unit_lost' if okk == 'unit' else 'values_wrong', case,
               f'get_values({dt}, mask={mname}) {vals} -- {_describe(ctx)}')
            return
    else:
        vals = np.asarray(r)      # nothing selected: no unit demanded of an empty result
    got = vals.tolist()
    good = len(got) == len(model) and all(_same(a, e, TOL) for a, e in zip(got, model))
    res.outcome(('get_values', g.kind, 'some' if model else 'nothing', 'ok' if good else 'wrong'))
    if not good:
        _V(res, 'values_wrong', case,
           f'get_values({dt} image, mask={mname}) returned {got}; pixels with positive weight and not user-masked, '
           f'row-major, give {[_show(e) for e in model]} -- {_describe(ctx)}',
           [_show(e) for e in model], got)


# ------------------------------------------------------------------ driver --
def check_state(res, st, S):
    geo = Geo(st)
    res.states += 1
    res.axis('overlap_kind', geo.kind)
    res.axis('box_shape', f'{geo.bny}x{geo.bnx}')
    res.axis('image_shape', f'{geo.iny}x{geo.inx}')
    res.axis(f'pos[{geo.iny}x{geo.inx}]', f'{geo.yclass}/{geo.xclass}')
    if geo.kind in ('partial', 'covers'):
        res.nontriv(('st', list(st)))
    for wname in S['weights']:
        for attempt in range(2):
            try:
                ctx = Ctx(geo, wname)
            except Exception as exc:  # noqa -- constructing a mask with matching shapes must succeed
                _V(res, 'build_failed', {'state': list(st), 'weights': wname, 'method': 'build'},
                   f'RegionMask/RegionBoundingBox construction raised {type(exc).__name__}: {exc}')
                break
            try:
                _run_ctx(res, ctx, S)
                break
            except _Rebuild:
                continue


def check_nonfinite(res, ctx):
    """An image with NaN / +-inf pixels (also at pixels of weight zero) is the caller's: multiply / cutout / get_values
    leave it bit-identical and accept it read-only."""
    g = ctx.geo
    if g.iny == 0 or g.inx == 0:
        return
    yy, xx = np.mgrid[0:g.iny, 0:g.inx]
    img = (100.0 * yy + xx + 1.5).astype(float)
    k = (xx + 2 * yy) % 5
    img[k == 0] = np.nan
    img[k == 1] = np.inf
    img[k == 3] = -np.inf
    before = img.tobytes()
    ro = img.copy()
    ro.flags.writeable = False
    calls = (('multiply', lambda a: ctx.mask.multiply(a)), ('multiply(fill_value=7)', lambda a: ctx.mask.multiply(a, fill_value=7.0)),
             ('cutout', lambda a: ctx.mask.cutout(a)), ('cutout(copy=True)', lambda a: ctx.mask.cutout(a, copy=True)),
             ('get_values', lambda a: ctx.mask.get_values(a)))
    for name, fn in calls:
        case = ctx.base_case('nonfinite:' + name)
        ok, r = _call(res, lambda: fn(img))
        if not ok:
            _V(res, 'unexpected_exception', case, f'{name} on an image with non-finite pixels raised {type(r).__name__}: {r} -- {_describe(ctx)}')
        if img.tobytes() != before:
            _V(res, 'input_modified', case, f'{name} modified the caller\'s image (non-finite pixels) -- {_describe(ctx)}')
            img = np.frombuffer(before, dtype=float).reshape(g.iny, g.inx).copy()
        ok, r = _call(res, lambda: fn(ro))
        if not ok:
            _V(res, 'unexpected_exception', case, f'{name} on a read-only image with non-finite pixels raised {type(r).__name__}: {r} -- '
                                                  f'{_describe(ctx)}')
        _after(res, ctx, case, name)
    # get_values: one entry per in-image pixel of positive weight, in row-major order -- non-finite pixels included
    want = []
    for j in range(g.bny):
        for i in range(g.bnx):
            c = g.cells[j][i]
            if c is not None and ctx.W[j][i] > 0:
                want.append(float(img[c[0], c[1]]) * float(ctx.W[j][i]))
    ok, r = _call(res, lambda: ctx.mask.get_values(img))
    if ok:
        got = np.asarray(r, float).ravel()
        if got.shape != (len(want),) or not np.array_equal(got, np.array(want, float), equal_nan=True):
            _V(res, 'values_wrong', ctx.base_case('nonfinite:get_values'),
               f'get_values on an image with non-finite pixels returned {got.tolist()}, expected {want} (one entry per in-image pixel of positive '
               f'weight) -- {_describe(ctx)}', want, got.tolist())
    res.outcome(('nonfinite', g.kind))


def _run_ctx(res, ctx, S):
    check_slices(res, ctx)
    check_to_image(res, ctx)
    for dt in TO_IMAGE_DTYPES[1:]:
        check_to_image(res, ctx, dtype=dt)
    check_nonfinite(res, ctx)
    for dt in S['dtypes']:
        for layout in S['layouts']:
            for fname in S['fills']:
                if not _fill_applicable(dt, fname, ctx.warr.dtype.kind):
                    continue
                for copy in S['copies']:
                    check_cutout(res, ctx, dt, layout, fname, copy)
                if not ctx.wname.startswith('signed'):
                    # (what fill value x negative weight should be outside the image is not stated: the signed pattern is judged on
                    # placement, cutout and value extraction only)
                    check_multiply(res, ctx, dt, layout, fname)
            for mname in S['dmasks']:
                check_values(res, ctx, dt, layout, mname)


def shards(tier, seed):
    # VERIF_SEED is deliberately unused: the space is enumerated completely
    return chunks(states(tier), 64 if tier == 'quick' else 256)


def run_shard(shard, tier, seed):
    res = Result()
    S = _scope(tier)
    for st in shard['cases']:
        check_state(res, st, S)
    for name in ('weights', 'dtypes', 'layouts', 'fills', 'dmasks'):
        for v in S[name]:
            res.axis(name, v)
    for st in shard['cases'][:1]:
        res.sample({'state': list(st), 'weights': S['weights'][-1], 'method': 'multiply', 'dtype': S['dtypes'][-1],
                    'layout': S['layouts'][-1], 'fill': 'nan'})
    return res


def finalize(total, tier, seed):
    """Harness self-check: every image shape saw the box fully outside on each side, cut by each edge,
    inside, and spanning."""
    S = _scope(tier)
    for (iny, inx) in S['images']:
        seen = total.axes.get(f'pos[{iny}x{inx}]', {})
        ys = {k.split('/')[0] for k in seen}
        xs = {k.split('/')[1] for k in seen}
        need = {'out_lo', 'out_hi'}
        if iny > 0 and inx > 0:
            need |= {'in', 'span', 'cut_lo', 'cut_hi'}
        if not need <= ys or not need <= xs:
            raise RuntimeError(f'position classes incomplete for image {iny}x{inx}: y {sorted(ys)} x {sorted(xs)}')
    kinds = set(total.axes.get('overlap_kind', {}))
    if not {'none', 'partial', 'inside', 'covers'} <= kinds:
        raise RuntimeError(f'overlap kinds incomplete: {sorted(kinds)}')


def replay(case):
    res = Result()
    st = case['state']
    geo = Geo(st)
    m = case['method']
    try:
        ctx = Ctx(geo, case['weights'])
    except Exception as exc:  # noqa
        _V(res, 'build_failed', case, f'RegionMask/RegionBoundingBox construction raised {type(exc).__name__}: {exc}')
        return res
    try:
        if m == 'get_overlap_slices':
            check_slices(res, ctx)
        elif m == 'to_image':
            check_to_image(res, ctx, dtype=case.get('dtype'))
        elif m.startswith('nonfinite'):
            check_nonfinite(res, ctx)
        elif m == 'cutout':
            check_cutout(res, ctx, case['dtype'], case['layout'], case['fill'], case['copy'])
        elif m == 'multiply':
            check_multiply(res, ctx, case['dtype'], case['layout'], case['fill'])
        elif m == 'get_values':
            check_values(res, ctx, case['dtype'], case['layout'], case['dmask'])
        elif m == 'build':
            pass
        else:
            raise ValueError(m)
    except _Rebuild:
        pass
    return res
