"""C07 -- a sky region's pixel image has the size and orientation the WCS dictates.

Engine E2 (bounded-exhaustive lattice).  One state = one (sky region spec, WCS spec, centre) configuration.
The real ``region.to_pixel(wcs)`` is executed and its result is compared with an oracle that is computed with
astropy only (``SkyCoord.directional_offset_by`` + ``wcs.world_to_pixel`` / ``pixel_to_world``) and own
arithmetic; ``regions._utils.wcs_helpers`` is never used.  Because the route is independent of
``pixel_scale_angle_at_skycoord`` an error made consistently in both conversion directions (invisible to the
round trips of C06) is visible here.

Sign convention, derived from the statement.  "Its width axis makes the stated angle alpha, counter-clockwise
in the image, with the local direction [...] 90 degrees clockwise from local north."  Position angles on the
sky are measured from north through east; in a standard-parity image (the only parity in this property's
quantifier) east is counter-clockwise from north.  So "90 deg clockwise from north" is position angle -90 deg,
and "alpha counter-clockwise from that" is position angle  alpha - 90 deg:
    width-axis tip   = centre.directional_offset_by(alpha - 90 deg, width / 2)
    height-axis tip  = centre.directional_offset_by(alpha,          height / 2)      (90 deg further ccw)
(Calibration on an unrotated TAN image, north up / east left: alpha = 0 puts the width tip at +x, alpha = 30 deg at
(cos 30, sin 30); the statement's words "direction of increasing longitude" name the longitude *axis* of such an
image, its explicit "i.e." clause is what is implemented.)

Checks per configuration (rel = 1e-6 + 2 theta^2, theta = cdelt [rad] x (distance of the region centre from the
reference pixel + largest size, in pixels) -- the projection's departure from a similarity over the region: for
TAN the radial scale is sec^2, the tangential sec of the native distance, for SIN cos and 1):
  centre   pixel centre == wcs.world_to_pixel(sky centre) within 1e-8 px;
  lengths  every pixel length == angular length / local scale within rel, the local scale being the own finite
           difference  separation(pixel (x, y-2), pixel (x, y+2)) / 4  (own Vincenty formula);
  tips     the pixel positions of the sky tips lie on the boundary of the pixel shape, in the shape's own frame
           (u, v) computed with own rotation from the pixel region's centre / angle: ellipse
           |sqrt((u/a)^2 + (v/b)^2) - 1| <= rel; rectangle width tip | |u| - w/2 | <= rel w/2 and |v| <= h/2,
           height tip alike; circle |distance / r - 1| <= rel (tips at position angles -90 and 0 deg);
           annuli: inner and outer shape separately;
  angle    pixel angle == alpha + N - 90 deg modulo 180 deg (ellipse / rectangle and their annuli have that
           symmetry; a width *axis* is a line) within rel radians, N = direction of north in the image from an own
           central difference (2 pixels to the north and to the south of the centre through world_to_pixel).
The observed deviation / theta^2 is histogrammed in the evidence (axis ``dev_over_theta2``).

VERIF_SEED: the quick tier enumerates projection x rotation x scale x frame fully (90 WCS) and pairs the four
reference coordinates cyclically, the seed shifts the phase.  The thorough tier is the full product.
"""
import math
import warnings

import numpy as np

from mc.result import Result
from mc.oracles import wcsref as W

ID = 'C07'
LEVEL = 'model_checking'
ENGINE = 'E2-lattice'
FILES = ['regions/_utils/wcs_helpers.py', 'regions/shapes/ellipse.py', 'regions/shapes/rectangle.py',
         'regions/shapes/circle.py', 'regions/shapes/annulus.py']
RULE = ('full Cartesian product of sky region spec (class x size (pair) in pixel equivalents x angle) x centre offset '
        'x WCS spec (projection x rotation x scale x frame x crval, standard parity); one state = one (spec, centre, WCS); '
        'per state one to_pixel compared with astropy-only tips / finite-difference scale / finite-difference north; a '
        'state is non-trivial when the WCS is rotated (north is not up: the only case the library tests cover is '
        'excluded) and, for shapes with an angle, width != height')
BOUNDS = {
    'quick': '90 WCS = {TAN,SIN} x rot {0,30,137,-90,200} x scale {1e-5,1e-3,1e-2 deg/px} x {ICRS,FK5,Galactic}, crval '
             '{(40,20),(0,0),(266,-29),(120,80)} paired cyclically (phase = VERIF_SEED); 108 region specs (4 circles, 6 '
             'size pairs x 5 angles for ellipse and rectangle, 4 circle annuli, 4 size pairs x 5 angles for the two other '
             'annuli; sizes {1,3,10,50} px) x centres {crpix, +(250,150)}',
    'thorough': '360 WCS = full product with the four crval; same 108 region specs x 3 centres',
}
ASSUMPTIONS = [
    'astropy.wcs world_to_pixel / pixel_to_world and SkyCoord.directional_offset_by are trusted',
    'deviations up to 1e-6 + 2 theta^2 (theta = angular distance from the reference point + angular size, radians) are '
    'attributed to the projection not being a similarity (the statement speaks of an undistorted WCS and the local scale)',
    'the angle is compared modulo 180 deg for ellipse / rectangle (annuli): the statement fixes the width axis, a line',
]

PROJS = ['TAN', 'SIN']
ROTS = [0.0, 30.0, 137.0, -90.0, 200.0]
SCALES = [1e-3, 1e-5, 1e-2]
FRAME_NAMES = ['icrs', 'fk5', 'galactic', 'fk5_j1975']
# (10, 84): with the coarsest scale the centres 250 px away reach latitudes above 85 deg (the reference stays below, as stated)
CRVALS = [(40.0, 20.0), (0.0, 0.0), (266.0, -29.0), (120.0, 80.0), (10.0, 84.0), (300.0, -84.0)]
OFFSETS = [(0.0, 0.0), (30.0, -40.0), (250.0, 150.0)]
ANGLES = [0.0, 33.0, 90.0, 120.0, -45.0]
NPIX = [1.0, 3.0, 10.0, 50.0]
# (10, 10): a square has an orientation, a round ellipse has none -- equal sizes are a value like any other
PAIRS = [(1.0, 3.0), (3.0, 1.0), (3.0, 10.0), (10.0, 3.0), (10.0, 50.0), (50.0, 10.0), (10.0, 10.0),
         (50.0, 3.0), (1.0, 50.0)]      # needle-like shapes (axis ratios 17 and 50), either axis the long one
ANN_PAIRS = [((1.0, 3.0), (3.0, 10.0)), ((3.0, 1.0), (10.0, 3.0)), ((3.0, 10.0), (10.0, 50.0)), ((10.0, 10.0), (50.0, 30.0)),
             ((3.0, 3.0), (10.0, 10.0))]
CIRC_ANN = [(1.0, 3.0), (3.0, 10.0), (10.0, 50.0), (1.0, 50.0)]
NAME = {'circle': 'CirclePixelRegion', 'ellipse': 'EllipsePixelRegion', 'rectangle': 'RectanglePixelRegion',
        'circleannulus': 'CircleAnnulusPixelRegion', 'ellipseannulus': 'EllipseAnnulusPixelRegion',
        'rectangleannulus': 'RectangleAnnulusPixelRegion'}


# ===================================================================== lattice ==
ENCODINGS = ['cdelt_pc', 'cd', 'pc_flip']


def wcs_specs(tier, seed):
    out = []
    for ip, proj in enumerate(PROJS):
        for ir, rot in enumerate(ROTS):
            for isc, sc in enumerate(SCALES):
                for ifr, fr in enumerate(FRAME_NAMES):
                    if tier == 'quick':
                        cvs = [CRVALS[(ip + ir + isc + ifr + seed) % len(CRVALS)]]
                    else:
                        cvs = CRVALS
                    for icv, cv in enumerate(cvs):
                        # the same linear transformation written into the header in three ways (quick: one of them per
                        # WCS, cyclically; thorough: all three)
                        encs = [ENCODINGS[(ip + 2 * ir + isc + ifr + icv + seed) % 3]] if tier == 'quick' else ENCODINGS
                        for enc in encs:
                            ws = W.wspec(proj, rot, sc, False, fr, cv)
                            if enc != 'cdelt_pc':
                                ws['enc'] = enc
                            elif (ip + ir + isc + ifr + icv) % 3 == 0:
                                ws['latfirst'] = True      # latitude on the first world axis (CTYPE1 = DEC-- / GLAT-)
                            out.append(ws)
    if tier == 'quick':
        # whatever the seed pairs up: the coarsest scale with the high-latitude reference value is always present
        for proj in PROJS:
            for rot in ROTS[:2]:
                ws = W.wspec(proj, rot, max(SCALES), False, 'icrs', CRVALS[4])
                if ws not in out:
                    out.append(ws)
    return out


def region_specs():
    """Sizes in pixel equivalents (angular size = pixels x cdelt), angle in degrees."""
    out = []
    for r in NPIX:
        out.append({'cls': 'circle', 'radius': r})
    for cls in ('ellipse', 'rectangle'):
        for (wd, ht) in PAIRS:
            for a in ANGLES:
                out.append({'cls': cls, 'width': wd, 'height': ht, 'angle': a})
                if wd == ht:
                    out.append({'cls': cls, 'width': wd, 'height': ht, 'angle': a, 'units': 'same'})
    for (ri, ro) in CIRC_ANN:
        out.append({'cls': 'circleannulus', 'inner_radius': ri, 'outer_radius': ro})
    for cls in ('ellipseannulus', 'rectangleannulus'):
        for ((wi, hi), (wo, ho)) in ANN_PAIRS:
            for a in ANGLES:
                out.append({'cls': cls, 'inner_width': wi, 'inner_height': hi, 'outer_width': wo, 'outer_height': ho, 'angle': a})
                if wi == hi and wo == ho:
                    out.append({'cls': cls, 'inner_width': wi, 'inner_height': hi, 'outer_width': wo, 'outer_height': ho, 'angle': a,
                                'units': 'same'})
    return out


def build_sky(spec, c, scale):
    import astropy.units as u
    import regions as R
    cls = spec['cls']
    # every size is handed over in its own angular unit (the same angle, converted by astropy): a conversion that
    # reads all sizes in the unit of the first one would be invisible if they all shared a unit
    UN = {'radius': u.arcsec, 'inner_radius': u.arcmin, 'outer_radius': u.arcsec, 'width': u.arcsec, 'height': u.arcmin,
          'inner_width': u.arcsec, 'outer_width': u.deg, 'inner_height': u.arcmin, 'outer_height': u.mas}
    q = lambda name: (spec[name] * scale * u.deg).to(UN[name])      # noqa
    if spec.get('units') == 'same':
        # ... and a shape whose sizes are EQUAL has them bit-identical in one unit (so that the library sees them equal)
        q = lambda name: (spec[name] * scale * 3600.0) * u.arcsec      # noqa
    if cls == 'circle':
        return R.CircleSkyRegion(c, q('radius'))
    if cls == 'circleannulus':
        return R.CircleAnnulusSkyRegion(c, q('inner_radius'), q('outer_radius'))
    ang = (spec['angle'] * u.deg).to(u.arcmin) if cls in ('rectangle', 'rectangleannulus') else spec['angle'] * u.deg
    if cls == 'ellipse':
        return R.EllipseSkyRegion(c, q('width'), q('height'), angle=ang)
    if cls == 'rectangle':
        return R.RectangleSkyRegion(c, q('width'), q('height'), angle=ang)
    Kl = R.EllipseAnnulusSkyRegion if cls == 'ellipseannulus' else R.RectangleAnnulusSkyRegion
    return Kl(c, q('inner_width'), q('outer_width'), q('inner_height'), q('outer_height'), angle=ang)


def parts(spec):
    """[(label, kind, width-name, height-name)] of the simple shapes a spec consists of."""
    cls = spec['cls']
    if cls == 'circle':
        return [('', 'circle', 'radius', 'radius')]
    if cls == 'circleannulus':
        return [('inner ', 'circle', 'inner_radius', 'inner_radius'), ('outer ', 'circle', 'outer_radius', 'outer_radius')]
    if cls in ('ellipse', 'rectangle'):
        return [('', cls, 'width', 'height')]
    kind = cls[:-7]
    return [('inner ', kind, 'inner_width', 'inner_height'), ('outer ', kind, 'outer_width', 'outer_height')]


class _Ctx:
    def __init__(self, res, case):
        self.res, self.case, self.ok = res, case, True

    def bad(self, kind, msg, expected=None, observed=None):
        self.ok = False
        self.res.violation(ID, kind, self.case, msg, expected, observed)


def _bucket(r):
    for lim in (0.01, 0.1, 0.25, 0.5, 1.0, 2.0):
        if r <= lim:
            return f'<={lim}'
    return '>2'


# ======================================================================= check ==
def check_config(res, spec, off, ws):
    import astropy.units as u
    case = {'spec': spec, 'offset': list(off), 'wcs': ws}
    cx = _Ctx(res, case)
    cls = spec['cls']
    res.evaluations += 1
    res.states += 1
    w = W.make_wcs(ws)
    import zlib as _zlib
    wcs_route = 'fresh'
    if _zlib.crc32(repr((sorted(spec.items()), list(off), sorted(ws.items(), key=str))).encode()) % 5 == 0:
        # the WCS *object* has a history: it described another rotation/scale when a region at the same sky
        # position was converted with it, and was then changed in place to the configuration under test
        import copy as _copy
        w = _copy.deepcopy(w)
        wcs_route = 'modified_in_place'
    scale = ws['scale']
    px, py = W.REFPIX[0] + off[0], W.REFPIX[1] + off[1]
    c = W.to_world(w, px, py)
    # the region's own celestial frame: the WCS's (most states) or another one (every fifth, by hash): sizes and the stated angle
    # refer to the region's frame (its local north), whatever frame the WCS uses
    hsel = _zlib.crc32(repr(('frame', sorted(spec.items()), list(off), sorted(ws.items(), key=str))).encode())
    if hsel % 5 == 1:
        from astropy.coordinates import FK5, Galactic, ICRS
        from astropy.time import Time
        others = [(n, f) for n, f in (('galactic', Galactic()), ('icrs', ICRS()), ('fk5_j1975', FK5(equinox=Time('J1975'))))
                  if n != ws['frame']]
        oname, oframe = others[(hsel // 5) % len(others)]
        with warnings.catch_warnings():
            warnings.simplefilter('ignore')
            c = c.transform_to(oframe)
        res.axis('region_frame', f"{oname} on {ws['frame']}")
    else:
        res.axis('region_frame', 'as the WCS')
    clon, clat = W.lonlat(c)
    for name, val in (('cls', cls), ('proj', ws['proj']), ('rot', ws['rot']), ('scale', scale), ('frame', ws['frame']),
                      ('crval', tuple(ws['crval'])), ('offset', tuple(off)), ('angle', spec.get('angle', 'n/a'))):
        res.axis(name, val)
    sizes = [v for k, v in spec.items() if k not in ('cls', 'angle', 'units')]
    maxsize = max(sizes)
    theta = scale * W.DEG * (math.hypot(off[0], off[1]) + maxsize)
    rel = 1e-6 + 2.0 * theta * theta
    symmetric = cls in ('circle', 'circleannulus')
    alpha = 0.0 if symmetric else float(spec['angle'])
    nontriv = ws['rot'] % 360.0 != 0.0 and (symmetric or any(spec[wn] != spec[hn] for _, _, wn, hn in parts(spec)))
    if nontriv:
        res.nontriv((spec, list(off), ws))

    sky = build_sky(spec, c, scale)
    if wcs_route == 'modified_in_place':
        t = math.radians(47.0)
        rot47 = np.array([[math.cos(t), -math.sin(t)], [math.sin(t), math.cos(t)]])
        if w.wcs.has_cd():
            keep = w.wcs.cd.copy()
            w.wcs.cd = 1.9 * keep @ rot47
        else:
            keep_pc, keep_cdelt = w.wcs.pc.copy(), w.wcs.cdelt.copy()
            w.wcs.pc = keep_pc @ rot47
            w.wcs.cdelt = keep_cdelt * 1.9
        w.wcs.set()
        try:
            with warnings.catch_warnings():
                warnings.simplefilter('ignore')
                sky.to_pixel(w)
        except Exception:
            pass
        if w.wcs.has_cd():
            w.wcs.cd = keep
        else:
            w.wcs.pc = keep_pc
            w.wcs.cdelt = keep_cdelt
        w.wcs.set()
    res.transitions += 1
    try:
        with warnings.catch_warnings():
            warnings.simplefilter('ignore')
            from mc import fingerprint as _FP
            fp_before = _FP.fp(sky)
            pix = sky.to_pixel(w)
            pix_again = sky.to_pixel(w)
            if _FP.fp(sky) != fp_before:
                res.violation(ID, 'conversion_mutates_sky_region', case, f'to_pixel changed the {cls} sky region it was called on')
            if _FP.fp(pix_again) != _FP.fp(pix):
                res.violation(ID, 'conversion_not_repeatable', case, f'two to_pixel calls on the same {cls} sky region give different pixel regions')
    except Exception as exc:
        cx.bad('unexpected_exception', f'to_pixel raised {type(exc).__name__}: {exc}')
        res.outcome((cls, ws['proj'], ws['rot'], ws['frame'], 'raised'))
        return
    if type(pix).__name__ != NAME[cls]:
        cx.bad('class_wrong', f'to_pixel returned a {type(pix).__name__} for a {type(sky).__name__}', NAME[cls], type(pix).__name__)
        res.outcome((cls, ws['proj'], ws['rot'], ws['frame'], 'class'))
        return
    worst = 0.0

    # ---- centre
    wx, wy = W.to_pix(w, c)
    gx, gy = float(pix.center.x), float(pix.center.y)
    dev = math.hypot(gx - float(wx), gy - float(wy))
    if not dev <= 1e-8:
        cx.bad('centre_wrong', f'pixel centre ({gx!r}, {gy!r}) is {dev:.3g} px from world_to_pixel(sky centre) = ({float(wx)!r}, {float(wy)!r})',
               [float(wx), float(wy)], [gx, gy])

    # ---- own local scale (deg / px along the pixel y direction) and own north direction
    sc2 = W.to_world(w, np.array([px, px]), np.array([py - 2.0, py + 2.0]))
    l2, b2 = W.lonlat(sc2)
    own_scale = float(W.sep_deg(l2[0], b2[0], l2[1], b2[1])) / 4.0
    north = W.north_angle_deg(w, c, 2.0 * scale)

    # ---- lengths
    for label, kind, wn, hn in parts(spec):
        for name in ([wn] if wn == hn else [wn, hn]):
            got = float(getattr(pix, name))
            want = spec[name] * scale / own_scale
            r = abs(got - want) / want
            worst = max(worst, (r - 1e-6) / (theta * theta) if theta > 0 else 0.0)
            if not r <= rel:
                cx.bad('length_wrong', f'{name} of the pixel image is {got!r} px; angular size {spec[name] * scale!r} deg / local scale '
                                       f'{own_scale!r} deg/px = {want!r} px (relative deviation {r:.3g} > {rel:.3g})', want, got)

    # ---- angle (anchor's formulation, modulo the shape's symmetry)
    if not symmetric:
        got = W.angle_deg(pix.angle)
        want = alpha + north - 90.0
        d = abs(W.angle_diff_deg(got, want, 180.0)) * W.DEG
        worst = max(worst, (d - 1e-6) / (theta * theta) if theta > 0 else 0.0)
        if not d <= rel:
            cx.bad('angle_wrong', f'pixel angle is {got!r} deg; sky angle {alpha!r} deg + direction of north in the image {north!r} deg '
                                  f'- 90 deg = {want!r} deg (difference modulo 180 deg: {math.degrees(d):.6g} deg > {math.degrees(rel):.3g} deg)',
                   want, got)
        pa = math.radians(got)
    else:
        pa = 0.0

    # ---- tips: sky points at the angular semi-axes must land on the pixel boundary
    ca, sa = math.cos(pa), math.sin(pa)
    for label, kind, wn, hn in parts(spec):
        a = 0.5 * float(getattr(pix, wn)) if kind != 'circle' else float(getattr(pix, wn))
        b = 0.5 * float(getattr(pix, hn)) if kind != 'circle' else a
        for axis, posang, sep_px in (('width', alpha - 90.0, spec[wn]), ('height', alpha, spec[hn])):
            sep = (sep_px if kind == 'circle' else 0.5 * sep_px) * scale
            tip = c.directional_offset_by(posang * u.deg, sep * u.deg)
            tx, ty = W.to_pix(w, tip)
            dx, dy = float(tx) - gx, float(ty) - gy
            uu, vv = ca * dx + sa * dy, -sa * dx + ca * dy
            if kind == 'rectangle':
                main, half, other, ohalf = (uu, a, vv, b) if axis == 'width' else (vv, b, uu, a)
                r = abs(abs(main) / half - 1.0)
                on = r <= rel and abs(other) <= ohalf * (1.0 + rel)
            else:
                r = abs(math.sqrt((uu / a) ** 2 + (vv / b) ** 2) - 1.0)
                on = r <= rel
            worst = max(worst, (r - 1e-6) / (theta * theta) if theta > 0 else 0.0)
            if not on:
                cx.bad('tip_not_on_boundary',
                       f'{label}{axis} tip (sky point at position angle {posang!r} deg, separation {sep!r} deg from the centre) lands at '
                       f'pixel ({float(tx)!r}, {float(ty)!r}) = (u, v) = ({uu!r}, {vv!r}) in the frame of the {label}{kind} with semi-axes '
                       f'({a!r}, {b!r}) px and angle {math.degrees(pa)!r} deg: not on its boundary (normalised deviation {r:.3g} > {rel:.3g})',
                       1.0, 1.0 + r)
    res.axis('dev_over_theta2', _bucket(max(worst, 0.0)))
    res.outcome((cls, ws['proj'], ws['rot'], ws['frame'], cx.ok))
    if res.states <= 2:
        res.sample({'case': case, 'pixel_image': repr(pix)[:300], 'own_scale_deg_per_px': own_scale, 'north_deg': north, 'rel_tol': rel})


# =================================================================== framework ==
def shards(tier, seed):
    ws = wcs_specs(tier, seed)
    n = 90 if tier == 'quick' else 180
    return [{'cases': ws[k::n]} for k in range(n)]


def run_shard(shard, tier, seed):
    res = Result()
    specs = region_specs()
    offs = [OFFSETS[0], OFFSETS[2]] if tier == 'quick' else OFFSETS
    for ws in shard['cases']:
        for off in offs:
            for spec in specs:
                check_config(res, spec, off, ws)
    return res


def replay(case):
    res = Result()
    check_config(res, case['spec'], case['offset'], case['wcs'])
    return res
