"""Result accumulation for one shard / one whole check."""
import json
import hashlib
from collections import Counter

MAX_KEEP = 40          # unknown violations kept per shard (all are counted)
MAX_SAMPLES = 6


def jhash(obj):
    return hashlib.blake2b(json.dumps(obj, sort_keys=True, default=repr).encode(),
                           digest_size=8).hexdigest()


class Result:
    def __init__(self):
        self.evaluations = 0          # cases generated (model states / configurations / histories)
        self.transitions = 0          # library calls whose outcome was compared with the oracle
        self.states = 0               # distinct model states visited
        self.nontrivial = set()       # hashes of distinct non-trivial cases
        self.outcomes = Counter()     # distinct observed outcome signatures
        self.axes = {}                # axis name -> Counter(value)
        self.violations = []          # unknown violations kept (dicts)
        self.n_violations = 0         # unknown violations counted
        self.vkinds = Counter()       # unknown violations by kind
        self.known = Counter()        # known-finding id -> hits
        self.samples = []
        self.caps = []
        self.extra = {}

    # -- recording helpers -------------------------------------------------
    def axis(self, name, value):
        self.axes.setdefault(name, Counter())[str(value)] += 1

    def nontriv(self, key):
        self.nontrivial.add(key if isinstance(key, str) else jhash(key))

    def outcome(self, sig):
        self.outcomes[str(sig)] += 1

    def sample(self, obj):
        if len(self.samples) < MAX_SAMPLES:
            self.samples.append(obj)

    def violation(self, prop, kind, case, message, expected=None, observed=None):
        from mc import findings
        v = {'property': prop, 'kind': kind, 'case': case, 'message': message,
             'expected': expected, 'observed': observed}
        fid = findings.match(v)
        if fid is not None:
            self.known[fid] += 1
            return False
        self.n_violations += 1
        self.vkinds[kind] += 1
        # keep the first of every kind even when the shard's list is full
        if len(self.violations) < MAX_KEEP or self.vkinds[kind] <= 2:
            self.violations.append(v)
        return True

    # -- merging -------------------------------------------------------------
    def merge(self, other):
        self.evaluations += other.evaluations
        self.transitions += other.transitions
        self.states += other.states
        self.nontrivial |= other.nontrivial
        self.outcomes.update(other.outcomes)
        for k, c in other.axes.items():
            self.axes.setdefault(k, Counter()).update(c)
        have = Counter(v['kind'] for v in self.violations)
        for v in other.violations:
            if len(self.violations) < 200 or have[v['kind']] < 3:
                self.violations.append(v)
                have[v['kind']] += 1
        self.n_violations += other.n_violations
        self.vkinds.update(other.vkinds)
        self.known.update(other.known)
        for s in other.samples:
            self.sample(s)
        self.caps.extend(other.caps)
        for k, v in other.extra.items():
            if isinstance(v, (int, float)) and isinstance(self.extra.get(k, 0), (int, float)):
                self.extra[k] = self.extra.get(k, 0) + v
            else:
                self.extra[k] = v
        return self
