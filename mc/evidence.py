"""Writes evidence/<id>.json in the shape EVIDENCE.schema.json requires."""
import os
import json
import hashlib
import subprocess

from mc import env


def _tree_state(files):
    info = {}
    try:
        info['git'] = subprocess.run(['git', '-C', env.REPO, 'describe', '--always', '--dirty'],
                                     capture_output=True, text=True, timeout=30).stdout.strip()
    except Exception:
        info['git'] = 'unknown'
    h = hashlib.sha256()
    for f in sorted(files):
        p = os.path.join(env.REPO, f)
        try:
            with open(p, 'rb') as fh:
                h.update(f.encode() + b'\0' + fh.read())
        except OSError:
            h.update(f.encode() + b'\0missing')
    info['anchored_files_sha256'] = h.hexdigest()
    return info


def write(mod, total, tier, seed, wall, build_status, nshards):
    pid = mod.ID
    exhaustive = not total.caps
    axes = {k: dict(sorted(c.items(), key=lambda kv: (-kv[1], kv[0]))[:40])
            for k, c in sorted(total.axes.items())}
    top_outcomes = dict(total.outcomes.most_common(25))
    cov = {
        'states': max(int(total.states), 0),
        'transitions': int(total.transitions),
        'traces_validated_against_impl': int(total.transitions),
        'evaluations': int(total.evaluations),
        'distinct_nontrivial': len(total.nontrivial),
        'rule': mod.RULE,
        'samples': total.samples or ['(no sample recorded)'],
        'exhaustive': bool(exhaustive),
        'bounds': getattr(mod, 'BOUNDS', {}).get(tier, '') + (
            '; plus, in both tiers, the cross-cutting sub-lattices added after the independently produced changes (DESIGN.md 8.2: storage '
            'types, construction routes, histories, header encodings, text forms, ...), each enumerated in full -- their values are '
            'listed under `axis_marginals` / `extra` of this file as they were visited'),
        'caps_hit': total.caps,
        'distinct_observed_outcomes': len(total.outcomes),
        'outcome_histogram_top': top_outcomes,
        'axis_marginals': axes,
        'shards': nshards,
        'known_finding_hits': dict(total.known),
        'violation_kinds': dict(total.vkinds),
        'how_validated': ('every enumerated model state/transition is executed on the real '
                          'regions code imported from the working tree in the same loop and compared '
                          'with the reference model; there is no separate model run'),
        'tree': _tree_state(getattr(mod, 'FILES', [])),
        'kernel_status': build_status,
        'extra': total.extra,
    }
    doc = {
        'property_id': pid,
        'tier': tier,
        'seed': int(seed),
        'level': mod.LEVEL,
        'coverage': cov,
        'assumptions': list(getattr(mod, 'ASSUMPTIONS', [])),
        'wall_s': round(float(wall), 3),
        'violations': int(total.n_violations),
    }
    if env.REPO == os.path.realpath('/repo'):
        path = os.path.join(env.VERIF, 'evidence', f'{pid}.json')
    else:
        # a run against a scratch copy (VERIF_REPO=...) must not overwrite the evidence of the real tree
        path = os.path.join(env.scratch(), 'evidence_scratch', f'{pid}.json')
    os.makedirs(os.path.dirname(path), exist_ok=True)
    tmp = path + '.tmp'
    with open(tmp, 'w') as fh:
        json.dump(doc, fh, indent=1, sort_keys=True, default=repr)
        fh.write('\n')
    os.replace(tmp, path)
    return path
