"""Deep, bit-exact structural fingerprints of the objects the properties talk
about: regions, coordinates, arrays, dicts/lists (with aliasing structure),
tables, WCS and the library's module-level state.

``fp(obj)`` returns a nested, JSON-able, *canonical* description: two objects
have the same fingerprint iff every observable field is bit-for-bit the same
(floats by their IEEE bytes, arrays by dtype/shape/bytes, Quantities with
their unit string, SkyCoords with frame name + frame attributes + data bytes,
dicts by sorted key).  Private attributes added by parsers (``_raw_meta``) are
included because they are reachable state of the object.
"""
import struct
import hashlib
import operator

import numpy as np

_OPS = {operator.and_: 'and', operator.or_: 'or', operator.xor: 'xor'}


def _f(x):
    return 'f:' + struct.pack('>d', float(x)).hex()


def _arr(a):
    a = np.asarray(a)
    if a.dtype == object:
        return ['objarr', list(a.shape), [fp(v) for v in a.ravel().tolist()]]
    return ['arr', str(a.dtype), list(a.shape), hashlib.blake2b(np.ascontiguousarray(a).tobytes(), digest_size=12).hexdigest()]


def fp(obj, _depth=0):
    import astropy.units as u
    from astropy.coordinates import SkyCoord, BaseCoordinateFrame
    from regions import PixCoord, Region, Regions, RegionBoundingBox, RegionMask
    if _depth > 12:
        return '<deep>'
    d = _depth + 1
    if obj is None or isinstance(obj, (bool, str)):
        return obj
    if isinstance(obj, (int,)):
        return ['i', obj]
    if isinstance(obj, np.bool_):
        return ['npbool', bool(obj)]
    if isinstance(obj, np.integer):
        return ['npi', str(obj.dtype), int(obj)]
    if isinstance(obj, float):
        return _f(obj)
    if isinstance(obj, np.floating):
        return ['npf', str(obj.dtype), _f(obj)]
    if isinstance(obj, SkyCoord) or isinstance(obj, BaseCoordinateFrame):
        fr = obj.frame if isinstance(obj, SkyCoord) else obj
        attrs = {}
        for name in sorted(fr.frame_attributes):
            attrs[name] = repr(getattr(fr, name, None))
        data = fr.data
        comps = {}
        for cname in data.components:
            comps[cname] = fp(getattr(data, cname), d)
        return ['sky', fr.name, type(data).__name__, attrs, comps, list(obj.shape)]
    if isinstance(obj, u.Quantity):
        return ['q', type(obj).__name__, str(obj.unit), _arr(obj.value)]
    if isinstance(obj, np.ndarray):
        return _arr(obj)
    if isinstance(obj, PixCoord):
        return ['pix', fp(obj.x, d), fp(obj.y, d)]
    if isinstance(obj, Region):
        out = {'cls': type(obj).__name__}
        for p in obj._params:
            v = getattr(obj, p)
            out[p] = _OPS.get(v, repr(v)) if callable(v) else fp(v, d)
        out['meta'] = fp(getattr(obj, 'meta', '<missing>'), d)
        out['visual'] = fp(getattr(obj, 'visual', '<missing>'), d)
        extras = {}
        for k, v in sorted(vars(obj).items()):
            if k in obj._params or k in ('meta', 'visual', '_operator'):
                continue
            extras[k] = fp(v, d)
        out['extras'] = extras
        return ['region', out]
    if isinstance(obj, Regions):
        return ['regions', [fp(r, d) for r in obj.regions]]
    if isinstance(obj, RegionBoundingBox):
        return ['bbox', int(obj.ixmin), int(obj.ixmax), int(obj.iymin), int(obj.iymax)]
    if isinstance(obj, RegionMask):
        return ['mask', fp(obj.bbox, d), _arr(obj.data)]
    if isinstance(obj, dict):
        return ['dict', type(obj).__name__, [[repr(k), fp(v, d)] for k, v in sorted(obj.items(), key=lambda kv: repr(kv[0]))]]
    if isinstance(obj, (list, tuple)):
        return [type(obj).__name__, [fp(v, d) for v in obj]]
    if isinstance(obj, (set, frozenset)):
        return ['set', sorted(repr(v) for v in obj)]
    try:
        from astropy.table import Table
        if isinstance(obj, Table):
            cols = {}
            for name in obj.colnames:
                col = obj[name]
                cols[name] = fp(col if isinstance(col, u.Quantity) else np.asarray(col), d)
            return ['table', type(obj).__name__, obj.colnames, cols, fp(dict(obj.meta), d)]
        from astropy.wcs import WCS
        if isinstance(obj, WCS):
            return ['wcs', obj.to_header_string(relax=True)]
    except Exception:  # pragma: no cover
        pass
    if callable(obj):
        return ['callable', getattr(obj, '__module__', '?'), getattr(obj, '__qualname__', repr(obj))]
    return ['repr', type(obj).__name__, repr(obj)]


def digest(obj):
    import json
    return hashlib.blake2b(json.dumps(fp(obj), sort_keys=True, default=repr).encode(), digest_size=12).hexdigest()


def ident_graph(obj, _seen=None, _path='$'):
    """Aliasing structure: map of id -> first path for every mutable container
    reachable from obj (used to detect shared mutable state between objects)."""
    from regions import PixCoord, Region, Regions
    import astropy.units as u
    if _seen is None:
        _seen = {}
    if isinstance(obj, (np.ndarray, dict, list, PixCoord, Region, Regions)) or isinstance(obj, u.Quantity):
        _seen.setdefault(id(obj), _path)
    if isinstance(obj, Region):
        for p in list(obj._params) + ['meta', 'visual']:
            ident_graph(getattr(obj, p), _seen, f'{_path}.{p}')
    elif isinstance(obj, Regions):
        ident_graph(obj.regions, _seen, _path + '.regions')
    elif isinstance(obj, PixCoord):
        ident_graph(obj.x, _seen, _path + '.x')
        ident_graph(obj.y, _seen, _path + '.y')
    elif isinstance(obj, dict):
        for k, v in obj.items():
            ident_graph(v, _seen, f'{_path}[{k!r}]')
    elif isinstance(obj, (list, tuple)):
        for i, v in enumerate(obj):
            ident_graph(v, _seen, f'{_path}[{i}]')
    return _seen


def module_state():
    """Fingerprint of the library's module-level mutable state (C13)."""
    import warnings
    with warnings.catch_warnings():
        warnings.simplefilter('ignore')     # copying itertools objects is deprecated from 3.14 on
        return _module_state()


def _module_state():
    import copy
    import itertools
    from regions.core.registry import RegionsRegistry
    from regions.core import metadata, pixcoord
    from regions.io.ds9 import core as dcore
    from regions.io.crtf import read as cread, io_core as cio, core as ccore
    from regions.io.fits import core as fcore
    st = {}
    st['registry'] = sorted((k[0].__name__, k[1], k[2], f'{v.__module__}.{v.__qualname__}', id(v))
                            for k, v in RegionsRegistry.registry.items())
    tmpl = {}
    for k, v in dcore.ds9_params_template.items():
        if isinstance(v, tuple):
            tmpl[k] = list(v)
        else:
            # an iterator: probe a *copy* without consuming the shared object
            try:
                tmpl[k] = ['iter'] + list(itertools.islice(copy.deepcopy(v), 6))
            except Exception as exc:  # pragma: no cover
                tmpl[k] = ['iter-uncopyable', repr(exc)]
    st['ds9_params_template'] = tmpl
    st['ds9_frame_map'] = sorted(dcore.ds9_frame_map.items())
    st['ds9_shape_templates'] = sorted((k, list(v)) for k, v in dcore.ds9_shape_templates.items())
    st['ds9_shape_to_region'] = {k: sorted((a, b.__name__) for a, b in v.items()) for k, v in dcore.ds9_shape_to_region.items()}
    st['ds9_valid_symbols'] = sorted(dcore.ds9_valid_symbols)
    ls = {}
    for k, v in cread._CRTFRegionParser.language_spec.items():
        if isinstance(v, list):
            ls[k] = list(v)
        else:
            ls[k] = ['iter'] + list(itertools.islice(copy.deepcopy(v), 4))
    st['crtf_language_spec'] = ls
    st['crtf_coordsys_mapping_n'] = len(cread._CRTFRegionParser.coordsys_mapping)
    st['crtf_coordsys_special'] = {k: cread._CRTFRegionParser.coordsys_mapping.get(k) for k in ('j2000', 'b1950', 'supergal', 'ecliptic', 'icrs', 'galactic')}
    st['crtf_coordinate_systems'] = list(cread._CRTFRegionParser.coordinate_systems)
    st['crtf_valid_definition'] = list(cread._CRTFParser.valid_definition)
    st['crtf_valid_global_keys'] = list(cread._CRTFParser.valid_global_keys)
    st['crtf_reg_mapping'] = {k: sorted(v.items()) for k, v in cio.reg_mapping.items()}
    st['crtf_regions_attributes'] = sorted((k, list(v)) for k, v in cio.regions_attributes.items())
    st['crtf_valid_coordsys'] = {k: list(v) for k, v in cio.valid_coordsys.items()}
    st['crtf_coordsys_mapping'] = {k: sorted(v.items()) for k, v in cio.coordsys_mapping.items()}
    st['crtf_valid_symbols'] = sorted(ccore.valid_symbols.items())
    st['fits_shape_map'] = sorted((k, v[0].__name__, list(v[1])) for k, v in fcore.shape_map.items())
    st['meta_valid_keys'] = [list(metadata.RegionMeta.valid_keys), list(metadata.RegionVisual.valid_keys),
                             sorted(metadata.RegionMeta.key_mapping.items()), sorted(metadata.RegionVisual.key_mapping.items())]
    st['pixcoord_defaults'] = [pixcoord._DEFAULT_WCS_ORIGIN, pixcoord._DEFAULT_WCS_MODE]
    # process-wide settings of the numeric library that a call could leave changed
    import numpy as np
    st['numpy_errstate'] = sorted(np.geterr().items())
    st['numpy_printoptions'] = sorted((k, repr(v)) for k, v in np.get_printoptions().items())
    return st
