"""Shared catalogues of pixel-region specs (the lattices' axes).

Every value is a dyadic rational unless stated, ordered simplest-first.
"""
import math

from mc.oracles.geometry import UNIT

POLYS = {
    'triangle': ([0, 4, 1], [0, 0, 3]),
    'square': ([0, 2, 2, 0], [0, 0, 2, 2]),
    'ell': ([0, 4, 4, 1, 1, 0], [0, 0, 1, 1, 3, 3]),
    'bowtie': ([0, 2, 2, 0], [0, 2, 0, 2]),
    'collinear': ([0, 1, 3, 3, 1.5, 0], [0, 0, 0, 2, 2, 2]),
    'repeated': ([0, 3, 3, 3, 0], [0, 0, 0, 3, 3]),
    'dodecagon': ([4, 3.5, 2.25, 0, -1.75, -3.25, -3, -3.5, -1.5, 0.25, 2, 3.75],
                  [0, 1.75, 3.5, 3, 3.25, 2, 0.25, -2, -2.75, -4, -3.25, -1.5]),
}

ANGLES_DEG = [0.0, 30.0, 45.0, 90.0, 123.4, 180.0, 270.0, 360.0, -60.0, 725.0,
              math.degrees(math.atan2(3, 4))]
UNITS = ['deg', 'rad', 'arcmin', 'arcsec', 'hourangle']
CENTRES = [(0.0, 0.0), (0.5, -0.25), (8192.125, -3000.5), (-7.25, 2.0)]
INCLUDES = ['absent', True, False, 1, 0]


def angle_spec(deg, unit='deg', kind='quantity'):
    if unit == 'deg':
        return [deg, 'deg', kind]
    return [deg * UNIT['deg'] / UNIT[unit], unit, kind]


def sizes(tier):
    if tier == 'quick':
        return [1.0, 2.0 ** -10, 2.5, 1.75 * 2 ** 20]
    out = []
    for k in (0, -3, 3, -10, 10, 20):
        for m in (1.0, 1.25, 1.75):
            out.append(m * 2.0 ** k)
    return out


def pair_sizes(tier):
    """Sizes used where *pairs* (width x height) are crossed."""
    if tier == 'quick':
        return sizes('quick')
    return [1.0, 1.25 * 2.0 ** -3, 1.75 * 2.0 ** 3, 2.0 ** -10, 1.25 * 2.0 ** 10, 1.75 * 2.0 ** 20,
            1.75 * 2.0 ** -10, 2.0 ** 20, 2.5]


def polygon_spec(name, scale=1.0, centre=(0.0, 0.0)):
    xs, ys = POLYS[name]
    return {'cls': 'polygon', 'name': name,
            'vertices': [[centre[0] + scale * v for v in xs], [centre[1] + scale * v for v in ys]]}


def with_include(spec, inc):
    s = dict(spec)
    s['include'] = inc
    return s
