"""Shared reference helpers for the WCS properties C06 / C07.

Nothing in here calls ``regions._utils.wcs_helpers`` or any ``to_sky`` /
``to_pixel`` of the library.  The celestial WCS objects and the
pixel <-> world transformation itself (``astropy.wcs.WCS.pixel_to_world`` /
``world_to_pixel``, ``SkyCoord.directional_offset_by``) are astropy's and are
trusted; everything derived from them (angular separation, local scale, the
direction of north in the image, robustness of a membership answer) is computed
here with own formulas.

A *WCS spec* is a JSON-able dict ``{'proj', 'rot', 'scale', 'flip', 'frame',
'crval'}``; ``make_wcs`` builds the object with ``mc.pool.wcs_simple`` (FITS
reference pixel (50, 60), i.e. the 0-based pixel position (49, 59)).
"""
import math
import warnings

import numpy as np

from mc.oracles import geometry as G

CRPIX_FITS = (50.0, 60.0)
REFPIX = (49.0, 59.0)            # 0-based pixel position of the reference pixel
FRAMES = {
    'icrs': {'ctype': ('RA', 'DEC'), 'radesys': None},
    'fk5': {'ctype': ('RA', 'DEC'), 'radesys': 'FK5'},
    'fk4': {'ctype': ('RA', 'DEC'), 'radesys': 'FK4'},
    'galactic': {'ctype': ('GLON', 'GLAT'), 'radesys': None},
    # FK5 with a non-default equinox: sky coordinates carry a frame attribute that must not be lost on the way
    'fk5_j1975': {'ctype': ('RA', 'DEC'), 'radesys': 'FK5', 'equinox': 1975.0},
}
DEG = math.pi / 180.0
ULP360 = math.ulp(360.0)


def wspec(proj, rot, scale, flip, frame, crval):
    return {'proj': proj, 'rot': float(rot), 'scale': float(scale), 'flip': bool(flip), 'frame': frame,
            'crval': [float(crval[0]), float(crval[1])]}


_WCS = {}


def make_wcs(ws):
    """The astropy WCS object of a WCS spec (cached per process; never mutated by anybody)."""
    from mc.pool import wcs_simple
    key = (ws['proj'], ws['rot'], ws['scale'], ws['flip'], ws['frame'], tuple(ws['crval']), ws.get('enc', 'cdelt_pc'), bool(ws.get('latfirst')))
    w = _WCS.get(key)
    if w is None:
        fr = FRAMES[ws['frame']]
        with warnings.catch_warnings():
            warnings.simplefilter('ignore')
            w = wcs_simple(rot_deg=ws['rot'], cdelt=ws['scale'], proj=ws['proj'], ctype=fr['ctype'],
                           crval=tuple(ws['crval']), crpix=CRPIX_FITS, flip=ws['flip'], radesys=fr['radesys'],
                           equinox=fr.get('equinox'), encoding=ws.get('enc', 'cdelt_pc'), lat_first=bool(ws.get('latfirst')))
        if len(_WCS) > 64:
            _WCS.clear()
        _WCS[key] = w
    return w


def wcs_tag(ws):
    if ws.get('latfirst'):
        return wcs_tag({k: v for k, v in ws.items() if k != 'latfirst'}) + '/latfirst'
    if ws.get('enc', 'cdelt_pc') != 'cdelt_pc':
        return wcs_tag({k: v for k, v in ws.items() if k != 'enc'}) + '/' + ws['enc']
    return f"{ws['proj']}/rot{ws['rot']:g}/s{ws['scale']:g}/{'flip' if ws['flip'] else 'std'}/{ws['frame']}/{ws['crval'][0]:g},{ws['crval'][1]:g}"


def is_plain(ws):
    """Unrotated standard-parity TAN: the only kind of WCS the library's own tests use (north up, east left)."""
    return ws['proj'] == 'TAN' and ws['rot'] % 360.0 == 0.0 and not ws['flip']


# ------------------------------------------------------------------ sphere --
def lonlat(sc):
    """Longitude / latitude in degrees (float arrays) of a SkyCoord in its own frame."""
    sph = sc.spherical
    return np.asarray(sph.lon.deg, float), np.asarray(sph.lat.deg, float)


def sep_deg(lon1, lat1, lon2, lat2):
    """Angular separation in degrees (Vincenty formula, stable at every separation)."""
    l1, b1, l2, b2 = (np.asarray(v, float) * DEG for v in (lon1, lat1, lon2, lat2))
    dl = l2 - l1
    num = np.hypot(np.cos(b2) * np.sin(dl), np.cos(b1) * np.sin(b2) - np.sin(b1) * np.cos(b2) * np.cos(dl))
    den = np.sin(b1) * np.sin(b2) + np.cos(b1) * np.cos(b2) * np.cos(dl)
    return np.arctan2(num, den) / DEG


def to_world(w, x, y):
    with warnings.catch_warnings():
        warnings.simplefilter('ignore')
        return w.pixel_to_world(x, y)


def to_pix(w, sc):
    with warnings.catch_warnings():
        warnings.simplefilter('ignore')
        x, y = w.world_to_pixel(sc)
    return np.asarray(x, float), np.asarray(y, float)


def domain_ok(w, xs, ys, tol=1e-6):
    """pixel -> world -> pixel of the given positions is finite and returns within tol pixels:
    the positions are inside the projection's domain and the WCS is invertible there."""
    xs = np.asarray(xs, float)
    ys = np.asarray(ys, float)
    sc = to_world(w, xs, ys)
    lon, lat = lonlat(sc)
    if not (np.all(np.isfinite(lon)) and np.all(np.isfinite(lat))):
        return False, None
    bx, by = to_pix(w, sc)
    if not (np.all(np.isfinite(bx)) and np.all(np.isfinite(by))):
        return False, sc
    return bool(np.max(np.hypot(bx - xs, by - ys), initial=0.0) <= tol), sc


def pos_round_pix(ws):
    """Pixel equivalent of the rounding of world coordinates: a longitude is stored as a double of magnitude
    up to 360 deg (half an ulp = 2.8e-14 deg each time it is stored); a conversion chain stores and
    re-reads it a few times and runs some tens of operations on it.  Allowance: 64 ulp(360 deg) / scale."""
    return 64.0 * ULP360 / ws['scale']


def pos_round_deg():
    return 64.0 * ULP360


# ---------------------------------------------------- local linearisation --
def north_angle_deg(w, c, step_deg):
    """Direction of local north at sky position c in pixel coordinates: angle of the image of the
    displacement (c - step north) -> (c + step north), counter-clockwise from +x, degrees.
    Own central difference (the library uses a one-sided 1 arcsec step)."""
    import astropy.units as u
    n = c.directional_offset_by(0.0 * u.deg, step_deg * u.deg)
    s = c.directional_offset_by(180.0 * u.deg, step_deg * u.deg)
    xn, yn = to_pix(w, n)
    xs, ys = to_pix(w, s)
    return math.degrees(math.atan2(float(yn - ys), float(xn - xs)))


def local_scale_deg(w, px, py):
    """Degrees per pixel at pixel position (px, py): separation on the sky of (px, py) and (px, py + 1)."""
    sc = to_world(w, np.array([px, px]), np.array([py, py + 1.0]))
    lon, lat = lonlat(sc)
    return float(sep_deg(lon[0], lat[0], lon[1], lat[1]))


# ------------------------------------------------------ spec geometry bits --
def coords_of(spec):
    """All positional numbers of a pixel spec as a list of [x, y]."""
    c = spec['cls']
    if c == 'compound':
        return coords_of(spec['r1']) + coords_of(spec['r2'])
    if c == 'line':
        return [list(spec['start']), list(spec['end'])]
    if c == 'polygon':
        return [[x, y] for x, y in zip(*spec['vertices'])]
    return [list(spec['center'])]


def extent_of(spec):
    """Largest linear size of a pixel spec (pixels): the 'size' the relative tolerances refer to."""
    c = spec['cls']
    if c == 'compound':
        pts = np.array(coords_of(spec), float)
        return float(max(extent_of(spec['r1']), extent_of(spec['r2'])) + np.max(np.ptp(pts, axis=0)))
    if c == 'circle':
        return float(spec['radius'])
    if c in ('ellipse', 'rectangle'):
        return float(max(spec['width'], spec['height']))
    if c == 'circleannulus':
        return float(spec['outer_radius'])
    if c in ('ellipseannulus', 'rectangleannulus'):
        return float(max(spec['outer_width'], spec['outer_height']))
    if c == 'regpoly':
        return float(spec['radius'])
    if c == 'polygon':
        return float(max(np.ptp(spec['vertices'][0]), np.ptp(spec['vertices'][1])))
    if c == 'line':
        return float(math.hypot(spec['end'][0] - spec['start'][0], spec['end'][1] - spec['start'][1]))
    return 0.0


def _poly_dist(vx, vy, x, y):
    mind = np.full(np.shape(x), np.inf)
    n = len(vx)
    for i in range(n):
        j = (i + 1) % n
        ex, ey = vx[j] - vx[i], vy[j] - vy[i]
        L2 = ex * ex + ey * ey
        if L2 == 0:
            d = np.hypot(x - vx[i], y - vy[i])
        else:
            s = np.clip(((x - vx[i]) * ex + (y - vy[i]) * ey) / L2, 0.0, 1.0)
            d = np.hypot(x - (vx[i] + s * ex), y - (vy[i] + s * ey))
        mind = np.minimum(mind, d)
    return mind


def robust(spec, x, y, d):
    """Queries whose reference membership is sure and cannot change when the position (or, equivalently,
    the boundary) moves by much less than d pixels: the reference gives the same sure answer at the 8
    positions q + d (cos, sin)(k 45 deg); (regular) polygons: distance to the nearest edge > 4 d."""
    cls = spec['cls']
    if cls == 'compound':
        return robust(spec['r1'], x, y, d) & robust(spec['r2'], x, y, d)
    if cls in G.EMPTY:
        return np.ones(np.shape(x), bool)
    ref = G.Ref(spec)
    ins0, ok = ref.member(x, y)
    ok = np.array(ok, bool)
    if cls in ('polygon', 'regpoly'):
        return ok & (_poly_dist(ref.vx, ref.vy, x, y) > 4.0 * d)
    for k in range(8):
        a = 2.0 * math.pi * k / 8.0
        ins, sure = ref.member(x + d * math.cos(a), y + d * math.sin(a))
        ok &= sure & (ins == ins0)
    return ok


def angle_diff_deg(a, b, mod=360.0):
    """Signed difference a - b folded into (-mod/2, mod/2]."""
    d = (a - b) % mod
    return d - mod if d > mod / 2.0 else d


def angle_deg(q):
    """A Quantity angle in degrees by the oracle's own unit table (astropy's for other units)."""
    name = str(q.unit)
    if name in G.UNIT:
        return float(q.value) * G.UNIT[name] / G.UNIT['deg']
    return float(q.to_value('deg'))
