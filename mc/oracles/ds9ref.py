"""Reference reading of the DS9 region-file conventions: a *generator-predictor*.

An abstract region line (shape, frame, numbers, notation choices, properties)
is rendered to concrete DS9 text in the chosen syntax AND mapped to the
expected region description by plain arithmetic written from the format
conventions the property states:

* pixel positions 1-based -> 0-based (-1), sizes not shifted;
* ellipse radii are semi-axes (x2 for width/height);
* bare numbers are degrees (pixels in the image frame); suffixes " ' d r i;
  a:b:c longitudes are hours only in equatorial frames, XhYmZs / +-XdYmZs;
* leading '-' excludes, include=0/1 overrides the sign;
* per-region properties override global ones;
* multi-radius annulus/ellipse/box expand into consecutive annuli;
* text in {} "" '' verbatim; tags accumulate into a list.

This is not a parser: nothing here reads DS9 text.
"""
import math

FRAME_MAP = {'image': 'image', 'icrs': 'icrs', 'fk5': 'fk5', 'j2000': 'fk5', 'fk4': 'fk4', 'b1950': 'fk4',
             'galactic': 'galactic', 'ecliptic': 'barycentricmeanecliptic'}
EQUATORIAL = ('icrs', 'fk5', 'j2000', 'fk4', 'b1950')
SIZE_UNIT_DEG = {'': 1.0, 'd': 1.0, '"': 1.0 / 3600.0, "'": 1.0 / 60.0, 'r': 180.0 / math.pi}

# shape -> (DS9 word, number of coordinate pairs, list of size-groups, has angle, resulting description shape(s))
SHAPES = {
    'circle': ('circle', 1, 1, False),
    'ellipse': ('ellipse', 1, 2, True),
    'box': ('box', 1, 2, True),
    'polygon': ('polygon', 3, 0, False),
    'polygon5': ('polygon', 5, 0, False),
    'line': ('line', 2, 0, False),
    'point': ('point', 1, 0, False),
    'text': ('text', 1, 0, False),
    'annulus': ('annulus', 1, 2, False),
    'annulus3': ('annulus', 1, 3, False),
    'annulus4': ('annulus', 1, 4, False),
    'ellipse2': ('ellipse', 1, 4, True),
    'ellipse3': ('ellipse', 1, 6, True),
    'box2': ('box', 1, 4, True),
    'box3': ('box', 1, 6, True),
}

# sexagesimal components (exactly representable in the text): hours / degrees
LON_SEX = (12, 30, 49.4232)          # 12:30:49.4232
LAT_SEX = (12, 23, 28.04)            # 12:23:28.04 (sign applied separately)
LON_DEG = 187.70593
LAT_DEG = 12.391123
OFFS = [(0.0, 0.0), (0.02, 0.005), (0.0125, 0.03), (-0.01, 0.02), (-0.015, 0.0075)]
PIX = (102.5, 57.25)
PIX_OFFS = [(0.0, 0.0), (8.0, 1.5), (5.25, 9.0), (-3.0, 6.5), (-4.5, 2.0)]
SIZE_MULT = [1.0, 0.625, 2.0, 1.25, 3.0, 1.875]       # successive (a, b) pairs
ANN_MULT = [1.0, 1.5, 2.25, 3.0]                      # successive annulus radii


def _sex(c, sep_style):
    a, b, s = c
    if sep_style == 'colon':
        return f'{a}:{b:02d}:{s!r}'
    raise ValueError(sep_style)


def render_coord(kind, which, value_deg, notation, sex=None, neg=False):
    """Text of one sky coordinate.  which: 'lon' | 'lat'."""
    sign = '-' if neg else ''
    if notation == 'bare':
        return f'{sign}{value_deg!r}'
    if notation == 'd':
        return f'{sign}{value_deg!r}d'
    if notation == 'r':
        return f'{sign}{math.radians(value_deg)!r}r'
    if notation == 'colon':
        return sign + _sex(sex, 'colon')
    if notation == 'hms':
        a, b, s = sex
        if which == 'lon':
            return f'{a}h{b}m{s!r}s'
        return f'{"-" if neg else "+"}{a}d{b}m{s!r}s'
    raise ValueError(notation)


def sex_value(c):
    a, b, s = c
    return a + b / 60.0 + s / 3600.0


class Line:
    """One abstract region line."""

    def __init__(self, shape, frame, coordnot='bare', sizenot='', anglenot='', sep='paren_comma', namecase='lower',
                 framecase='lower', sign='', include=None, props=None, latneg=False, text_style='brace', text='hello world',
                 size_base=None, angle=None, odd_text=False, latzero=False, hashsep=' # '):
        self.shape, self.frame = shape, frame
        self.coordnot, self.sizenot, self.anglenot = coordnot, sizenot, anglenot
        self.sep, self.namecase, self.framecase = sep, namecase, framecase
        self.sign, self.include = sign, include
        self.props = props or []
        self.latneg = latneg
        self.text_style, self.text = text_style, text
        self.size_base = size_base
        self.angle = 33.5 if angle is None else angle
        self.odd_text = odd_text       # "# text(x,y) text={...}" spelling
        self.hashsep = hashsep         # what stands between the parameters and the properties: ' # ', a tab before or after the '#', nothing
        self.latzero = latzero         # |latitude| < 1 degree: the sign sits on a zero degree field (-0:23:28.04)

    # ---- numbers -----------------------------------------------------------
    def _coords(self):
        """[(text_a, text_b, expected_a, expected_b)] for every coordinate pair."""
        word, npairs, nsizes, has_angle = SHAPES[self.shape]
        out = []
        image = self.frame.lower() == 'image'
        for k in range(npairs):
            if image:
                x = PIX[0] + PIX_OFFS[k][0]
                y = PIX[1] + PIX_OFFS[k][1]
                suf = 'i' if self.coordnot == 'i' else ''
                out.append((f'{x!r}{suf}', f'{y!r}{suf}', x - 1.0, y - 1.0))
            else:
                if self.coordnot in ('colon', 'hms'):
                    lonc = (LON_SEX[0], LON_SEX[1] + k, LON_SEX[2])
                    latc = (0 if self.latzero else LAT_SEX[0], LAT_SEX[1] + 2 * k, LAT_SEX[2])
                    hours = (self.coordnot == 'hms') or (self.frame.lower() in EQUATORIAL)
                    lon = sex_value(lonc) * (15.0 if hours else 1.0)
                    lat = sex_value(latc) * (-1.0 if self.latneg else 1.0)
                    ta = render_coord('sky', 'lon', None, self.coordnot, lonc)
                    tb = render_coord('sky', 'lat', None, self.coordnot, latc, neg=self.latneg)
                else:
                    lon = LON_DEG + OFFS[k][0]
                    lat = ((LAT_DEG - 12.0 if self.latzero else LAT_DEG) + OFFS[k][1])
                    ta = render_coord('sky', 'lon', lon, self.coordnot)
                    tb = render_coord('sky', 'lat', lat, self.coordnot, neg=self.latneg)
                    if self.latneg:
                        lat = -lat
                out.append((ta, tb, lon, lat))
        return out

    def _sizes(self):
        word, npairs, nsizes, has_angle = SHAPES[self.shape]
        image = self.frame.lower() == 'image'
        out = []
        mult = ANN_MULT if word == 'annulus' else SIZE_MULT
        for k in range(nsizes):
            if image:
                v = (self.size_base or 6.0) * mult[k]
                suf = 'i' if self.sizenot == 'i' else ''
                out.append((f'{v!r}{suf}', v))
            else:
                deg = (self.size_base or 0.01) * mult[k]
                written = deg / SIZE_UNIT_DEG[self.sizenot]
                out.append((f'{written!r}{self.sizenot}', written * SIZE_UNIT_DEG[self.sizenot]))
        return out

    def _angle(self):
        a = self.angle
        if self.anglenot == 'r':
            w = math.radians(a)
            return f'{w!r}r', math.degrees(w)
        return f'{a!r}{self.anglenot}', a

    # ---- text ----------------------------------------------------------------
    def render(self):
        word, npairs, nsizes, has_angle = SHAPES[self.shape]
        toks = []
        for ta, tb, _, _ in self._coords():
            toks += [ta, tb]
        toks += [t for t, _ in self._sizes()]
        if has_angle:
            toks.append(self._angle()[0])
        name = {'lower': word, 'upper': word.upper(), 'mixed': word.capitalize()}[self.namecase]
        if self.sep == 'paren_comma':
            body = f'{name}(' + ','.join(toks) + ')'
        elif self.sep == 'paren_space':
            body = f'{name}(' + ' '.join(toks) + ')'
        elif self.sep == 'space':
            body = f'{name} ' + ' '.join(toks)
        elif self.sep == 'comma':
            body = f'{name} ' + ','.join(toks)
        elif self.sep == 'paren_comma_space':
            body = f'{name}(' + ', '.join(toks) + ')'
        elif self.sep == 'paren_tab':           # a tab is a blank
            body = f'{name}(' + '\t'.join(toks) + ')'
        elif self.sep == 'paren_comma_tab':
            body = f'{name}(' + ',\t'.join(toks) + ')'
        else:
            raise ValueError(self.sep)
        props = list(self.props)
        if self.shape == 'text':
            o, c = {'brace': '{}', 'dquote': '""', 'squote': "''"}[self.text_style]
            props = [f'text={o}{self.text}{c}'] + props
        if self.include is not None:
            props.append(f'include={self.include}')
        line = f'{self.sign}{body}'
        if self.shape == 'text' and self.odd_text:
            return f'# {line} ' + ' '.join(props)
        if props:
            line += self.hashsep + ' '.join(props)
        return line

    def frame_word(self):
        return self.frame.upper() if self.framecase == 'upper' else self.frame.lower()

    # ---- prediction -------------------------------------------------------------
    def expected(self):
        """List of expected region descriptions (mc.oracles.regdesc layout)."""
        word, npairs, nsizes, has_angle = SHAPES[self.shape]
        fr = FRAME_MAP[self.frame.lower()]
        kind = 'pixel' if fr == 'image' else 'sky'
        coords = [(a, b) for _, _, a, b in self._coords()]
        sizes = [v for _, v in self._sizes()]
        angle = self._angle()[1] if has_angle else None
        include = self.sign != '-'
        if self.include is not None:
            include = bool(int(self.include))
        base = {'kind': kind, 'frame': fr, 'include': include}
        out = []
        if word == 'circle':
            out.append({**base, 'shape': 'circle', 'coords': coords, 'sizes': sizes, 'angle': None})
        elif word == 'ellipse' and nsizes == 2:
            out.append({**base, 'shape': 'ellipse', 'coords': coords, 'sizes': [2 * sizes[0], 2 * sizes[1]], 'angle': angle})
        elif word == 'box' and nsizes == 2:
            out.append({**base, 'shape': 'rectangle', 'coords': coords, 'sizes': sizes, 'angle': angle})
        elif word == 'polygon':
            out.append({**base, 'shape': 'polygon', 'coords': coords, 'sizes': [], 'angle': None})
        elif word == 'line':
            out.append({**base, 'shape': 'line', 'coords': coords, 'sizes': [], 'angle': None})
        elif word == 'point':
            out.append({**base, 'shape': 'point', 'coords': coords, 'sizes': [], 'angle': None})
        elif word == 'text':
            out.append({**base, 'shape': 'text', 'coords': coords, 'sizes': [], 'angle': None, 'text_param': self.text})
        elif word == 'annulus':
            for k in range(nsizes - 1):
                out.append({**base, 'shape': 'circleannulus', 'coords': coords, 'sizes': [sizes[k], sizes[k + 1]], 'angle': None})
        elif word in ('ellipse', 'box'):
            f = 2.0 if word == 'ellipse' else 1.0
            shp = 'ellipseannulus' if word == 'ellipse' else 'rectangleannulus'
            for k in range(nsizes // 2 - 1):
                a1, b1, a2, b2 = sizes[2 * k], sizes[2 * k + 1], sizes[2 * k + 2], sizes[2 * k + 3]
                # description order: inner_width, inner_height, outer_width, outer_height
                out.append({**base, 'shape': shp, 'coords': coords, 'sizes': [f * a1, f * b1, f * a2, f * b2], 'angle': angle})
        return out
