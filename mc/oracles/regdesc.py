"""Format-neutral description of a region through its public attributes only,
and tolerance-aware comparison of two descriptions (used by the I/O round-trip
properties C09, C10, C11, C12, C14).  Unit conversion of Quantities and
extraction of longitude/latitude in degrees are delegated to astropy
(trusted)."""
import math

import numpy as np

SHAPES = {
    'Circle': 'circle', 'Ellipse': 'ellipse', 'Rectangle': 'rectangle', 'Polygon': 'polygon', 'RegularPolygon': 'regpoly',
    'CircleAnnulus': 'circleannulus', 'EllipseAnnulus': 'ellipseannulus', 'RectangleAnnulus': 'rectangleannulus',
    'Point': 'point', 'Line': 'line', 'Text': 'text', 'Compound': 'compound',
}
SIZES = {
    'circle': ['radius'], 'ellipse': ['width', 'height'], 'rectangle': ['width', 'height'],
    'circleannulus': ['inner_radius', 'outer_radius'],
    'ellipseannulus': ['inner_width', 'inner_height', 'outer_width', 'outer_height'],
    'rectangleannulus': ['inner_width', 'inner_height', 'outer_width', 'outer_height'],
    'polygon': [], 'point': [], 'line': [], 'text': [], 'regpoly': ['radius'],
}
COORDS = {'polygon': ['vertices'], 'line': ['start', 'end']}


def _pairs(c):
    """coordinate object -> list of (a, b) floats (pixels or degrees)."""
    from regions import PixCoord
    if isinstance(c, PixCoord):
        x, y = np.atleast_1d(np.asarray(c.x, float)), np.atleast_1d(np.asarray(c.y, float))
        return [(float(a), float(b)) for a, b in zip(x.ravel(), y.ravel())]
    sph = c.spherical
    lon = np.atleast_1d(sph.lon.deg)
    lat = np.atleast_1d(sph.lat.deg)
    return [(float(a), float(b)) for a, b in zip(lon.ravel(), lat.ravel())]


def describe(region):
    import astropy.units as u
    from regions import PixelRegion
    name = type(region).__name__
    kind = 'pixel' if isinstance(region, PixelRegion) else 'sky'
    base = name.replace('PixelRegion', '').replace('SkyRegion', '')
    shape = SHAPES[base]
    d = {'shape': shape, 'kind': kind}
    if shape == 'compound':
        d['frame'] = None
        return d
    cattrs = COORDS.get(shape, ['center'])
    first = getattr(region, cattrs[0])
    d['frame'] = 'image' if kind == 'pixel' else first.frame.name
    coords = []
    for a in cattrs:
        coords += _pairs(getattr(region, a))
    d['coords'] = coords
    sizes = []
    for a in SIZES[shape]:
        v = getattr(region, a)
        sizes.append(float(v.to_value(u.deg)) if isinstance(v, u.Quantity) else float(v))
    d['sizes'] = sizes
    ang = getattr(region, 'angle', None)
    d['angle'] = None if ang is None else float(ang.to_value(u.deg))
    d['text_param'] = getattr(region, 'text', None) if shape == 'text' else None
    d['meta_text'] = region.meta.get('text')
    d['label'] = region.meta.get('label')
    tags = region.meta.get('tag')
    d['tags'] = None if tags is None else list(tags)
    d['include'] = bool(region.meta.get('include', True))
    d['component'] = region.meta.get('component')
    if shape == 'regpoly':
        d['nvertices'] = int(region.nvertices)
    return d


def _dlon(a, b):
    return abs(((a - b + 180.0) % 360.0) - 180.0)


def compare(exp, got, tol_coord, tol_size, tol_angle, angle_mod=None, check=('shape', 'kind', 'frame', 'coords', 'sizes', 'angle')):
    """List of human-readable differences between two descriptions.
    tol_* are absolute tolerances in the description's units (pixels or degrees)."""
    diffs = []
    for k in ('shape', 'kind', 'frame'):
        if k in check and exp.get(k) != got.get(k):
            diffs.append(f'{k}: expected {exp.get(k)!r}, got {got.get(k)!r}')
    if diffs:
        return diffs
    if 'coords' in check:
        ec, gc = exp.get('coords', []), got.get('coords', [])
        if len(ec) != len(gc):
            diffs.append(f'number of coordinates: expected {len(ec)}, got {len(gc)}')
        else:
            for i, ((a, b), (c, d)) in enumerate(zip(ec, gc)):
                if exp['kind'] == 'sky':
                    # longitude tolerance is on the written value; near the poles compare on the written value too
                    da, db = _dlon(a, c), abs(b - d)
                else:
                    da, db = abs(a - c), abs(b - d)
                ta = tol_coord + 4 * math.ulp(max(abs(a), abs(c), 1.0))
                tb = tol_coord + 4 * math.ulp(max(abs(b), abs(d), 1.0))
                if not (da <= ta and db <= tb):
                    diffs.append(f'coordinate {i}: expected ({a!r}, {b!r}), got ({c!r}, {d!r}) (tolerance {tol_coord:g})')
    if 'sizes' in check:
        es, gs = exp.get('sizes', []), got.get('sizes', [])
        if len(es) != len(gs):
            diffs.append(f'number of sizes: expected {len(es)}, got {len(gs)}')
        else:
            tols = tol_size if isinstance(tol_size, (list, tuple)) else [tol_size] * len(es)
            for i, (a, b, t) in enumerate(zip(es, gs, tols)):
                if not abs(a - b) <= t + 4 * math.ulp(max(abs(a), abs(b), 1e-300)):
                    diffs.append(f'size {i}: expected {a!r}, got {b!r} (tolerance {t:g})')
    if 'angle' in check:
        ea, ga = exp.get('angle'), got.get('angle')
        if (ea is None) != (ga is None):
            diffs.append(f'angle: expected {ea!r}, got {ga!r}')
        elif ea is not None:
            dd = abs(ea - ga)
            if angle_mod:
                dd = abs(((ea - ga + angle_mod / 2) % angle_mod) - angle_mod / 2)
            if not dd <= tol_angle + 1e-12:
                diffs.append(f'angle: expected {ea!r}, got {ga!r} (tolerance {tol_angle:g})')
    return diffs
