"""Reference geometry, written independently of the code under test.

A *spec* is a JSON-able dict describing a pixel region; ``build(spec)`` makes
the real region, ``Ref(spec)`` is the boring reference model: membership
with an explicit "sure" band, true float extent, analytic area, rigid
motions.  Nothing here calls regions' own geometry; angles are converted
with a literal unit table (not astropy.units).

Membership convention: ``member(x, y) -> (inside, sure)`` for the *included*
shape.  ``sure`` is False for positions whose normalised distance to the
boundary is inside the guard band (|margin| <= guard) -- the property
excepts those ("within floating-point rounding").  The guard is derived from
the magnitudes involved, see ``_guard``.
"""
import math

import numpy as np

UNIT = {'deg': math.pi / 180.0, 'rad': 1.0, 'arcmin': math.pi / 10800.0,
        'arcsec': math.pi / 648000.0, 'hourangle': math.pi / 12.0}

SIMPLE = ('circle', 'ellipse', 'rectangle', 'polygon', 'regpoly')
ANNULI = ('circleannulus', 'ellipseannulus', 'rectangleannulus')
EMPTY = ('point', 'line', 'text')


def rad(angle):
    """angle spec [value, unit, ...] -> radians (float)."""
    if angle is None:
        return 0.0
    return float(angle[0]) * UNIT[angle[1]]


def rot(x, y, cx, cy, theta):
    """Rotate (x, y) about (cx, cy) by theta radians, counter-clockwise."""
    c, s = math.cos(theta), math.sin(theta)
    dx, dy = np.asarray(x, float) - cx, np.asarray(y, float) - cy
    return cx + c * dx - s * dy, cy + s * dx + c * dy


# ------------------------------------------------------------ real objects --
def _angle_obj(angle):
    import astropy.units as u
    from astropy.coordinates import Angle
    if angle is None:
        return None
    val, unit = angle[0], angle[1]
    kind = angle[2] if len(angle) > 2 else 'quantity'
    q = u.Quantity(val, getattr(u, unit))
    return Angle(q) if kind == 'angle' else q


def _meta(spec):
    from regions import RegionMeta, RegionVisual
    inc = spec.get('include', 'absent')
    meta = RegionMeta()
    if inc != 'absent':
        meta['include'] = inc
    for k, v in (spec.get('meta') or {}).items():
        meta[k] = v
    vis = RegionVisual()
    for k, v in (spec.get('visual') or {}).items():
        vis[k] = v
    return meta, vis


def op_andnot(a, b):
    """A caller-supplied, non-commutative compound operator: the set difference a \\ b."""
    return np.logical_and(a, np.logical_not(b))


def compound_operator(name):
    import operator
    return {'and': operator.and_, 'or': operator.or_, 'xor': operator.xor, 'andnot': op_andnot}[name]


def build(spec):
    """Build the real regions object for a spec."""
    import regions as R
    from regions import PixCoord
    cls = spec['cls']
    if cls == 'compound':
        op = compound_operator(spec['op'])
        r1, r2 = build(spec['r1']), build(spec['r2'])
        kw = {}
        if spec.get('include', 'inherit') != 'inherit':
            # an explicit meta object is handed to the compound ('absent' = an empty one)
            meta, vis = _meta(spec)
            kw = {'meta': meta, 'visual': vis}
        return R.CompoundPixelRegion(r1, r2, op, **kw)
    meta, vis = _meta(spec)
    kw = {'meta': meta, 'visual': vis}
    if spec.get('size_dtype'):
        # integral sizes handed over as scalars of a (narrow) numpy integer type, e.g. read from an int16 table column
        dt = getattr(np, spec['size_dtype'])
        spec = {k: (dt(v) if k in ('radius', 'width', 'height', 'inner_radius', 'outer_radius', 'inner_width', 'inner_height',
                                   'outer_width', 'outer_height') else v) for k, v in spec.items()}
    if cls in ('circle', 'ellipse', 'rectangle', 'regpoly', 'point', 'text') or cls in ANNULI:
        c = PixCoord(spec['center'][0], spec['center'][1])
    ang = _angle_obj(spec.get('angle'))
    akw = {} if ang is None else {'angle': ang}
    if cls == 'circle':
        return R.CirclePixelRegion(c, spec['radius'], **kw)
    if cls == 'ellipse':
        return R.EllipsePixelRegion(c, spec['width'], spec['height'], **akw, **kw)
    if cls == 'rectangle':
        return R.RectanglePixelRegion(c, spec['width'], spec['height'], **akw, **kw)
    if cls == 'polygon':
        vx, vy = np.array(spec['vertices'][0], float), np.array(spec['vertices'][1], float)
        if spec.get('vertex_dtype'):
            # integral vertices handed over in a numpy integer type (e.g. read from an integer table column)
            dt = getattr(np, spec['vertex_dtype'])
            return R.PolygonPixelRegion(PixCoord(np.array(spec['vertices'][0], dt), np.array(spec['vertices'][1], dt)), **kw)
        if _poly_origin_route(spec):
            # same absolute vertices, given relative to a non-zero `origin=` (a dyadic offset, so the sum is exact
            # for the dyadic catalogue polygons and within the guard band otherwise)
            ox, oy = 12.5, -7.25
            return R.PolygonPixelRegion(PixCoord(vx - ox, vy - oy), origin=PixCoord(ox, oy), **kw)
        return R.PolygonPixelRegion(PixCoord(vx, vy), **kw)
    if cls == 'regpoly':
        return R.RegularPolygonPixelRegion(c, spec['n'], spec['radius'], **akw, **kw)
    if cls == 'circleannulus':
        return R.CircleAnnulusPixelRegion(c, spec['inner_radius'], spec['outer_radius'], **kw)
    if cls in ('ellipseannulus', 'rectangleannulus'):
        K = R.EllipseAnnulusPixelRegion if cls == 'ellipseannulus' else R.RectangleAnnulusPixelRegion
        return K(c, spec['inner_width'], spec['outer_width'], spec['inner_height'], spec['outer_height'], **akw, **kw)
    if cls == 'point':
        return R.PointPixelRegion(c, **kw)
    if cls == 'text':
        return R.TextPixelRegion(c, spec.get('text', 'hello'), **kw)
    if cls == 'line':
        return R.LinePixelRegion(PixCoord(*spec['start']), PixCoord(*spec['end']), **kw)
    raise ValueError(cls)


def _poly_origin_route(spec):
    """Every third polygon spec (by hash of its vertices) is built through the `origin=` keyword."""
    import json
    import zlib
    return zlib.crc32(json.dumps(spec['vertices']).encode()) % 3 == 0


def included(spec):
    """The observable include sense of a (non-compound) spec."""
    inc = spec.get('include', 'absent')
    return True if inc == 'absent' else bool(inc)


# --------------------------------------------------------- reference model --
def _ulp(v):
    return math.ulp(abs(v)) if v else 5e-324


class Ref:
    def __init__(self, spec):
        self.spec = spec
        self.cls = spec['cls']
        c = self.cls
        if c == 'compound':
            self.r1, self.r2 = Ref(spec['r1']), Ref(spec['r2'])
            return
        if c in ('circle', 'ellipse', 'rectangle', 'regpoly', 'point', 'text') or c in ANNULI:
            self.cx, self.cy = float(spec['center'][0]), float(spec['center'][1])
        self.theta = rad(spec.get('angle'))
        if c == 'regpoly':
            n, r = int(spec['n']), float(spec['radius'])
            ks = np.arange(n)
            th = 2.0 * math.pi * ks / n + math.pi / 2 + self.theta
            self.vx = self.cx + r * np.cos(th)
            self.vy = self.cy + r * np.sin(th)
        elif c == 'polygon':
            self.vx = np.array(spec['vertices'][0], float)
            self.vy = np.array(spec['vertices'][1], float)

    # ---- pieces --------------------------------------------------------------
    def _frame(self, x, y):
        """Coordinates in the shape's own (un-rotated) frame."""
        dx = np.asarray(x, float) - self.cx
        dy = np.asarray(y, float) - self.cy
        c, s = math.cos(self.theta), math.sin(self.theta)
        return c * dx + s * dy, -s * dx + c * dy

    def _guard(self, x, y, minsize):
        """Normalised guard band: generous multiple of the coordinate rounding
        (ulp of the largest coordinate involved) relative to the smallest size."""
        big = max(abs(self.cx), abs(self.cy), 1.0)
        xa = np.asarray(x, float)
        ya = np.asarray(y, float)
        if xa.size:
            big = max(big, float(np.max(np.abs(xa))), float(np.max(np.abs(ya))))
        return 1e-9 + 64.0 * _ulp(big) / minsize

    def _f_circle(self, x, y, r):
        dx = np.asarray(x, float) - self.cx
        dy = np.asarray(y, float) - self.cy
        return np.sqrt(dx * dx + dy * dy) / r

    def _f_ellipse(self, x, y, w, h):
        u, v = self._frame(x, y)
        return np.sqrt((u / (0.5 * w)) ** 2 + (v / (0.5 * h)) ** 2)

    def _f_rect(self, x, y, w, h):
        u, v = self._frame(x, y)
        return np.maximum(np.abs(u) / (0.5 * w), np.abs(v) / (0.5 * h))

    def _poly(self, x, y):
        x = np.asarray(x, float)
        y = np.asarray(y, float)
        shp = np.broadcast(x, y).shape
        x = np.broadcast_to(x, shp).ravel()
        y = np.broadcast_to(y, shp).ravel()
        vx, vy = self.vx, self.vy
        n = len(vx)
        inside = np.zeros(x.shape, bool)
        mind = np.full(x.shape, np.inf)
        for i in range(n):
            j = (i - 1) % n
            xi, yi, xj, yj = vx[i], vy[i], vx[j], vy[j]
            # division-free even-odd crossing test (half-open in y)
            cond = (yi > y) != (yj > y)
            t = (xj - xi) * (y - yi) - (x - xi) * (yj - yi)
            cross = cond & ((t > 0) == (yj > yi)) & (t != 0)
            inside ^= cross
            # distance to the segment (for the guard band)
            ex, ey = xj - xi, yj - yi
            L2 = ex * ex + ey * ey
            if L2 == 0:
                d = np.hypot(x - xi, y - yi)
            else:
                s = np.clip(((x - xi) * ex + (y - yi) * ey) / L2, 0.0, 1.0)
                d = np.hypot(x - (xi + s * ex), y - (yi + s * ey))
            mind = np.minimum(mind, d)
        scale = max(float(np.ptp(vx)), float(np.ptp(vy)), 1e-300)
        big = max(float(np.max(np.abs(vx))), float(np.max(np.abs(vy))), 1.0)
        if x.size:
            big = max(big, float(np.max(np.abs(x))), float(np.max(np.abs(y))))
        guard = 1e-9 * scale + 64.0 * _ulp(big)
        if self.cls == 'regpoly':
            guard += 1e-12 * (big + scale)       # own trig vs the code's trig
        sure = mind > guard
        return inside.reshape(shp), sure.reshape(shp)

    # ---- membership ------------------------------------------------------------
    def member(self, x, y):
        """(inside, sure) for the geometric (included) shape."""
        s = self.spec
        c = self.cls
        x = np.asarray(x, float)
        y = np.asarray(y, float)
        shp = np.broadcast(x, y).shape
        if c in EMPTY:
            return np.zeros(shp, bool), np.ones(shp, bool)
        if c == 'compound':
            i1, s1 = self.r1.member_flagged(x, y)
            i2, s2 = self.r2.member_flagged(x, y)
            op = {'and': np.logical_and, 'or': np.logical_or, 'xor': np.logical_xor, 'andnot': op_andnot}[s['op']]
            return op(i1, i2), s1 & s2
        if c in ('polygon', 'regpoly'):
            return self._poly(x, y)
        if c == 'circle':
            f = self._f_circle(x, y, s['radius'])
            g = self._guard(x, y, s['radius'])
            return np.broadcast_to(f < 1, shp), np.broadcast_to(np.abs(f - 1) > g, shp)
        if c in ('ellipse', 'rectangle'):
            fn = self._f_ellipse if c == 'ellipse' else self._f_rect
            f = fn(x, y, s['width'], s['height'])
            g = self._guard(x, y, min(s['width'], s['height']))
            return np.broadcast_to(f < 1, shp), np.broadcast_to(np.abs(f - 1) > g, shp)
        if c == 'circleannulus':
            fi = self._f_circle(x, y, s['inner_radius'])
            fo = self._f_circle(x, y, s['outer_radius'])
            g = self._guard(x, y, s['inner_radius'])
        elif c in ('ellipseannulus', 'rectangleannulus'):
            fn = self._f_ellipse if c == 'ellipseannulus' else self._f_rect
            fi = fn(x, y, s['inner_width'], s['inner_height'])
            fo = fn(x, y, s['outer_width'], s['outer_height'])
            g = self._guard(x, y, min(s['inner_width'], s['inner_height']))
        else:
            raise ValueError(c)
        inside = (fo < 1) & ~(fi < 1)
        sure = (np.abs(fi - 1) > g) & (np.abs(fo - 1) > g)
        return np.broadcast_to(inside, shp), np.broadcast_to(sure, shp)

    def member_flagged(self, x, y):
        """Membership including the spec's own include flag (operands of compounds)."""
        ins, sure = self.member(x, y)
        if self.cls == 'compound':
            inc = self.spec.get('include', 'inherit')
            if inc == 'inherit':
                # CompoundPixelRegion shares region1.meta when none is given, so
                # the compound's observable flag is region1's
                flag = _observable_flag(self.spec['r1'])
            else:
                flag = True if inc == 'absent' else bool(inc)
        else:
            flag = included(self.spec)
        return (ins if flag else ~ins), sure

    # ---- extent / area -----------------------------------------------------------
    def extent(self):
        """True float extent (xlo, xhi, ylo, yhi) and whether trig was involved."""
        s, c = self.spec, self.cls
        if c == 'compound':
            a, ta = self.r1.extent()
            b, tb = self.r2.extent()
            return None, ta or tb       # compound: union of integer boxes, handled by caller
        if c in ('point', 'text'):
            return (self.cx, self.cx, self.cy, self.cy), False
        if c == 'line':
            (x0, y0), (x1, y1) = s['start'], s['end']
            return (min(x0, x1), max(x0, x1), min(y0, y1), max(y0, y1)), False
        if c in ('polygon', 'regpoly'):
            return (float(self.vx.min()), float(self.vx.max()), float(self.vy.min()), float(self.vy.max())), c == 'regpoly'
        if c in ('circle', 'circleannulus'):
            r = s['radius'] if c == 'circle' else s['outer_radius']
            return (self.cx - r, self.cx + r, self.cy - r, self.cy + r), False
        if c in ('ellipse', 'ellipseannulus'):
            w = s['width'] if c == 'ellipse' else s['outer_width']
            h = s['height'] if c == 'ellipse' else s['outer_height']
            a, b = 0.5 * w, 0.5 * h
            ct, st = math.cos(self.theta), math.sin(self.theta)
            dx = math.sqrt((a * ct) ** 2 + (b * st) ** 2)
            dy = math.sqrt((a * st) ** 2 + (b * ct) ** 2)
            return (self.cx - dx, self.cx + dx, self.cy - dy, self.cy + dy), self.theta != 0.0
        if c in ('rectangle', 'rectangleannulus'):
            w = s['width'] if c == 'rectangle' else s['outer_width']
            h = s['height'] if c == 'rectangle' else s['outer_height']
            xs, ys = [], []
            for sx in (-1, 1):
                for sy in (-1, 1):
                    px, py = rot(self.cx + sx * 0.5 * w, self.cy + sy * 0.5 * h, self.cx, self.cy, self.theta)
                    xs.append(float(px))
                    ys.append(float(py))
            return (min(xs), max(xs), min(ys), max(ys)), self.theta != 0.0
        raise ValueError(c)

    def area(self):
        s, c = self.spec, self.cls
        if c in ('point', 'text', 'line'):
            return 0.0
        if c == 'circle':
            return math.pi * s['radius'] ** 2
        if c == 'ellipse':
            return math.pi * s['width'] * s['height'] / 4.0
        if c == 'rectangle':
            return s['width'] * s['height']
        if c in ('polygon', 'regpoly'):
            x, y = self.vx, self.vy
            return 0.5 * abs(float(np.sum(x * np.roll(y, -1) - y * np.roll(x, -1))))
        if c == 'circleannulus':
            return math.pi * (s['outer_radius'] ** 2 - s['inner_radius'] ** 2)
        if c == 'ellipseannulus':
            return math.pi / 4.0 * (s['outer_width'] * s['outer_height'] - s['inner_width'] * s['inner_height'])
        if c == 'rectangleannulus':
            return s['outer_width'] * s['outer_height'] - s['inner_width'] * s['inner_height']
        return None

    def size(self):
        """A characteristic (smallest) linear size, for tolerances."""
        s, c = self.spec, self.cls
        if c == 'circle':
            return s['radius']
        if c in ('ellipse', 'rectangle'):
            return min(s['width'], s['height'])
        if c == 'circleannulus':
            return s['inner_radius']
        if c in ('ellipseannulus', 'rectangleannulus'):
            return min(s['inner_width'], s['inner_height'])
        if c in ('polygon', 'regpoly'):
            return max(float(np.ptp(self.vx)), float(np.ptp(self.vy)))
        return 1.0


def _observable_flag(spec):
    if spec['cls'] == 'compound':
        inc = spec.get('include', 'inherit')
        if inc == 'inherit':
            return _observable_flag(spec['r1'])
        return True if inc == 'absent' else bool(inc)
    return included(spec)


def bbox_from_extent(ext):
    """Reference float-extent -> integer box (ixmin, ixmax, iymin, iymax)."""
    return (math.floor(ext[0] + 0.5), math.ceil(ext[1] + 0.5), math.floor(ext[2] + 0.5), math.ceil(ext[3] + 0.5))


# ------------------------------------------------------ query generation ----
MARGINS_IN = (0.0, 0.3, 0.7, 0.9, 0.99, 1 - 2.0 ** -10)
MARGINS_OUT = (1 + 2.0 ** -10, 1.01, 1.1, 1.5, 3.0)


def shape_frame_queries(spec, ndir=16):
    """Query positions generated in the shape's own frame at chosen normalised
    radii, mapped to pixel coordinates with the oracle's rotation.  Returns
    flat x, y arrays (membership is then decided by Ref.member, which agrees
    with the construction by design; the construction guarantees that both
    sides of the boundary are populated close to it)."""
    ref = Ref(spec)
    c = spec['cls']
    xs, ys = [], []
    dirs = [2 * math.pi * (k + 0.137) / ndir for k in range(ndir)]

    def add_ell(a, b, radii):
        for f in radii:
            for d in dirs:
                u, v = f * a * math.cos(d), f * b * math.sin(d)
                px, py = rot(ref.cx + u, ref.cy + v, ref.cx, ref.cy, ref.theta)
                xs.append(float(px))
                ys.append(float(py))

    def add_rect(a, b, radii):
        for f in radii:
            for (u, v) in ((f, 0.3), (-f, -0.6), (0.2, f), (-0.7, -f), (f, f), (-f, f), (f * 0.999, -f)):
                px, py = rot(ref.cx + u * a, ref.cy + v * b, ref.cx, ref.cy, ref.theta)
                xs.append(float(px))
                ys.append(float(py))
    allr = MARGINS_IN + MARGINS_OUT
    if c == 'circle':
        add_ell(spec['radius'], spec['radius'], allr)
    elif c == 'ellipse':
        add_ell(0.5 * spec['width'], 0.5 * spec['height'], allr)
    elif c == 'rectangle':
        add_rect(0.5 * spec['width'], 0.5 * spec['height'], allr)
    elif c == 'circleannulus':
        add_ell(spec['inner_radius'], spec['inner_radius'], allr)
        add_ell(spec['outer_radius'], spec['outer_radius'], allr)
    elif c == 'ellipseannulus':
        add_ell(0.5 * spec['inner_width'], 0.5 * spec['inner_height'], allr)
        add_ell(0.5 * spec['outer_width'], 0.5 * spec['outer_height'], allr)
    elif c == 'rectangleannulus':
        add_rect(0.5 * spec['inner_width'], 0.5 * spec['inner_height'], allr)
        add_rect(0.5 * spec['outer_width'], 0.5 * spec['outer_height'], allr)
    elif c in ('polygon', 'regpoly'):
        vx, vy = ref.vx, ref.vy
        gx, gy = float(vx.mean()), float(vy.mean())
        n = len(vx)
        # along rays from the centroid through vertices and edge midpoints, at the
        # vertex heights (the half-open rule) and on a box grid
        for i in range(n):
            j = (i + 1) % n
            for (tx, ty) in ((vx[i], vy[i]), (0.5 * (vx[i] + vx[j]), 0.5 * (vy[i] + vy[j]))):
                for f in allr:
                    xs.append(gx + f * (tx - gx))
                    ys.append(gy + f * (ty - gy))
        w, h = float(np.ptp(vx)), float(np.ptp(vy))
        for yy in list(vy) + [float(vy.min()) + h * k / 7.0 for k in range(8)]:
            for k in range(-2, 13):
                xs.append(float(vx.min()) + w * (k + 0.37) / 10.0)
                ys.append(float(yy))
    elif c in EMPTY:
        cx, cy = (spec['center'] if c != 'line' else spec['start'])
        for d in dirs:
            for f in (0.0, 0.5, 2.0):
                xs.append(cx + f * math.cos(d))
                ys.append(cy + f * math.sin(d))
        if c == 'line':
            (x0, y0), (x1, y1) = spec['start'], spec['end']
            for t in (0.0, 0.25, 0.5, 1.0):
                xs.append(x0 + t * (x1 - x0))
                ys.append(y0 + t * (y1 - y0))
    elif c == 'compound':
        x1, y1 = shape_frame_queries(spec['r1'], ndir)
        x2, y2 = shape_frame_queries(spec['r2'], ndir)
        return np.concatenate([x1, x2]), np.concatenate([y1, y2])
    return np.array(xs, float), np.array(ys, float)


# ------------------------------------------------- construction routes ------
def _scaled(spec, f, shift):
    """A different valid spec of the same class (used as the 'before' state of the re-assignment route)."""
    t = dict(spec)
    for k in ('radius', 'width', 'height', 'inner_radius', 'outer_radius', 'inner_width', 'outer_width', 'inner_height', 'outer_height'):
        if k in t:
            t[k] = t[k] * f
    if 'center' in t:
        t['center'] = [t['center'][0] + shift, t['center'][1] - shift] if isinstance(t['center'][0], float) else [t['center'][0] + 3, t['center'][1] - 2]
    if 'angle' in t and t['angle'] is not None:
        t['angle'] = [t['angle'][0] + 11.0 * UNIT['deg'] / UNIT[t['angle'][1]]] + list(t['angle'][1:])
    if 'vertices' in t:
        t['vertices'] = [[v * f + shift for v in t['vertices'][0]], [v * f - shift for v in t['vertices'][1]]]
    if 'start' in t:
        t['start'] = [t['start'][0] + shift, t['start'][1]]
        t['end'] = [t['end'][0], t['end'][1] - shift]
    return t


def build_via_reassign(spec, inplace=False):
    """The same region as ``build(spec)`` reached through another history: it is first built with other
    parameters and *used* (membership, box, area, mask), then every parameter is re-assigned.  Any state that
    is derived once and cached on the instance makes this region differ from a freshly built one."""
    from regions import PixCoord
    cls = spec['cls']
    if cls == 'compound':
        # built from *other* operands, used (membership, box, mask), then both operands replaced
        before = dict(spec)
        before['r1'] = _scaled(spec['r1'], 1.3, 1.75) if spec['r1']['cls'] != 'compound' else spec['r1']
        before['r2'] = _scaled(spec['r2'], 0.8, -2.25) if spec['r2']['cls'] != 'compound' else spec['r2']
        r = build(before)
        probe = PixCoord(np.array([0.0, 1.5]), np.array([0.25, -2.0]))
        for use in (lambda: r.contains(probe), lambda: r.bounding_box, lambda: r.to_mask('center')):
            try:
                use()
            except Exception:
                pass
        r.region1 = build_via_reassign(spec['r1'], inplace)
        r.region2 = build_via_reassign(spec['r2'], inplace)
        return r
    if cls == 'regpoly':
        return build(spec)       # its vertices are derived at construction by design
    size = Ref(spec).size() if cls not in EMPTY else 1.0
    before = _scaled(spec, 1.7, 0.6 * size)
    reg = build(before)
    probe = PixCoord(np.array([0.0, 1.5]), np.array([0.25, -2.0]))

    def use_it():
        for use in (lambda: reg.contains(probe), lambda: reg.bounding_box, lambda: reg.area,
                    lambda: reg.to_mask('center'), lambda: reg.as_artist()):
            try:
                use()
            except Exception:
                pass
    use_it()
    sizes = [k for k in ('radius', 'width', 'height', 'outer_radius', 'outer_width', 'outer_height',
                         'inner_radius', 'inner_width', 'inner_height') if k in spec]
    # shrinking: inner sizes first, so that inner < outer holds at every step
    for k in sorted(sizes, key=lambda n: 0 if n.startswith('inner') else 1):
        setattr(reg, k, spec[k])
    use_it()        # derived state may be rebuilt here, between the two groups of changes
    if inplace:
        # the coordinate objects the region already holds are modified in place (no attribute assignment happens)
        if 'center' in spec:
            reg.center.x, reg.center.y = spec['center'][0], spec['center'][1]
        if 'vertices' in spec:
            if not reg.vertices.x.flags.writeable:
                reg.vertices.x, reg.vertices.y = np.array(reg.vertices.x), np.array(reg.vertices.y)
            reg.vertices.x[:] = np.array(spec['vertices'][0], float)
            reg.vertices.y[:] = np.array(spec['vertices'][1], float)
        if 'start' in spec:
            reg.start.x, reg.start.y = spec['start']
            reg.end.x, reg.end.y = spec['end']
        if spec.get('angle') is not None:
            new = _angle_obj(spec['angle'])
            if new.unit == reg.angle.unit and type(new) is type(reg.angle):
                reg.angle[...] = new
            else:
                reg.angle = new
        meta, vis = _meta(spec)
        reg.meta.clear()
        reg.meta.update(meta)
        reg.visual.clear()
        reg.visual.update(vis)
        return reg
    if 'center' in spec:
        reg.center = PixCoord(spec['center'][0], spec['center'][1])
    if spec.get('angle') is not None:
        reg.angle = _angle_obj(spec['angle'])
    if 'vertices' in spec:
        reg.vertices = PixCoord(np.array(spec['vertices'][0], float), np.array(spec['vertices'][1], float))
    if 'start' in spec:
        reg.start = PixCoord(*spec['start'])
        reg.end = PixCoord(*spec['end'])
    meta, vis = _meta(spec)
    reg.meta = meta
    reg.visual = vis
    return reg


def route_of(spec):
    """Deterministic choice of the construction route for a spec: by hash, 1 in 5 specs is reached by re-assigning
    every parameter and 1 in 5 by modifying the held coordinate/angle/metadata objects in place."""
    import json
    import zlib
    if spec.get('route'):
        return spec['route']        # the driver fixes the route (e.g. very large shapes, whose 'used before' state would cost seconds)
    if spec.get('size_dtype') or spec.get('vertex_dtype'):
        return 'fresh'          # typed sizes are a property of the construction call itself
    h = zlib.crc32(json.dumps(spec, sort_keys=True, default=repr).encode())
    return {0: 'reassign', 1: 'inplace'}.get(h % 5, 'fresh')


def build_routed(spec):
    r = route_of(spec)
    if r == 'reassign':
        return build_via_reassign(spec)
    if r == 'inplace':
        return build_via_reassign(spec, inplace=True)
    return build(spec)
