"""Independent area oracle for property C03 (exact masks are true overlap areas).

Nothing here calls regions' geometry.  Three reference computations:

1.  ``polygon_unit_disk(X, Y)`` -- signed area of (polygon ∩ unit disk), by the
    edge-wise Green's-theorem decomposition (vectorised over many polygons).

    Let w = 1/2 min(r^2, 1) dθ.  Inside the disk w = 1/2 (x dy - y dx) and
    dw = dx∧dy; outside w = 1/2 dθ which is closed.  w is continuous across
    the circle, so by Stokes  ∮_{∂P} w = area(P ∩ D)  for every polygon P
    (counter-clockwise; clockwise gives the negative).  Per directed edge
    p -> q (d = q - p) the line |p + t d|^2 = 1 is solved with the
    cancellation-free roots of  a t^2 + 2 b t + c = 0,  a = d.d, b = p.d,
    c = p.p - 1,  discriminant/4 = a - cross(p, d)^2  (Lagrange identity, no
    b^2 - ac cancellation), t1 = -(b + sgn(b) s)/a, t2 = c/(a t1).  The
    segment splits into  [0, ta] outside | [ta, tb] inside | [tb, 1] outside
    with ta = clip(t1, 0, 1), tb = clip(t2, 0, 1)  (no real roots, or an empty
    clipped interval: the whole segment is outside).  Inside (chord) pieces
    contribute 1/2 cross(A, B); outside pieces contribute 1/2 of the signed
    angle from start to end, atan2(cross, dot) -- the boundary of the
    intersection follows the circle arc there.  At tangency ta == tb up to
    rounding and the chord piece vanishes continuously (its area is cubic in
    its length), so no case analysis on "on the circle" is needed.  This is
    neither the vertex-count case analysis of regions/_geometry/core.pyx nor
    the quadrant decomposition of circular_overlap.pyx.

    The same sum over the *outside* pieces alone is the total angle of the
    circle arcs lying inside the polygon (returned as ``arc``), from which
    the driver bounds the boundary length inside a pixel.

2.  ``ellipse_pixels(...)`` -- ellipse ∩ unit pixel: the affine map
    rotate(-theta) then scale (1/rx, 1/ry) takes the ellipse to the unit
    disk and the pixel to a parallelogram; area = polygon_unit_disk * rx * ry.
    Also classifies pixels geometrically (all corners inside / nearest point
    of the pixel outside) with a margin.

3.  Exact rational polygon ∩ axis-parallel box areas:
    ``clip_box`` (Sutherland-Hodgman against the four half planes; valid with
    the shoelace formula for convex and for simple concave polygons since the
    window is convex) and ``EvenOdd`` (vertical slab decomposition: between
    consecutive breakpoints -- vertex abscissae, edge/edge crossings, edge
    crossings with y = ylo / yhi, box sides -- no two edges cross, so the
    even-odd interior is the union of the strips between the 1st/2nd, 3rd/4th
    ... edge in y order, each a trapezoid after clamping to [ylo, yhi]).
    With ``fractions.Fraction`` vertices both are exact; ``EvenOdd`` is also
    correct for self-intersecting polygons (bowtie), repeated and collinear
    vertices.

``selftest()`` validates all of them against closed forms.
"""
import math
from fractions import Fraction

import numpy as np


# ------------------------------------------------- polygon ∩ unit disk (Green) --
def polygon_unit_disk(X, Y, dtype=np.float64):
    """Signed area of (polygon ∩ unit disk) for N polygons with k vertices each.

    X, Y: arrays of shape (N, k) (vertex order = boundary order; counter-clockwise
    polygons give positive areas).  Returns (area, arc): ``arc`` is the signed total
    angle of the unit-circle arcs that lie inside the polygon.
    """
    X = np.asarray(X, dtype=dtype)
    Y = np.asarray(Y, dtype=dtype)
    if X.ndim == 1:
        X = X[None, :]
        Y = Y[None, :]
    N, k = X.shape
    area = np.zeros(N, dtype=dtype)
    arc = np.zeros(N, dtype=dtype)
    one = dtype(1.0)
    zero = dtype(0.0)
    with np.errstate(divide='ignore', invalid='ignore', over='ignore'):
        for i in range(k):
            j = (i + 1) % k
            px, py, qx, qy = X[:, i], Y[:, i], X[:, j], Y[:, j]
            dx, dy = qx - px, qy - py
            a = dx * dx + dy * dy
            b = px * dx + py * dy
            c = px * px + py * py - one
            cr = px * dy - py * dx
            disc = a - cr * cr
            real = (disc > 0) & (a > 0)
            s = np.sqrt(np.where(real, disc, zero))
            # q = -(b + sgn(b) s); roots q/a and c/q  (|q| >= s > 0 where real)
            q = np.where(b >= 0, -(b + s), -(b - s))
            qs = np.where(real, q, one)
            a_s = np.where(real, a, one)
            r1 = qs / a_s
            r2 = c / qs
            t1 = np.minimum(r1, r2)
            t2 = np.maximum(r1, r2)
            ta = np.clip(t1, zero, one)
            tb = np.clip(t2, zero, one)
            has = real & (tb > ta)
            ta = np.where(has, ta, one)       # no inside piece: [0, 1] is one outside piece
            tb = np.where(has, tb, one)
            ax, ay = px + ta * dx, py + ta * dy
            bx, by = px + tb * dx, py + tb * dy
            ax = np.where(ta >= one, qx, ax)
            ay = np.where(ta >= one, qy, ay)
            bx = np.where(tb >= one, qx, bx)
            by = np.where(tb >= one, qy, by)
            # outside piece p -> A, chord A -> B, outside piece B -> q
            ang1 = np.arctan2(px * ay - py * ax, px * ax + py * ay)
            ang2 = np.arctan2(bx * qy - by * qx, bx * qx + by * qy)
            chord = ax * by - ay * bx
            arc += ang1 + ang2
            area += chord
    area = (area + arc) / 2
    return area, arc


def _seg_dist_origin(px, py, qx, qy):
    """Distance from the origin to the segments p-q (vectorised)."""
    dx, dy = qx - px, qy - py
    L2 = dx * dx + dy * dy
    with np.errstate(divide='ignore', invalid='ignore'):
        t = np.where(L2 > 0, -(px * dx + py * dy) / np.where(L2 > 0, L2, 1), 0)
    t = np.clip(t, 0, 1)
    fx, fy = px + t * dx, py + t * dy
    return np.sqrt(fx * fx + fy * fy)


class PixelOverlap:
    """Result of ``ellipse_pixels``: arrays of shape (ny, nx)."""
    __slots__ = ('ref', 'cls', 'robust', 'arc', 'x0', 'y0')


def ellipse_pixels(cx, cy, rx, ry, theta, ix0, iy0, nx, ny, margin=1e-6, full=True, dtype=np.float64):
    """Reference overlap of the ellipse (centre (cx, cy), semi-axes rx, ry, rotation theta,
    counter-clockwise) with the unit pixels ix0 <= ix < ix0+nx, iy0 <= iy < iy0+ny (pixel ix
    covers [ix - 1/2, ix + 1/2]).

    ref     area of (ellipse ∩ pixel), Green's theorem in the unit-disk frame
    cls     +1 all four corners inside the ellipse (pixel covered: the ellipse is convex)
            -1 the point of the pixel nearest to the centre is outside (pixel uncovered)
             0 cut by the boundary
    robust  the classification holds with a distance > margin (pixel units) to the boundary
    arc     total angle (unit-disk frame) of the boundary arcs inside the pixel

    full=False skips Green's theorem for robustly classified pixels (ref = 1 / 0 there).
    """
    ex = (np.arange(nx + 1, dtype=dtype) + dtype(float(ix0) - 0.5)) - dtype(float(cx))
    ey = (np.arange(ny + 1, dtype=dtype) + dtype(float(iy0) - 0.5)) - dtype(float(cy))
    c, s = dtype(math.cos(theta)), dtype(math.sin(theta))
    GX, GY = np.meshgrid(ex, ey)                       # (ny+1, nx+1) corner lattice
    U = (c * GX + s * GY) / dtype(rx)                  # rotate by -theta, scale
    V = (-s * GX + c * GY) / dtype(ry)
    # corners counter-clockwise: (lo,lo) (hi,lo) (hi,hi) (lo,hi); the map has positive determinant
    cu = [U[:-1, :-1], U[:-1, 1:], U[1:, 1:], U[1:, :-1]]
    cv = [V[:-1, :-1], V[:-1, 1:], V[1:, 1:], V[1:, :-1]]
    out = _overlap_from_corners(cu, cv, rx, ry, margin, full, dtype)
    out.x0, out.y0 = ix0, iy0
    return out


def ellipse_pixel_list(cx, cy, rx, ry, theta, ix, iy, margin=1e-6, full=True, dtype=np.float64):
    """Same as ``ellipse_pixels`` for an arbitrary list of pixels (integer arrays ix, iy of equal shape)."""
    ix = np.asarray(ix)
    iy = np.asarray(iy)
    xl = (ix.astype(dtype) - dtype(0.5)) - dtype(float(cx))
    yl = (iy.astype(dtype) - dtype(0.5)) - dtype(float(cy))
    xh = (ix.astype(dtype) + dtype(0.5)) - dtype(float(cx))
    yh = (iy.astype(dtype) + dtype(0.5)) - dtype(float(cy))
    c, s = dtype(math.cos(theta)), dtype(math.sin(theta))
    cu, cv = [], []
    for gx, gy in ((xl, yl), (xh, yl), (xh, yh), (xl, yh)):
        cu.append((c * gx + s * gy) / dtype(rx))
        cv.append((-s * gx + c * gy) / dtype(ry))
    out = _overlap_from_corners(cu, cv, rx, ry, margin, full, dtype)
    out.x0 = out.y0 = None
    return out


def _overlap_from_corners(cu, cv, rx, ry, margin, full, dtype):
    R = [np.sqrt(cu[k] * cu[k] + cv[k] * cv[k]) for k in range(4)]
    dmax = np.maximum(np.maximum(R[0], R[1]), np.maximum(R[2], R[3]))
    dmin = np.full(dmax.shape, np.inf, dtype=dtype)
    inside_origin = np.ones(dmax.shape, bool)
    for k in range(4):
        m = (k + 1) % 4
        dmin = np.minimum(dmin, _seg_dist_origin(cu[k], cv[k], cu[m], cv[m]))
        inside_origin &= (cu[k] * cv[m] - cv[k] * cu[m]) > 0
    dmin = np.asarray(np.where(inside_origin, 0, dmin), dtype=float)
    dmax = np.asarray(dmax, dtype=float)
    # a unit-frame radial gap g is a pixel-frame distance of at least g * min(rx, ry)
    g = margin / min(rx, ry)
    cls = np.zeros(dmax.shape, np.int8)
    cls[dmax < 1.0] = 1
    cls[dmin > 1.0] = -1
    robust = ((cls == 1) & (dmax < 1.0 - g)) | ((cls == -1) & (dmin > 1.0 + g))
    out = PixelOverlap()
    out.cls, out.robust = cls, robust
    ref = np.where(cls == 1, 1.0, 0.0)
    arc = np.zeros(dmax.shape)
    sel = np.ones(dmax.shape, bool) if full else ~robust
    if sel.any():
        X = np.stack([cu[k][sel] for k in range(4)], axis=1)
        Y = np.stack([cv[k][sel] for k in range(4)], axis=1)
        a, t = polygon_unit_disk(X, Y, dtype=dtype)
        ref[sel] = np.asarray(a * dtype(rx) * dtype(ry), dtype=float)
        arc[sel] = np.asarray(t, dtype=float)
    out.ref, out.arc = ref, arc
    return out


def ellipse_perimeter_bound(rx, ry):
    """An upper bound of the ellipse perimeter (2 pi sqrt((rx^2+ry^2)/2) >= perimeter)."""
    return 2.0 * math.pi * math.sqrt(0.5 * (rx * rx + ry * ry))


def ellipse_extent(rx, ry, theta):
    """Half extents (ex, ey) of the rotated ellipse."""
    c, s = math.cos(theta), math.sin(theta)
    return math.hypot(rx * c, ry * s), math.hypot(rx * s, ry * c)


# ------------------------------------------------------- rational polygon clipping --
def _frac(v):
    return v if isinstance(v, Fraction) else Fraction(v)


def shoelace(poly):
    """Signed area of a vertex list [(x, y), ...]."""
    n = len(poly)
    if n < 3:
        return 0 * (poly[0][0] if poly else 0)
    s = 0
    for i in range(n):
        x1, y1 = poly[i]
        x2, y2 = poly[(i + 1) % n]
        s += x1 * y2 - x2 * y1
    return s / 2


def clip_box(poly, x0, x1, y0, y1):
    """Sutherland-Hodgman clipping of the vertex list against [x0,x1] x [y0,y1] (works in the
    arithmetic of its inputs: Fractions give the exact result)."""
    def clip(pts, axis, bound, keep_ge):
        out = []
        n = len(pts)
        for i in range(n):
            p, q = pts[i], pts[(i + 1) % n]
            pin = (p[axis] >= bound) if keep_ge else (p[axis] <= bound)
            qin = (q[axis] >= bound) if keep_ge else (q[axis] <= bound)
            if pin:
                out.append(p)
            if pin != qin:
                t = (bound - p[axis]) / (q[axis] - p[axis])
                o = 1 - axis
                pt = [None, None]
                pt[axis] = bound
                pt[o] = p[o] + t * (q[o] - p[o])
                out.append(tuple(pt))
        return out
    pts = list(poly)
    for axis, bound, ge in ((0, x0, True), (0, x1, False), (1, y0, True), (1, y1, False)):
        if not pts:
            break
        pts = clip(pts, axis, bound, ge)
    return pts


def simple_area_in_box(poly, x0, x1, y0, y1):
    """|area| of (simple polygon ∩ box) via Sutherland-Hodgman + shoelace."""
    pts = clip_box(poly, x0, x1, y0, y1)
    return abs(shoelace(pts)) if len(pts) >= 3 else 0 * x0


class EvenOdd:
    """Exact even-odd area of (polygon ∩ axis-parallel box) by vertical slabs (Fractions)."""

    def __init__(self, verts):
        V = [(_frac(x), _frac(y)) for x, y in verts]
        self.verts = V
        E = []
        n = len(V)
        for i in range(n):
            (xa, ya), (xb, yb) = V[i], V[(i + 1) % n]
            if xa == xb:
                continue                      # vertical or degenerate: spans no slab
            if xa > xb:
                xa, ya, xb, yb = xb, yb, xa, ya
            E.append((xa, ya, xb, yb, (yb - ya) / (xb - xa)))
        self.edges = E
        bp = {x for x, _ in V}
        for i in range(len(E)):
            xa, ya, xb, yb, m = E[i]
            for j in range(i + 1, len(E)):
                xc, yc, xd, yd, m2 = E[j]
                if m == m2:
                    continue
                # ya + m (x - xa) = yc + m2 (x - xc)
                x = (yc - ya + m * xa - m2 * xc) / (m - m2)
                if max(xa, xc) < x < min(xb, xd):
                    bp.add(x)
        self.breaks = sorted(bp)

    def area(self, x0, x1, y0, y1):
        x0, x1, y0, y1 = _frac(x0), _frac(x1), _frac(y0), _frac(y1)
        E = [e for e in self.edges if e[2] > x0 and e[0] < x1]
        bp = {x0, x1}
        bp.update(x for x in self.breaks if x0 < x < x1)
        for (xa, ya, xb, yb, m) in E:
            if m != 0:
                for yy in (y0, y1):
                    x = xa + (yy - ya) / m
                    if xa < x < xb and x0 < x < x1:
                        bp.add(x)
        xs = sorted(bp)
        total = Fraction(0)

        def clamp(v):
            return y0 if v < y0 else (y1 if v > y1 else v)
        for xl, xr in zip(xs[:-1], xs[1:]):
            xm = (xl + xr) / 2
            act = []
            for (xa, ya, xb, yb, m) in E:
                if xa < xm < xb:
                    act.append((ya + m * (xm - xa), ya + m * (xl - xa), ya + m * (xr - xa)))
            if len(act) % 2:
                raise ArithmeticError('odd number of edges over a slab (polygon not closed?)')
            act.sort(key=lambda t: t[0])
            for k in range(0, len(act), 2):
                lo, hi = act[k], act[k + 1]
                hl = clamp(hi[1]) - clamp(lo[1])
                hr = clamp(hi[2]) - clamp(lo[2])
                total += (xr - xl) * (hl + hr) / 2
        return total


def boundary_in_box(verts, x0, x1, y0, y1):
    """(total length, number of pieces) of the polygon's edges inside the closed box
    (Liang-Barsky per edge; floats)."""
    n = len(verts)
    L, k = 0.0, 0
    for i in range(n):
        (xa, ya), (xb, yb) = verts[i], verts[(i + 1) % n]
        xa, ya, xb, yb = float(xa), float(ya), float(xb), float(yb)
        dx, dy = xb - xa, yb - ya
        t0, t1 = 0.0, 1.0
        ok = True
        for p, q in ((-dx, xa - x0), (dx, x1 - xa), (-dy, ya - y0), (dy, y1 - ya)):
            if p == 0:
                if q < 0:
                    ok = False
                    break
            else:
                r = q / p
                if p < 0:
                    t0 = max(t0, r)
                else:
                    t1 = min(t1, r)
        if ok and t1 > t0:
            L += (t1 - t0) * math.hypot(dx, dy)
            k += 1
    return L, k


def rectangle_vertices(cx, cy, w, h, theta):
    """Corners (counter-clockwise) of the rectangle of full width w, height h rotated by theta."""
    c, s = math.cos(theta), math.sin(theta)
    out = []
    for sx, sy in ((-1, -1), (1, -1), (1, 1), (-1, 1)):
        u, v = sx * 0.5 * w, sy * 0.5 * h
        out.append((cx + c * u - s * v, cy + s * u + c * v))
    return out


# ----------------------------------------------------------------------- self-test --
def _circ_seg(r, h):
    """Area of the part of the disk of radius r beyond the line at distance h >= 0 from the centre."""
    if h >= r:
        return 0.0
    return r * r * math.acos(h / r) - h * math.sqrt(r * r - h * h)


def _corner_area(r, a, b):
    """Area of {x >= a, y >= b} ∩ disk(r), for a, b >= 0 (closed form)."""
    if a * a + b * b >= r * r:
        return 0.0
    # ∫_a^{sqrt(r^2-b^2)} (sqrt(r^2-x^2) - b) dx
    def prim(x):
        return 0.5 * (x * math.sqrt(max(r * r - x * x, 0.0)) + r * r * math.asin(max(-1.0, min(1.0, x / r))))
    xe = math.sqrt(r * r - b * b)
    return prim(xe) - prim(a) - b * (xe - a)


def selftest(verbose=False):
    """Closed-form validation; returns a dict of maximal absolute errors (raises on failure)."""
    rep = {}

    def need(name, err, tol):
        rep[name] = max(rep.get(name, 0.0), float(err))
        if not err <= tol:
            raise AssertionError(f'polyarea selftest {name}: error {err!r} > {tol!r}')

    sq = lambda x0, y0, x1, y1: ([x0, x1, x1, x0], [y0, y0, y1, y1])     # noqa: E731
    # 1 square inside the disk / disk inside the square / disjoint / clockwise orientation
    a, arc = polygon_unit_disk(*sq(-0.3, -0.2, 0.4, 0.5))
    need('square_inside_disk', abs(a[0] - 0.49), 1e-15)
    need('square_inside_disk_arc', abs(arc[0]), 1e-15)
    a, arc = polygon_unit_disk(*sq(-3.0, -2.0, 1.5, 4.0))
    need('disk_inside_square', abs(a[0] - math.pi), 4e-15)
    need('disk_inside_square_arc', abs(arc[0] - 2 * math.pi), 8e-15)
    a, arc = polygon_unit_disk(*sq(1.5, -2.0, 3.0, 4.0))
    need('disjoint', abs(a[0]), 1e-15)
    X, Y = sq(-3.0, -2.0, 1.5, 4.0)
    a, _ = polygon_unit_disk(X[::-1], Y[::-1])
    need('clockwise_negative', abs(a[0] + math.pi), 4e-15)
    # 2 half-plane cuts x <= h (big rectangle to the left of x = h)
    for h in (-0.999, -0.5, 0.0, 0.25, 0.73, 0.999999, 1.0, 1.2):
        a, _ = polygon_unit_disk(*sq(-5.0, -7.0, h, 6.0))
        want = math.pi - _circ_seg(1.0, h) if h >= 0 else _circ_seg(1.0, -h)
        need('half_plane', abs(a[0] - want), 1e-14)
        # rotated copy of the same polygon (all angles)
        for th in (0.3, 1.0, 2.5, -0.7, math.pi / 4):
            c, s = math.cos(th), math.sin(th)
            X, Y = sq(-5.0, -7.0, h, 6.0)
            XR = [c * x - s * y for x, y in zip(X, Y)]
            YR = [s * x + c * y for x, y in zip(X, Y)]
            a, _ = polygon_unit_disk(XR, YR)
            need('half_plane_rotated', abs(a[0] - want), 2e-14)
    # 3 corner cuts (one pixel corner region {x>=a, y>=b} inside the disk), incl. tangent/vertex-on-circle
    for (ca, cb) in ((0.0, 0.0), (0.3, 0.4), (0.6, 0.8), (0.1, 0.9), (0.7, 0.2), (0.0, 0.999), (0.6, 0.79999)):
        a, _ = polygon_unit_disk(*sq(ca, cb, ca + 4.0, cb + 3.0))
        need('corner_cut', abs(a[0] - _corner_area(1.0, ca, cb)), 1e-14)
    # 4 strip |y| <= h through the centre
    for h in (0.1, 0.5, 0.9):
        a, _ = polygon_unit_disk(*sq(-4.0, -h, 4.0, h))
        need('strip', abs(a[0] - (math.pi - 2 * _circ_seg(1.0, h))), 1e-14)
    # 5 tangent edges and vertices exactly on the circle (no blow-up, continuous values)
    a, _ = polygon_unit_disk(*sq(1.0, -1.0, 2.0, 1.0))          # touches at (1, 0)
    need('tangent_outside', abs(a[0]), 1e-15)
    a, _ = polygon_unit_disk(*sq(-1.0, -1.0, 1.0, 1.0))         # circumscribed square
    need('circumscribed', abs(a[0] - math.pi), 4e-15)
    r2 = math.sqrt(0.5)
    a, _ = polygon_unit_disk(*sq(-r2, -r2, r2, r2))             # inscribed square
    need('inscribed', abs(a[0] - 2.0), 4e-15)
    a, _ = polygon_unit_disk([0.0, 1.0, 0.0], [0.0, 0.0, 1.0])  # triangle with two vertices on the circle
    need('vertices_on_circle', abs(a[0] - 0.5), 1e-15)
    # 6 circles against the pixel grid: closed forms by quadrant corner areas (independent formula)
    worst = 0.0
    for r in (2.0 ** -10, 0.25, 0.5, 0.73, 1.0, 2.5, 10.5, 64.0, 1000.0):
        for (px, py) in ((0.137, 0.291), (0.4831, -0.2719), (0.0, 0.0), (0.5, 0.25)):
            n = int(min(r, 12.0)) + 3
            if r > 12:
                i0, j0 = int(r * math.cos(0.7)) - n // 2, int(r * math.sin(0.7)) - n // 2
            else:
                i0 = j0 = -n
            W = (2 * n + 1) if r <= 12 else n
            po = ellipse_pixels(px, py, r, r, 0.0, i0, j0, W, W)
            for jj in range(W):
                for ii in range(W):
                    xl, yl = i0 + ii - 0.5 - px, j0 + jj - 0.5 - py
                    want = _rect_disk(r, xl, yl, xl + 1.0, yl + 1.0)
                    worst = max(worst, abs(po.ref[jj, ii] - want))
                    if po.robust[jj, ii]:
                        need('robust_class_consistent', abs(po.ref[jj, ii] - (1.0 if po.cls[jj, ii] == 1 else 0.0)), 1e-9)
            if r <= 12:
                need('circle_grid_sum', abs(po.ref.sum() - math.pi * r * r), 1e-10 * max(1.0, math.pi * r * r))
    need('circle_pixel_closed_form', worst, 2e-9)
    # 7 tiny circle / ellipse inside one pixel: pi r^2, pi rx ry at every angle
    for th in (0.0, 0.3, math.pi / 6, 1.0, 2.5):
        po = ellipse_pixels(0.137, 0.291, 0.125, 2.0 ** -6, th, 0, 0, 1, 1)
        need('tiny_ellipse', abs(po.ref[0, 0] - math.pi * 0.125 * 2.0 ** -6), 1e-15)
        # ellipse area conservation over a grid at every angle
        po = ellipse_pixels(0.4831, -0.2719, 3.65, 0.73, th, -6, -6, 13, 13)
        need('ellipse_grid_sum', abs(po.ref.sum() - math.pi * 3.65 * 0.73), 1e-13)
        # axis-aligned ellipse = stretched circle: compare with the circle closed form on a stretched grid
    # ellipse vs closed form: rx x ry ellipse at theta=0 over the half plane x >= h: rx*ry*seg(1, h/rx)
    for (rx, ry, h) in ((2.5, 0.73, 1.0), (0.5, 1.5, 0.2), (10.5, 0.25, -3.0)):
        po = ellipse_pixels(0.0, 0.0, rx, ry, 0.0, -12, -3, 25, 7)
        # pixel columns with left edge >= h: ix - 0.5 >= h
        ixs = np.arange(-12, 13)
        col = po.ref.sum(axis=0)
        k0 = int(math.ceil(h + 0.5))
        got = col[ixs >= k0].sum()
        hh = (k0 - 0.5) / rx
        want = rx * ry * (_circ_seg(1.0, hh) if hh >= 0 else math.pi - _circ_seg(1.0, -hh))
        need('ellipse_half_plane', abs(got - want), 1e-13)
    # rotation by pi/2 of an ellipse equals the swapped ellipse
    p1 = ellipse_pixels(0.137, 0.291, 2.5, 0.73, math.pi / 2, -4, -4, 9, 9)
    p2 = ellipse_pixels(0.137, 0.291, 0.73, 2.5, 0.0, -4, -4, 9, 9)
    need('ellipse_rot90_swap', np.abs(p1.ref - p2.ref).max(), 1e-14)
    gx, gy = np.meshgrid(np.arange(-4, 5), np.arange(-4, 5))
    p3 = ellipse_pixel_list(0.137, 0.291, 2.5, 0.73, math.pi / 2, gx, gy)
    need('pixel_list_equals_grid', np.abs(p3.ref - p1.ref).max() + float((p3.cls != p1.cls).any()), 0.0)
    # 8 float64 vs extended precision on the hardest scale (r = 1000)
    if np.finfo(np.longdouble).eps < 1e-18:
        w = 0.0
        for k in range(16):
            t = 2 * math.pi * (k + 0.137) / 16
            i0, j0 = int(math.floor(1000 * math.cos(t))) - 3, int(math.floor(1000 * math.sin(t))) - 3
            pa = ellipse_pixels(0.137, 0.291, 1000.0, 1000.0, 0.0, i0, j0, 6, 6)
            pb = ellipse_pixels(0.137, 0.291, 1000.0, 1000.0, 0.0, i0, j0, 6, 6, dtype=np.longdouble)
            w = max(w, float(np.abs(pa.ref - pb.ref).max()))
        need('float64_vs_longdouble_r1000', w, 1e-9)
    # 9 rational clipping: closed forms
    F = Fraction
    tri = [(F(0), F(0)), (F(4), F(0)), (F(1), F(3))]
    need('tri_total', abs(float(EvenOdd(tri).area(-1, 5, -1, 4) - 6)), 0.0)
    need('tri_sh_total', abs(float(simple_area_in_box(tri, F(-1), F(5), F(-1), F(4)) - 6)), 0.0)
    ell = [(F(x), F(y)) for x, y in zip([0, 4, 4, 1, 1, 0], [0, 0, 1, 1, 3, 3])]
    bow = [(F(x), F(y)) for x, y in zip([0, 2, 2, 0], [0, 2, 0, 2])]
    need('ell_total', abs(float(EvenOdd(ell).area(-1, 5, -1, 4) - 6)), 0.0)
    need('bowtie_total', abs(float(EvenOdd(bow).area(-1, 3, -1, 3) - 2)), 0.0)        # two triangles of area 1
    need('bowtie_pixel', abs(float(EvenOdd(bow).area(F(1, 2), F(3, 2), F(1, 2), F(3, 2)) - F(1, 2))), 0.0)
    for name, P, box in (('tri', tri, (-1, 5, -1, 4)), ('ell', ell, (-1, 5, -1, 4))):
        eo = EvenOdd(P)
        tot = F(0)
        off = (F(137, 1000), F(291, 1000))
        for i in range(box[0], box[1]):
            for j in range(box[2], box[3]):
                b = (i + off[0], i + 1 + off[0], j + off[1], j + 1 + off[1])
                a1 = eo.area(*b)
                a2 = simple_area_in_box(P, *b)
                need(f'{name}_slab_vs_sutherland_hodgman', abs(float(a1 - a2)), 0.0)
                tot += a1
        need(f'{name}_pixel_sum', abs(float(tot - 6)), 0.0)
    rect = [(_frac(x), _frac(y)) for x, y in rectangle_vertices(0.137, 0.291, 5.0, 1.46, 1.0)]
    eo = EvenOdd(rect)
    tot = sum(eo.area(i - F(1, 2), i + F(1, 2), j - F(1, 2), j + F(1, 2)) for i in range(-4, 5) for j in range(-4, 5))
    need('rectangle_pixel_sum', abs(float(tot) - 5.0 * 1.46), 1e-14)
    L, k = boundary_in_box(tri, -1, 5, -1, 4)
    need('boundary_length', abs(L - (4 + math.hypot(3, 3) + math.hypot(1, 3))), 1e-14)
    L, k = boundary_in_box([(0, 0), (4, 0), (1, 3)], 0.5, 1.5, -0.5, 0.5)
    need('boundary_length_clipped', abs(L - 1.0), 1e-15)
    if verbose:
        for kk, v in sorted(rep.items()):
            print(f'{kk:36s} {v:.3e}')
    return rep


def _rect_disk(r, x0, y0, x1, y1):
    """Closed-form area of [x0,x1]x[y0,y1] ∩ disk(r) by inclusion-exclusion of quarter-plane areas
    Q(a, b) = area{x >= a, y >= b} ∩ disk (independent of the Green decomposition; self-test only)."""
    def Q(a, b):
        if a >= 0 and b >= 0:
            return _corner_area(r, a, b)
        if a < 0 and b >= 0:        # {x>=a} = {x >= -a} + strip |x| < -a ... use reflection
            return _half(r, b) - _corner_area(r, -a, b)
        if a >= 0 and b < 0:
            return _half(r, a) - _corner_area(r, a, -b)
        return math.pi * r * r - _half(r, -a) - _half(r, -b) + _corner_area(r, -a, -b)

    def _half(rr, h):               # area of disk ∩ {coordinate >= h}, h >= 0
        return _circ_seg(rr, h)
    return Q(x0, y0) - Q(x1, y0) - Q(x0, y1) + Q(x1, y1)
