"""E2 -- bounded-exhaustive lattice enumeration.

A lattice is an ordered dict of named axes (each a list ordered
simplest-first) plus an optional constraint predicate.  ``points`` yields the
full Cartesian product in lexicographic order (first axis slowest), so the
first counterexample found is also the simplest one.  ``chunks`` splits a list
of JSON-able cases into deterministic shards.
"""
import itertools


class Lattice:
    def __init__(self, axes, constraint=None):
        self.names = list(axes.keys())
        self.values = [list(v) for v in axes.values()]
        self.constraint = constraint

    def size_unconstrained(self):
        n = 1
        for v in self.values:
            n *= len(v)
        return n

    def points(self):
        for combo in itertools.product(*self.values):
            p = dict(zip(self.names, combo))
            if self.constraint is None or self.constraint(p):
                yield p


def chunks(cases, nshards, tag=None):
    """Deterministic round-robin split (keeps the simplest cases spread over
    all shards so every worker starts with cheap ones)."""
    cases = list(cases)
    nshards = max(1, min(nshards, len(cases)))
    out = []
    for k in range(nshards):
        part = cases[k::nshards]
        if part:
            out.append({'tag': tag, 'cases': part} if tag else {'cases': part})
    return out
