"""A shared pool of real objects: one region of every class (pixel and sky,
included and excluded, with metadata), a WCS, images, a Regions list.
Everything is built fresh on every call (histories are replayed on fresh
objects; nothing is shared between executions)."""
import operator

import numpy as np


def wcs_simple(rot_deg=0.0, cdelt=1e-3, proj='TAN', ctype=('RA', 'DEC'), crval=(40.0, 20.0), crpix=(50.0, 60.0), flip=False,
               radesys=None, equinox=None, encoding='cdelt_pc', lat_first=False, aniso=1.0):
    """A celestial WCS: projection, rotation (PC matrix), scale, parity, axis types, reference value.  ``encoding``:
    how the same linear transformation is written into the header -- 'cdelt_pc' (CDELT = (-s, s), PC = rotation), 'cd' (a CD
    matrix, no CDELT), 'pc_flip' (CDELT = (s, s), the sign of the longitude axis inside the PC matrix).  ``lat_first``: the latitude is the
    first world axis (CTYPE1 = DEC / GLAT), the longitude the second."""
    import math
    from astropy.wcs import WCS
    w = WCS(naxis=2)
    w.wcs.ctype = [f'{ctype[0]}{"-" * (5 - len(ctype[0]))}{proj}' if len(ctype[0]) < 5 else f'{ctype[0]}-{proj}',
                   f'{ctype[1]}{"-" * (5 - len(ctype[1]))}{proj}' if len(ctype[1]) < 5 else f'{ctype[1]}-{proj}']
    w.wcs.crval = list(crval)
    w.wcs.crpix = list(crpix)
    sx = cdelt if flip else -cdelt
    if lat_first:
        w.wcs.ctype = list(w.wcs.ctype)[::-1]
        w.wcs.crval = [crval[1], crval[0]]
        w.wcs.cdelt = [cdelt, -sx]      # flip=False: east is 90 deg counter-clockwise from north in the image (standard parity)
        t = math.radians(rot_deg)
        w.wcs.pc = [[math.cos(t), -math.sin(t)], [math.sin(t), math.cos(t)]]
        encoding = 'done'
    t = math.radians(rot_deg)
    pc = [[math.cos(t), -math.sin(t)], [math.sin(t), math.cos(t)]]
    if encoding == 'cd':
        w.wcs.cd = [[sx * pc[0][0], sx * pc[0][1]], [cdelt * pc[1][0], cdelt * pc[1][1]]]
    elif encoding == 'pc_flip':
        sg = sx / cdelt
        w.wcs.cdelt = [cdelt, cdelt]
        w.wcs.pc = [[sg * pc[0][0], sg * pc[0][1]], pc[1]]
    elif encoding != 'done':
        w.wcs.cdelt = [sx, cdelt * aniso]       # aniso != 1: oblong pixels (different scales along the two pixel axes)
        w.wcs.pc = pc
    if radesys:
        w.wcs.radesys = radesys
        if radesys == 'FK4':
            w.wcs.equinox = 1950.0
        elif radesys == 'FK5':
            w.wcs.equinox = 2000.0
    if equinox is not None:
        w.wcs.equinox = float(equinox)
    w.wcs.set()
    return w


PIXEL_NAMES = ['circle', 'ellipse', 'rectangle', 'polygon', 'regpoly', 'circleannulus', 'ellipseannulus',
               'rectangleannulus', 'point', 'line', 'text', 'compound', 'circle_excl', 'ellipse_odd']
SKY_NAMES = ['sky_circle', 'sky_ellipse', 'sky_rectangle', 'sky_polygon', 'sky_circleannulus', 'sky_ellipseannulus',
             'sky_rectangleannulus', 'sky_point', 'sky_line', 'sky_text', 'sky_compound', 'sky_circle_gal', 'sky_ellipse_excl',
             'sky_circle_spectral']


def make(name):
    """Fresh real region by pool name."""
    import astropy.units as u
    from astropy.coordinates import SkyCoord
    import regions as R
    from regions import PixCoord, RegionMeta, RegionVisual
    m = lambda **k: RegionMeta(k)       # noqa
    v = lambda **k: RegionVisual(k)     # noqa
    c = lambda x, y: PixCoord(x, y)     # noqa
    s = lambda lon, lat, frame='icrs': SkyCoord(lon * u.deg, lat * u.deg, frame=frame)  # noqa
    if name == 'circle':
        return R.CirclePixelRegion(c(42.5, 55.25), 4.5, meta=m(text='a circle', tag=['t1', 't2']), visual=v(color='red', linewidth=2))
    if name == 'ellipse_odd':
        # values a user may well write: a single tag given as a plain string, an angle outside [0, 360) deg as a plain Quantity
        return R.EllipsePixelRegion(c(33.0, 61.0), 9.0, 4.0, angle=-30.0 * u.deg, meta=m(tag='background', text='odd'),
                                    visual=v(color='cyan'))
    if name == 'circle_excl':
        return R.CirclePixelRegion(c(40.0, 61.0), 3.0, meta=m(include=False), visual=v(color='blue'))
    if name == 'ellipse':
        return R.EllipsePixelRegion(c(48.0, 62.5), 9.0, 5.0, angle=30 * u.deg, meta=m(text='ell'), visual=v(color='green', fill=True))
    if name == 'rectangle':
        return R.RectanglePixelRegion(c(51.25, 58.0), 7.0, 3.5, angle=-0.375 * u.rad, meta=m(tag=['box']), visual=v(linestyle='dashed'))
    if name == 'polygon':
        return R.PolygonPixelRegion(PixCoord([45.0, 52.0, 50.5, 46.25], [50.0, 51.5, 57.0, 56.0]), meta=m(text='poly'), visual=v(color='cyan'))
    if name == 'regpoly':
        return R.RegularPolygonPixelRegion(c(47.0, 60.0), 5, 4.0, angle=12 * u.deg, meta=m(text='pent'))
    if name == 'circleannulus':
        return R.CircleAnnulusPixelRegion(c(50.0, 60.0), 2.5, 6.0, meta=m(text='ann'), visual=v(color='yellow'))
    if name == 'ellipseannulus':
        return R.EllipseAnnulusPixelRegion(c(49.0, 59.0), 3.0, 8.0, 2.0, 6.0, angle=2700 * u.arcmin, meta=m(text='eann'))
    if name == 'rectangleannulus':
        return R.RectangleAnnulusPixelRegion(c(52.0, 63.0), 2.0, 7.0, 1.5, 5.0, angle=10 * u.deg, meta=m(text='rann'))
    if name == 'point':
        return R.PointPixelRegion(c(44.0, 66.0), meta=m(text='pt'), visual=v(marker='x', markersize=7))
    if name == 'line':
        return R.LinePixelRegion(c(41.0, 52.0), c(56.5, 64.25), meta=m(text='ln'), visual=v(color='magenta'))
    if name == 'text':
        return R.TextPixelRegion(c(46.0, 48.0), 'some text', meta=m(tag=['lbl']), visual=v(color='white', fontsize=12, rotation=15.0))
    if name == 'compound':
        return R.CompoundPixelRegion(make('circle'), make('rectangle'), operator.or_, meta=m(text='cmp'), visual=v(color='red'))
    if name == 'sky_circle':
        return R.CircleSkyRegion(s(40.002, 20.001), 12 * u.arcsec, meta=m(text='sc', tag=['s1']), visual=v(color='red'))
    if name == 'sky_circle_gal':
        return R.CircleSkyRegion(s(166.0, -45.0, 'galactic'), 0.5 * u.arcmin, meta=m(text='gal'))
    if name == 'sky_ellipse':
        return R.EllipseSkyRegion(s(40.004, 19.998), 30 * u.arcsec, 18 * u.arcsec, angle=25 * u.deg, meta=m(text='se'), visual=v(color='green'))
    if name == 'sky_ellipse_excl':
        return R.EllipseSkyRegion(s(39.998, 20.003, 'fk5'), 20 * u.arcsec, 10 * u.arcsec, angle=70 * u.deg, meta=m(include=False))
    if name == 'sky_rectangle':
        return R.RectangleSkyRegion(s(39.997, 20.002), 25 * u.arcsec, 12 * u.arcsec, angle=-0.25 * u.rad, meta=m(text='sr'))
    if name == 'sky_polygon':
        return R.PolygonSkyRegion(SkyCoord([40.0, 40.006, 40.004, 39.999] * u.deg, [20.0, 20.001, 20.006, 20.005] * u.deg), meta=m(text='sp'))
    if name == 'sky_circleannulus':
        return R.CircleAnnulusSkyRegion(s(40.001, 20.0), 8 * u.arcsec, 20 * u.arcsec, meta=m(text='sa'))
    if name == 'sky_ellipseannulus':
        return R.EllipseAnnulusSkyRegion(s(40.0, 20.002), 10 * u.arcsec, 28 * u.arcsec, 6 * u.arcsec, 20 * u.arcsec, angle=40 * u.deg, meta=m(text='sea'))
    if name == 'sky_rectangleannulus':
        return R.RectangleAnnulusSkyRegion(s(40.003, 20.004), 8 * u.arcsec, 24 * u.arcsec, 5 * u.arcsec, 16 * u.arcsec, angle=5 * u.deg, meta=m(text='sra'))
    if name == 'sky_point':
        return R.PointSkyRegion(s(40.005, 19.996), meta=m(text='spt'), visual=v(marker='+'))
    if name == 'sky_line':
        return R.LineSkyRegion(s(39.996, 19.997), s(40.006, 20.005), meta=m(text='sl'))
    if name == 'sky_text':
        return R.TextSkyRegion(s(40.0, 20.007), 'sky text', meta=m(tag=['x']), visual=v(color='white', rotation=30.0))
    if name == 'sky_circle_spectral':
        # metadata with mutable values (a list of Quantities, a list of strings): the CRTF spectral keys
        return R.CircleSkyRegion(s(40.004, 20.001), 9 * u.arcsec,
                                 meta=m(label='spec', range=[1.2 * u.GHz, 1.5 * u.GHz], corr=['I', 'Q'], frame='BARY', veltype='RADIO',
                                        restfreq='1.42GHz'))
    if name == 'sky_compound':
        return R.CompoundSkyRegion(make('sky_circle'), make('sky_rectangle'), operator.and_, meta=m(text='scmp'), visual=v(color='blue'))
    raise KeyError(name)


def images():
    yy, xx = np.mgrid[0:120, 0:100]
    img_f = (100.0 * yy + xx + 0.5).astype(float)
    img_i = (100 * yy + xx + 1).astype(np.int64)
    return img_f, img_i
