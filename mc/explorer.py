"""E1 -- explicit-state breadth-first search over the real code.

A state is the event history that reaches it.  Live regions/SkyCoords do not
copy reliably (and copying is itself under test), so a state is re-built by
constructing fresh real objects and replaying its history.  States are
de-duplicated by a canonical fingerprint supplied by the caller; the search
runs until the reachable set is closed under all events (fixpoint: the
verdict then holds for histories of any length over this alphabet) or a
stated depth bound is hit.

With ``dedup=False`` every history up to ``max_depth`` is executed (no trust
in the abstraction); ``Explorer.cross_check`` compares, for histories that the
abstraction merges, that the *observed outcomes* of every next event agree --
this tests the merge argument instead of assuming it.
"""
import json
import collections


def _key(c):
    return c if isinstance(c, str) else json.dumps(c, sort_keys=True, default=repr)


class Explorer:
    def __init__(self, build, events, apply, canon, on_transition=None, on_state=None,
                 max_depth=None, max_states=200000, dedup=True):
        self.build = build                  # () -> fresh object in the initial state
        self.events = events                # (obj) -> list of JSON-able events enabled
        self.apply = apply                  # (obj, ev) -> outcome (JSON-able); may mutate obj
        self.canon = canon                  # (obj) -> JSON-able canonical form
        self.on_transition = on_transition  # (hist, ev, key_before, obj_after, outcome, key_after)
        self.on_state = on_state            # (hist, obj)
        self.max_depth = max_depth
        self.max_states = max_states
        self.dedup = dedup
        self.states = 0
        self.transitions = 0
        self.depth_reached = 0
        self.closed = False
        self.capped = None
        self.outcomes = collections.Counter()
        self.first_hist = {}                # state key -> shortest history
        self.succ = {}                      # (state key, event key) -> (outcome key, next state key)
        self.merge_conflicts = []
        self.pruned = 0

    def rebuild(self, hist):
        obj = self.build()
        for ev in hist:
            self.apply(obj, ev)
        return obj

    def run(self):
        root = self.build()
        k0 = _key(self.canon(root))
        self.first_hist[k0] = ()
        self.states = 1
        if self.on_state:
            self.on_state((), root)
        frontier = collections.deque([((), k0)])
        while frontier:
            hist, kb = frontier.popleft()
            if self.max_depth is not None and len(hist) >= self.max_depth:
                self.capped = f'depth {self.max_depth}'
                continue
            obj = self.rebuild(hist)
            evs = list(self.events(obj))
            for ev in evs:
                obj = self.rebuild(hist)
                outcome = self.apply(obj, ev)
                self.transitions += 1
                ka = _key(self.canon(obj))
                ok = _key(outcome)
                self.outcomes[ok] += 1
                sk = (kb, _key(ev))
                if sk in self.succ and self.succ[sk] != (ok, ka):
                    # two histories with the same canonical state behave differently
                    self.merge_conflicts.append({'state': kb, 'event': ev, 'first': self.succ[sk],
                                                 'second': (ok, ka), 'hist': list(hist)})
                self.succ.setdefault(sk, (ok, ka))
                keep = True
                if self.on_transition:
                    keep = self.on_transition(hist, ev, kb, obj, outcome, ka)
                if keep is False:
                    # the checker flagged this successor (violation / out of model): do not expand it
                    self.pruned += 1
                    continue
                new = ka not in self.first_hist
                if new:
                    self.first_hist[ka] = hist + (ev,)
                    self.states += 1
                    if self.on_state:
                        self.on_state(hist + (ev,), obj)
                if new or not self.dedup:
                    if self.states >= self.max_states:
                        self.capped = f'max_states {self.max_states}'
                        continue
                    self.depth_reached = max(self.depth_reached, len(hist) + 1)
                    frontier.append((hist + (ev,), ka))
        self.closed = self.capped is None
        return self

    def replay_one(self, hist, ev):
        """Re-execute exactly one transition (history + event) and run the checker on it."""
        hist = tuple(hist)
        obj = self.rebuild(hist)
        kb = _key(self.canon(obj))
        outcome = self.apply(obj, ev)
        ka = _key(self.canon(obj))
        if self.on_transition:
            self.on_transition(hist, ev, kb, obj, outcome, ka)
        return outcome

    def stats(self):
        return {'states': self.states, 'transitions': self.transitions, 'closed': self.closed,
                'capped': self.capped, 'depth_reached': self.depth_reached,
                'distinct_outcomes': len(self.outcomes), 'merge_conflicts': len(self.merge_conflicts),
                'pruned_successors': self.pruned}
