"""Environment bootstrap shared by the runner and by every worker.

Puts the repository under test first on sys.path so that the *working tree*
is what gets imported (edits to /repo are live; nothing is cached between
runs), pins the sources of nondeterminism the library is exposed to, and
provides the scratch directory.
"""
import os
import sys
import atexit
import shutil
import tempfile
import warnings

REPO = os.path.realpath(os.environ.get('VERIF_REPO', '/repo'))
VERIF = os.path.dirname(os.path.dirname(os.path.abspath(__file__)))
GUARD = 'ASTROPY_REGIONS_VERIF'

_scratch = None


def bootstrap():
    os.environ.setdefault('MPLBACKEND', 'Agg')
    os.environ[GUARD] = '1'
    # numpy/BLAS threads would oversubscribe the 16 worker processes
    for var in ('OMP_NUM_THREADS', 'OPENBLAS_NUM_THREADS', 'MKL_NUM_THREADS'):
        os.environ.setdefault(var, '1')
    if REPO not in sys.path[:1]:
        sys.path.insert(0, REPO)
    from mc import build
    build.ensure_kernels()
    import regions  # noqa
    f = os.path.realpath(regions.__file__)
    if not f.startswith(REPO + os.sep):
        raise SystemExit(f'FATAL: regions imported from {f}, not from {REPO}')
    # astropy must never try to reach the network
    try:
        from astropy.utils import iers
        iers.conf.auto_download = False
    except Exception:
        pass
    import matplotlib
    matplotlib.use('Agg')
    warnings.simplefilter('always')
    return regions


def scratch():
    """A fresh private scratch directory (on /dev/shm when possible)."""
    global _scratch
    if _scratch is None or not os.path.isdir(_scratch):
        base = os.environ.get('VERIF_SCRATCH')
        if not base:
            base = '/dev/shm' if os.path.isdir('/dev/shm') and os.access('/dev/shm', os.W_OK) else None
        _scratch = tempfile.mkdtemp(prefix='regverif.', dir=base)
        atexit.register(shutil.rmtree, _scratch, True)
    return _scratch
