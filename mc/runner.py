"""CLI: ./check <ID> [--tier quick|thorough] [--replay FILE] [--jobs N]

Exit codes: 0 property held on everything explored (KNOWN-FINDING lines may
be printed); 1 at least one violation not listed in known_findings.json
(``VIOLATION property=<id> replay=<path>`` lines printed); 2 harness problem
(nondeterministic replay, internal error) -- never reported as a violation.
"""
import os
import sys
import json
import time
import argparse
import importlib
import subprocess
import traceback
import multiprocessing as mp

from mc import env
from mc.result import Result, jhash

PROPS = [f'C{i:02d}' for i in range(1, 21)]


def load_prop(pid):
    return importlib.import_module(f'mc.props.{pid.lower()}')


# ---------------------------------------------------------------- workers --
_W = {}


def _winit(pid, tier, seed):
    env.bootstrap()
    _W['mod'] = load_prop(pid)
    _W['tier'] = tier
    _W['seed'] = seed


def _wrun(item):
    idx, shard = item
    t0 = time.time()
    try:
        res = _W['mod'].run_shard(shard, _W['tier'], _W['seed'])
    except BaseException as exc:
        lib = _raised_in_library(exc)
        if lib is not None:
            # the library under test raised where the driver (which passes on the unchanged tree) expects it to
            # succeed: that is a violation of the property being exercised, not a harness problem
            res = Result()
            res.violation(_W['mod'].ID, 'library_exception_uncaught', {'op': '__shard__', 'shard': shard},
                          f'{type(exc).__name__}: {str(exc)[:300]} raised inside {lib} while running shard {json.dumps(shard, default=repr)[:200]}',
                          'no exception', type(exc).__name__)
            return idx, res, None, time.time() - t0
        # harness error: report, never a violation
        return idx, None, traceback.format_exc(), time.time() - t0
    for v in res.violations:
        v.setdefault('_shard', idx)
    return idx, res, None, time.time() - t0


def _raised_in_library(exc):
    """'file:line' of the innermost frame if the exception was raised by code of the repository under test."""
    tb = exc.__traceback__
    last = None
    while tb is not None:
        last = tb
        tb = tb.tb_next
    if last is None:
        return None
    fn = os.path.realpath(last.tb_frame.f_code.co_filename)
    if fn.startswith(env.REPO + os.sep):
        return f'{os.path.relpath(fn, env.REPO)}:{last.tb_lineno}'
    return None


def run_parallel(pid, tier, seed, shards, jobs):
    results = [None] * len(shards)
    errors = []
    if jobs <= 1 or len(shards) <= 1:
        _winit(pid, tier, seed)
        for item in enumerate(shards):
            idx, res, err, _ = _wrun(item)
            if err:
                errors.append((idx, err))
            results[idx] = res
    else:
        ctx = mp.get_context('fork')
        with ctx.Pool(min(jobs, len(shards)), initializer=_winit,
                      initargs=(pid, tier, seed)) as pool:
            for idx, res, err, _ in pool.imap_unordered(_wrun, list(enumerate(shards)), 1):
                if err:
                    errors.append((idx, err))
                results[idx] = res
    return results, errors


# ----------------------------------------------------------------- replay --
def do_replay(pid, path):
    env.bootstrap()
    mod = load_prop(pid)
    with open(path) as fh:
        v = json.load(fh)
    if v['case'].get('op') == '__shard__':
        _W.update(mod=mod, tier=os.environ.get('VERIF_TIER') or 'quick', seed=int(os.environ.get('VERIF_SEED', '0') or 0))
        _, res, err, _ = _wrun((0, v['case']['shard']))
        if res is None:
            res = Result()
    elif 'history_shard' in v:
        # the violation depends on what the same worker process executed before it: re-run its whole shard
        _W.update(mod=mod, tier=os.environ.get('VERIF_TIER') or 'quick', seed=int(os.environ.get('VERIF_SEED', '0') or 0))
        _, res, err, _ = _wrun((0, v['history_shard']))
        if res is None:
            res = Result()
        want = jhash([v['kind'], v['case']])
        res.violations = [x for x in res.violations if jhash([x['kind'], x['case']]) == want]
        res.n_violations = len(res.violations)
    else:
        res = mod.replay(v['case'])
    hits = [x for x in res.violations if x['kind'] == v['kind']]
    out = {'reproduced': bool(hits), 'n': res.n_violations,
           'observed': [jhash([x['kind'], x['observed']]) for x in hits][:5],
           'known': dict(res.known)}
    print('REPLAY ' + json.dumps(out, sort_keys=True))
    for x in res.violations[:5]:
        print(f"  {x['kind']}: {x['message']}")
    return 1 if res.n_violations else 0


def confirm(pid, path, tier='quick'):
    """Replay a violation twice in fresh interpreters; both must reproduce
    and observe the same thing."""
    outs = []
    for _ in range(2):
        p = subprocess.run([sys.executable, '-m', 'mc.runner', pid, '--replay', path],
                           capture_output=True, text=True, cwd=env.VERIF,
                           env={**os.environ, 'PYTHONHASHSEED': '0', 'VERIF_TIER': tier}, timeout=1800)
        line = [ln for ln in p.stdout.splitlines() if ln.startswith('REPLAY ')]
        outs.append(line[0] if line else f'NO-REPLAY-LINE rc={p.returncode} {p.stderr[-400:]}')
    ok = outs[0] == outs[1] and '"reproduced": true' in outs[0]
    return ok, outs


# ------------------------------------------------------------------- main --
def main(argv=None):
    ap = argparse.ArgumentParser()
    ap.add_argument('prop')
    ap.add_argument('--tier', default=os.environ.get('VERIF_TIER') or 'quick',
                    choices=['quick', 'thorough'])
    ap.add_argument('--replay')
    ap.add_argument('--jobs', type=int, default=int(os.environ.get('VERIF_JOBS', '0')) or (os.cpu_count() or 4))
    ap.add_argument('--no-confirm', action='store_true')
    args = ap.parse_args(argv)
    pid = args.prop.upper()
    if pid not in PROPS:
        print(f'unknown property {pid}', file=sys.stderr)
        return 2
    if os.environ.get('PYTHONHASHSEED') != '0':
        os.environ['PYTHONHASHSEED'] = '0'
        os.execv(sys.executable, [sys.executable, '-m', 'mc.runner'] + (argv or sys.argv[1:]))
    if args.replay:
        return do_replay(pid, args.replay)
    try:
        seed = int(os.environ.get('VERIF_SEED', '0') or 0)
    except ValueError:
        seed = 0
    t0 = time.time()
    env.bootstrap()
    from mc import build, findings, evidence
    mod = load_prop(pid)
    shards = mod.shards(args.tier, seed)
    results, errors = run_parallel(pid, args.tier, seed, shards, args.jobs)
    if errors:
        for idx, err in errors[:3]:
            print(f'HARNESS-ERROR shard={idx} {json.dumps(shards[idx], default=repr)[:300]}\n{err}', file=sys.stderr)
        print(f'HARNESS-ERROR property={pid}: {len(errors)} shard(s) crashed inside the harness', file=sys.stderr)
        return 2
    total = Result()
    for r in results:
        total.merge(r)
    if hasattr(mod, 'finalize'):
        mod.finalize(total, args.tier, seed)
    wall = time.time() - t0

    # ---- violations -> replay files, confirmation
    rc = 0
    seen = set()
    printed = 0
    nondet = False
    rdir = os.path.join(env.VERIF, 'replays', pid)
    order = []
    seen_k = set()
    for v in total.violations:
        if v['kind'] not in seen_k:
            seen_k.add(v['kind'])
            order.append(v)
    order += [v for v in total.violations if all(v is not o for o in order)]
    for v in order:
        key = jhash([v['kind'], v['case']])
        if key in seen:
            continue
        seen.add(key)
        os.makedirs(rdir, exist_ok=True)
        path = os.path.join(rdir, f'{key}.json')
        with open(path, 'w') as fh:
            json.dump(v, fh, indent=1, sort_keys=True, default=repr)
        if printed < 3 and not args.no_confirm:
            ok, outs = confirm(pid, path, args.tier)
            if not ok and '_shard' in v and '"reproduced": false' in outs[0] and outs[0] == outs[1]:
                # deterministic non-reproduction of the isolated case: the outcome may depend on the cases the
                # worker executed before it.  Replay the whole shard twice in fresh interpreters.
                v2 = dict(v)
                v2['history_shard'] = shards[v['_shard']]
                v2['message'] = '[history-dependent: reproduces only after the earlier cases of its shard] ' + v['message']
                with open(path, 'w') as fh:
                    json.dump(v2, fh, indent=1, sort_keys=True, default=repr)
                ok, outs = confirm(pid, path, args.tier)
                if ok:
                    v = v2
            if not ok:
                nondet = True
                print(f'NONDETERMINISM property={pid} replay={path} {outs}', file=sys.stderr)
                continue
        if printed < 25:
            print(f'VIOLATION property={pid} replay={path}')
            print(f"  kind={v['kind']} {v['message'][:400]}")
        printed += 1
        rc = 1
    if total.n_violations and rc == 0 and not nondet:
        rc = 1
    if nondet and rc == 0:
        rc = 2
    for fid, n in sorted(total.known.items()):
        print(f'KNOWN-FINDING: property={pid} {findings.describe(fid)} [id={fid} hits={n}]')

    evidence.write(mod, total, args.tier, seed, wall, build.STATUS, len(shards))
    nt = len(total.nontrivial)
    print(f'{pid} tier={args.tier} seed={seed} states={total.states} transitions={total.transitions} '
          f'evaluations={total.evaluations} nontrivial={nt} outcomes={len(total.outcomes)} '
          f'violations={total.n_violations} known_hits={sum(total.known.values())} wall={wall:.1f}s'
          + (f' CAPS={total.caps}' if total.caps else '')
          + (f' kinds={dict(total.vkinds)}' if total.vkinds else ''))
    return rc


if __name__ == '__main__':
    sys.exit(main())
