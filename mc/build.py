"""Compiled-kernel status (DESIGN 2.7).

The Python sources are imported from the working tree, so edits are live.
The compiled kernels (regions/_geometry/*.so) come from generated *.c files
which come from *.pyx.  Cython is not installed anywhere in this image
(neither venv, nor the offline wheelhouse), so a .pyx -> .c regeneration is
impossible here for anyone.  The checks therefore decide the properties for
the kernels *as built* (which is also what the repository's own test-suite
exercises) and record in the evidence whether a kernel source is newer than
the built extension (``kernel_stale``).
"""
import os
import glob
import sysconfig

STATUS = {'kernel_stale': [], 'errors': []}


def ensure_kernels():
    from mc import env
    STATUS['kernel_stale'].clear()
    STATUS['errors'].clear()
    geom = os.path.join(env.REPO, 'regions', '_geometry')
    if not os.path.isdir(geom):
        return STATUS
    suffix = sysconfig.get_config_var('EXT_SUFFIX')
    for pyx in sorted(glob.glob(os.path.join(geom, '*.pyx'))):
        stem = os.path.splitext(os.path.basename(pyx))[0]
        so = os.path.join(geom, stem + suffix)
        if not os.path.exists(so):
            STATUS['errors'].append(f'{stem}: no built extension')
            continue
        if os.path.getmtime(pyx) > os.path.getmtime(so) + 1:
            STATUS['kernel_stale'].append(stem)
    return STATUS
